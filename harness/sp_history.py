"""Replay of SPHistory.tla behaviours into one long-lived Saml2Client (shared by C02, C03, C04):
the same message texts delivered repeatedly while the clock moves and metadata is reloaded."""
import json
import os

import env
import framework as fw
import samlbuild as sb
import sp_common as spc
import tlc
import xmlsec_model

OUTSTANDING = {'id1': '/came/from/1', 'id2': '/came/from/2'}
IRT = {'m1': 'id1', 'm2': 'id2'}
_TEXT = {}
_SEQ = [0]

CAUSE = {'C02': 'edited', 'C03': 'key', 'C04': 'clock', 'C10': None}
# the request side (C10): the same specification with the IdP as receiver and the SP's keys
REQKEY = {'kIdp1': 'kSp', 'kIdp1b': 'kA', 'kAttacker': 'kAttacker'}
CONTROL = {'C02': ('SPHistory_C02_memo.cfg', 'remembering verified signatures by identifier'),
           'C03': ('SPHistory_C03_memo.cfg', 'remembering the issuer\'s certificate'),
           'C04': ('SPHistory_C04_memo.cfg', 'remembering that a time stamp was judged valid'),
           'C10': ('SPHistory_C10_memo.cfg', 'remembering verified signatures by identifier')}


def message(level, m):
    """the fixed text of message m (built once per process, at the base instant)"""
    key = json.dumps([level, m], sort_keys=True)
    if key in _TEXT:
        return _TEXT[key]
    t = env.BASE_NOW
    aid, rid = 'a-' + m['id'], 'r-' + m['id']
    a = spc.default_assertion(aid=aid, subject='user-' + m['id'], irt=IRT[m['id']], t=t)
    r = spc.default_response(rid=rid, irt=IRT[m['id']], t=t)
    if level == 'assertion':
        a['sig'] = sb.signature_template(aid, 'sha256')
    if level == 'response':
        r['sig'] = sb.signature_template(rid, 'sha256')
    doc = sb.response(r, sb.assertion(a))
    if level == 'assertion':
        doc = sb.sign(doc, sb.NS_SAML, 'Assertion', aid, m['key'])
    elif level == 'response':
        doc = sb.sign(doc, sb.NS_SAMLP, 'Response', rid, m['key'])
    if m['edited']:
        doc = sb.tamper_text(doc, 'user-' + m['id'], 'administrator')
    _TEXT[key] = doc
    return doc


def request_text(m):
    key = json.dumps(['request', m], sort_keys=True)
    if key in _TEXT:
        return _TEXT[key]
    import c10
    rid = 'req-' + m['id']
    doc = c10.request_xml('authn', rid, c10.IDP_SSO['post'], env.ts(env.BASE_NOW - 5), sb.signature_template(rid, 'sha256'))
    doc = sb.sign(doc, sb.NS_SAMLP, 'AuthnRequest', rid, REQKEY[m['key']])
    if m['edited']:
        doc = doc.replace('genuine', 'edited!', 1)
    _TEXT[key] = doc
    return doc


def replay_requests(case):
    """the IdP as the long-lived receiver of signed AuthnRequests (HTTP-POST)"""
    import c10
    _SEQ[0] += 1
    path = os.path.join(sb.tmpdir(), 'sp-%d-%d.xml' % (os.getpid(), _SEQ[0]))

    def publish(keyname):
        with open(path, 'w') as f:
            f.write(env.sp_metadata(keys=((keyname, 'signing'), ('kSpEnc1', 'encryption'))))
    publish('kSp')
    conf = env.idp_config(endpoints={'single_sign_on_service': [(c10.IDP_SSO['redirect'], env.BINDING_REDIRECT), (c10.IDP_SSO['post'], env.BINDING_POST)]},
                          want_authn_requests_signed=True)
    conf['metadata'] = {'local': [path]}
    idp = env.make_idp(conf)
    steps = []
    try:
        for e in case['hist']:
            if e['op'] == 'tick':
                spc.CLOCK.now = env.BASE_NOW + 2 * 86400 + 700      # IssueInstant is more than a day old
                steps.append({'op': 'tick'})
            elif e['op'] == 'roll':
                publish('kA')
                idp.metadata.load('local', path)
                steps.append({'op': 'roll'})
            else:
                doc = request_text(e['msg'])
                st = {'op': 'deliver', 'verdict': 'reject', 'exc': None, 'doc': doc}
                try:
                    res = idp.parse_authn_request(sb.b64(doc), env.BINDING_POST)
                    if res is not None and getattr(res, 'message', None) is not None:
                        st['verdict'] = 'accept'
                        st['name_id'] = 'edited' if 'edited!' in str(res.message) else 'genuine'
                except Exception as exc:
                    st['exc'] = type(exc).__name__
                steps.append(st)
    finally:
        spc.CLOCK.now = env.BASE_NOW
        try:
            os.unlink(path)
        except OSError:
            pass
    return steps


def replay(case):
    level = case['level']
    if level == 'request':
        return replay_requests(case)
    _SEQ[0] += 1
    path = os.path.join(sb.tmpdir(), 'idp1-%d-%d.xml' % (os.getpid(), _SEQ[0]))

    def publish(keyname):
        with open(path, 'w') as f:
            f.write(env.idp_metadata(env.IDP1, keys=[(keyname, 'signing')]))
    publish('kIdp1')
    conf = env.sp_config(want_response_signed=level == 'response', want_assertions_signed=level == 'assertion',
                         want_assertions_or_response_signed=False)
    conf['metadata'] = {'local': [path]}
    sp = env.make_sp(conf)          # one receiver per behaviour, never cached
    steps = []
    try:
        for e in case['hist']:
            if e['op'] == 'tick':
                spc.CLOCK.now = env.BASE_NOW + 700          # every NotOnOrAfter of the messages is base + 600
                steps.append({'op': 'tick'})
            elif e['op'] == 'roll':
                publish('kIdp1b')
                sp.metadata.load('local', path)
                steps.append({'op': 'roll'})
            else:
                doc = message(level, e['msg'])
                obs = spc.observe(sp, doc, env.BINDING_POST, dict(OUTSTANDING))
                steps.append({'op': 'deliver', 'verdict': 'accept' if obs['verdict'] == 'accept' else 'reject', 'exc': obs.get('exc'),
                              'name_id': obs.get('name_id'), 'doc': doc})
    finally:
        spc.CLOCK.now = env.BASE_NOW
        try:
            os.unlink(path)
        except OSError:
            pass
    return steps


def causes(e):
    c = set()
    if e['msg']['edited']:
        c.add('edited')
    if e['msg']['key'] != e['mdKey']:
        c.add('key')
    if e['clock'] != 'inside':
        c.add('clock')
    return c


def describe(hist, upto):
    out = []
    for e in hist[:upto + 1]:
        if e['op'] == 'deliver':
            m = e['msg']
            out.append('deliver %s(signed %s%s)' % (m['id'], m['key'], ', edited' if m['edited'] else ''))
        else:
            out.append({'tick': 'clock passes NotOnOrAfter', 'roll': 'metadata reloaded with the new key'}[e['op']])
    return ' -> '.join(out)


def run(chk, pid):
    """TLC on the property's slice of SPHistory (thorough: the full product), vacuity control, replay"""
    thorough = chk.tier == 'thorough'
    cfgs = ['SPHistory_%s.cfg' % pid] + ((['SPHistory_C10_full.cfg'] if pid == 'C10' else ['SPHistory_full.cfg', 'SPHistory_deep.cfg']) if thorough else [])
    behs = []
    for cfg in cfgs:
        res = tlc.run('SPHistory.tla', cfg, timeout=900)
        chk.add_tlc(res, cfg)
        if res.violated:
            raise fw.Machinery('SPHistory.tla (memoryless design) violates %s' % res.violated)
        behs += res.cases
    ctl, what = CONTROL[pid]
    res = tlc.run('SPHistory.tla', ctl, timeout=600, coverage=False)
    chk.add_tlc(res, '%s (receiver %s: expected counterexample)' % (ctl, what))
    if res.violated != 'HistoryIndependent':
        raise fw.Machinery('vacuity control failed: a receiver %s should violate HistoryIndependent' % what)
    seen = set()
    uniq = []
    for b in behs:
        k = json.dumps(b, sort_keys=True)
        if k not in seen:
            seen.add(k)
            uniq.append(b)
    nacc = 0
    for case, steps, err in fw.pmap(replay, uniq, init=spc.init_worker, chunk=4):
        if err:
            raise fw.Machinery(err)
        chk.count({'history': case}, nontrivial=True)
        for k, (e, s) in enumerate(zip(case['hist'], steps)):
            if e['op'] != 'deliver':
                continue
            nacc += s['verdict'] == 'accept'
            detail = {'case': case, 'step': k, 'observed': [dict((a, b) for a, b in x.items() if a != 'doc') for x in steps],
                      'document': s['doc']}
            key = {'history': 'history', 'level': case['level'], 'msg': json.dumps(e['msg'], sort_keys=True),
                   'before': describe(case['hist'], k - 1) if k else ''}
            if e['mustReject'] and s['verdict'] == 'accept' and (CAUSE[pid] is None or CAUSE[pid] in causes(e)):
                chk.violation(key, 'long-lived receiver (%s-level signatures) accepts what a fresh one refuses: %s; at that moment the clock is %s '
                              'the window and metadata holds %s' % (case['level'], describe(case['hist'], k), e['clock'], e['mdKey']), detail)
            elif e['mustAccept'] and s['verdict'] != 'accept':
                chk.violation(key, 'long-lived receiver (%s-level signatures) refuses a conformant message seen for the first time (%s): %s'
                              % (case['level'], s.get('exc'), describe(case['hist'], k)), detail)
        chk.sample({'kind': 'history', 'level': case['level'], 'steps': describe(case['hist'], len(case['hist'])),
                    'verdicts': [s.get('verdict') for s in steps if s['op'] == 'deliver']}, limit=3)
    if nacc == 0 and not chk.violations:
        raise fw.Machinery('no delivery of any history was accepted: templates broken')
    chk.cov['histories'] = len(uniq)
    return len(uniq)


def do_replay(j):
    spc.init_worker()
    steps = replay(j['detail']['case'])
    print(json.dumps([dict((a, b) for a, b in x.items() if a != 'doc') for x in steps], indent=1))
    return 0
