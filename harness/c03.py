"""C03 -- signatures trusted only under the issuer's metadata keys: SPKeys.tla replayed with
real keys and template-written metadata."""
import json
import os
import sys

sys.path.insert(0, os.path.dirname(os.path.abspath(__file__)))
import env
import framework as fw
import samlbuild as sb
import sp_common as spc
import sp_history
import tlc

ISSUER = {'idp1': env.IDP1, 'idp2': env.IDP2, 'unknown': 'urn:verif:unknown-idp', 'idp1case': env.IDP1.upper()}


def metadata(descriptors, layout):
    if layout == 'noStore':
        return []
    mds = [env.idp_metadata(env.IDP2, keys=[('kIdp2', 'signing')], sso=env.IDP2_SSO)]
    if layout != 'absent':
        mds.append(env.idp_metadata(env.IDP1, keys=[(k, None if u == 'none' else u) for k, u in descriptors]))
    return mds


REQ_ISSUER = {'idp1': env.SP, 'idp2': env.SP2, 'unknown': 'urn:verif:unknown-sp', 'idp1case': env.SP.upper()}


def replay_request(case):
    """the receiving side of requests: an IdP whose metadata holds the two requesters"""
    import c10
    import xmlsec_model
    scn = case['scn']
    mds = [env.sp_metadata(entity_id=env.SP2, keys=(('kIdp2', 'signing'),))]
    if scn['layout'] != 'absent':
        mds.append(env.sp_metadata(entity_id=env.SP, keys=[(k, None if u == 'none' else u) for k, u in case['descriptors']]))
    extra = {'want_authn_requests_only_with_valid_cert': True} if scn.get('certOnly') else {}
    idp = spc.idp_for(metadata=mds, top_only_use_keys_in_metadata=scn['flag'], **dict(extra,
                      endpoints={'single_sign_on_service': [(c10.IDP_SSO['redirect'], env.BINDING_REDIRECT), (c10.IDP_SSO['post'], env.BINDING_POST)]}))
    emb = None if scn['embedded'] == 'none' else scn['embedded']
    doc = c10.request_xml('authn', 'req1', c10.IDP_SSO['post'], env.ts(spc.now() - 5), sb.signature_template('req1', 'sha256', embed_cert=emb))
    doc = doc.replace('<saml:Issuer>%s</saml:Issuer>' % env.SP, '<saml:Issuer>%s</saml:Issuer>' % REQ_ISSUER[scn['issuer']], 1)
    doc = sb.sign(doc, sb.NS_SAMLP, 'AuthnRequest', 'req1', scn['signKey'])
    if scn.get('priorEnc'):
        try:
            idp.metadata.certs(REQ_ISSUER[scn['issuer']], 'any', 'encryption')
        except Exception:
            pass
    log = []
    xmlsec_model.SINK = log
    obs = {'verdict': 'reject', 'exc': None, 'doc': doc}
    try:
        res = idp.parse_authn_request(sb.b64(doc), env.BINDING_POST)
        if res is not None and getattr(res, 'message', None) is not None:
            obs['verdict'] = 'accept'
    except Exception as exc:
        obs['exc'] = type(exc).__name__
        obs['msg'] = str(exc)[:200]
    finally:
        xmlsec_model.SINK = None
    obs['calls'] = [{'mode': c.get('mode'), 'out': c.get('out'), 'key': env.fingerprint_to_name(c.get('key'))} for c in log]
    return obs


def replay(case):
    scn = case['scn']
    if scn['level'] == 'request':
        return replay_request(case)
    sp = spc.sp_for(metadata=metadata(case['descriptors'], scn['layout']),
                    want_response_signed=scn['level'] == 'response', want_assertions_signed=scn['level'] == 'assertion',
                    want_assertions_or_response_signed=False, top_only_use_keys_in_metadata=scn['flag'],
                    idp=[env.IDP1, env.IDP2])
    issuer = ISSUER[scn['issuer']]
    emb = None if scn['embedded'] == 'none' else scn['embedded']
    a = spc.default_assertion(issuer=issuer)
    r = spc.default_response(issuer=issuer if scn.get('outer', 'same') == 'same' else ISSUER[scn['outer']])
    if scn.get('respIssuer') == 'absent':
        r['issuer'] = None
    if scn['level'] == 'assertion':
        a['sig'] = sb.signature_template('a1', 'sha256', embed_cert=emb)
    else:
        r['sig'] = sb.signature_template('r1', 'sha256', embed_cert=emb)
    doc = sb.response(r, sb.assertion(a))
    if scn['level'] == 'assertion':
        doc = sb.sign(doc, sb.NS_SAML, 'Assertion', 'a1', scn['signKey'])
    else:
        doc = sb.sign(doc, sb.NS_SAMLP, 'Response', 'r1', scn['signKey'])
    if scn.get('priorEnc'):
        try:
            sp.metadata.certs(issuer, 'any', 'encryption')
        except Exception:
            pass
    obs = spc.observe(sp, doc, env.BINDING_POST, {'id1': '/'})
    obs['doc'] = doc
    if scn['level'] == 'response':
        # the signature layer on its own (public API of the security context): does it take the response signature?
        try:
            obs['sig_layer'] = 'accept' if sp.sec.correctly_signed_response(doc, require_response_signature=True) else 'reject'
        except Exception as exc:
            obs['sig_layer'] = 'reject'
            obs['sig_layer_exc'] = type(exc).__name__
    return obs


def main():
    chk = fw.Check('C03', 'model_checking')
    res = tlc.run('SPKeys.tla', 'SPKeys.cfg', timeout=600)
    chk.add_tlc(res, 'SPKeys.cfg')
    if res.violated:
        raise fw.Machinery('SPKeys.tla: pipeline violates the contract: %s' % res.violated)
    cases = sorted(res.cases, key=lambda c: json.dumps(c['scn'], sort_keys=True))
    nacc = 0
    for case, obs, err in fw.pmap(replay, cases, init=spc.init_worker, chunk=16):
        if err:
            raise fw.Machinery(err)
        scn = case['scn']
        chk.count(scn, nontrivial=True)
        accepted = obs['verdict'] == 'accept'
        nacc += accepted
        detail = {'case': case, 'observed': dict((k, v) for k, v in obs.items() if k != 'doc'), 'document': obs['doc']}
        if case['mustReject'] and obs.get('sig_layer') == 'accept' and not accepted:
            chk.violation(scn, 'SecurityContext.correctly_signed_response takes a response signature that no trusted key of the signed '
                          'element\'s issuer made: %s' % json.dumps(scn, sort_keys=True), detail)
        elif case['mustReject'] and accepted:
            chk.violation(scn, 'signature made with %s accepted for issuer %s (metadata layout %s, embedded %s, only_use_keys_in_metadata=%s)'
                          % (scn['signKey'], scn['issuer'], scn['layout'], scn['embedded'], scn['flag']), detail)
        elif case['mustAccept'] and not accepted:
            chk.violation(scn, 'signature made with a signing key metadata holds for the issuer is rejected (%s %s): %s'
                          % (obs.get('exc'), obs.get('msg'), json.dumps(scn, sort_keys=True)), detail)
        elif accepted != (case['model'] == 'accept'):
            chk.note('drift: SP says %s, pipeline model says %s for %s' % (obs['verdict'], case['model'], json.dumps(scn, sort_keys=True)))
        else:
            # accepted => the successful verification really used a key metadata (or, flag off, the message) offers
            oks = [c for c in obs['calls'] if c['mode'] == 'verify' and c['out'] == 'OK']
            if accepted and not any(c['key'] == scn['signKey'] for c in oks):
                chk.violation(scn, 'accepted without a successful verification under the signing key', detail)
        chk.sample({'scn': scn, 'expected': 'accept' if case['mustAccept'] else ('reject' if case['mustReject'] else 'open'),
                    'observed': obs['verdict'], 'exc': obs.get('exc')}, limit=5)
    if nacc == 0 and not chk.violations:
        raise fw.Machinery('nothing accepted: templates broken')
    chk.cov['exhaustive'] = True
    chk.cov['rule'] = ('all scenarios of SPKeys.tla: Issuer of the enclosing Response (assertion level) x 7 key-descriptor layouts of the issuer x claimed issuer x real signing key '
                      '(4 RSA keys) x embedded certificate x only_use_keys_in_metadata x signature level (response, assertion, or a signed request received by an IdP); every one is decided '
                      'by the contract except flag-off/embedded-key cases which may go either way')
    chk.assumptions = list(fw.TOOL_ASSUMPTIONS)
    # the same receiver over time: SPHistory.tla
    sp_history.run(chk, 'C03')
    sb.cleanup()
    return chk.finish()


def do_replay(path):
    spc.init_worker()
    j = json.load(open(path))
    if 'hist' in j['detail']['case']:
        return sp_history.do_replay(j)
    obs = replay(j['detail']['case'])
    print(json.dumps(dict((k, v) for k, v in obs.items() if k != 'doc'), indent=1))
    return 0


if __name__ == '__main__':
    if len(sys.argv) > 2 and sys.argv[1] == '--replay':
        fw.main_wrapper(lambda: do_replay(sys.argv[2]))
    fw.main_wrapper(main)
