"""Concretisation of abstract response / request scenarios: SAML messages written from
string templates (never with the classes under test), signed and encrypted by the stand-in
with real keys of the pool."""
import base64
import os
import re
import tempfile
import zlib
from xml.sax.saxutils import escape, quoteattr

import env
import xmlsec_model

NS_SAML = 'urn:oasis:names:tc:SAML:2.0:assertion'
NS_SAMLP = 'urn:oasis:names:tc:SAML:2.0:protocol'
NS_DS = 'http://www.w3.org/2000/09/xmldsig#'
NS_XENC = 'http://www.w3.org/2001/04/xmlenc#'

SIGALG = {
    'sha1': ('http://www.w3.org/2000/09/xmldsig#rsa-sha1', 'http://www.w3.org/2000/09/xmldsig#sha1'),
    'sha224': ('http://www.w3.org/2001/04/xmldsig-more#rsa-sha224', 'http://www.w3.org/2001/04/xmldsig-more#sha224'),
    'sha256': ('http://www.w3.org/2001/04/xmldsig-more#rsa-sha256', 'http://www.w3.org/2001/04/xmlenc#sha256'),
    'sha384': ('http://www.w3.org/2001/04/xmldsig-more#rsa-sha384', 'http://www.w3.org/2001/04/xmldsig-more#sha384'),
    'sha512': ('http://www.w3.org/2001/04/xmldsig-more#rsa-sha512', 'http://www.w3.org/2001/04/xmlenc#sha512'),
}
STATUS = 'urn:oasis:names:tc:SAML:2.0:status:'
BEARER = 'urn:oasis:names:tc:SAML:2.0:cm:bearer'
PASSWORD = 'urn:oasis:names:tc:SAML:2.0:ac:classes:Password'
NAMEFORMAT_URI = 'urn:oasis:names:tc:SAML:2.0:attrname-format:uri'

_TMP = None


def tmpdir():
    global _TMP
    if _TMP is None or not os.path.isdir(_TMP):
        os.makedirs(env.WORK, exist_ok=True)
        _TMP = tempfile.mkdtemp(prefix='build-%d-' % os.getpid(), dir=env.WORK)
    return _TMP


def cleanup():
    global _TMP
    if _TMP and os.path.isdir(_TMP):
        import shutil
        shutil.rmtree(_TMP, ignore_errors=True)
    _TMP = None


def _strip_decl(data):
    return re.sub(rb'^\s*<\?xml[^>]*\?>\s*', b'', data).rstrip(b'\n')


XPATH_FILTER = 'http://www.w3.org/TR/1999/REC-xpath-19991116'


def signature_template(ref_id, alg='sha1', embed_cert=None, sig_id=None, xpath=None):
    """xpath: an XPath filter transform (with that expression) precedes the usual two"""
    sm, dm = SIGALG[alg]
    flt = ('<ds:Transform Algorithm="%s"><ds:XPath xmlns:saml="%s">%s</ds:XPath></ds:Transform>' % (XPATH_FILTER, NS_SAML, xpath)) if xpath else ''
    ki = ''
    if embed_cert:
        ki = ('<ds:KeyInfo><ds:X509Data><ds:X509Certificate>%s</ds:X509Certificate></ds:X509Data></ds:KeyInfo>'
              % env.cert_b64(embed_cert))
    return _sigtmpl(ref_id, sig_id, sm, dm, ki).replace('<ds:Transforms>', '<ds:Transforms>' + flt, 1)


def _sigtmpl(ref_id, sig_id, sm, dm, ki):
    return ('<ds:Signature xmlns:ds="%s"%s><ds:SignedInfo>'
            '<ds:CanonicalizationMethod Algorithm="http://www.w3.org/2001/10/xml-exc-c14n#"/>'
            '<ds:SignatureMethod Algorithm="%s"/>'
            '<ds:Reference URI="#%s"><ds:Transforms>'
            '<ds:Transform Algorithm="http://www.w3.org/2000/09/xmldsig#enveloped-signature"/>'
            '<ds:Transform Algorithm="http://www.w3.org/2001/10/xml-exc-c14n#"/></ds:Transforms>'
            '<ds:DigestMethod Algorithm="%s"/><ds:DigestValue/></ds:Reference></ds:SignedInfo>'
            '<ds:SignatureValue/>%s</ds:Signature>'
            % (NS_DS, ' Id="%s"' % sig_id if sig_id else '', sm, ref_id, dm, ki))


def tool(argv):
    rc, out, err = xmlsec_model.run(argv)
    return rc, err


def sign(doc, node_ns, node_tag, node_id, keyname, id_attr='ID'):
    """fill the first signature template below the element with that ID (through the stand-in)"""
    d = tmpdir()
    src, out = os.path.join(d, 'in.xml'), os.path.join(d, 'out.xml')
    with open(src, 'wb') as f:
        f.write(doc if isinstance(doc, bytes) else doc.encode('utf-8'))
    if os.path.exists(out):
        os.unlink(out)
    rc, err = tool(['--sign', '--privkey-pem', env.keyfile(keyname), '--id-attr:%s' % id_attr,
                    '%s:%s' % (node_ns, node_tag), '--node-id', node_id, '--output', out, src])
    if rc != 0 or not os.path.exists(out):
        raise RuntimeError('stand-in signing failed: %s' % err)
    with open(out, 'rb') as f:
        return _strip_decl(f.read()).decode('utf-8')


ENC_TEMPLATE = ('<xenc:EncryptedData xmlns:xenc="%s" xmlns:ds="%s" Id="ED" Type="http://www.w3.org/2001/04/xmlenc#Element">'
                '<xenc:EncryptionMethod Algorithm="%s"/><ds:KeyInfo><xenc:EncryptedKey Id="EK">'
                '<xenc:EncryptionMethod Algorithm="http://www.w3.org/2001/04/xmlenc#rsa-1_5"/>'
                '<ds:KeyInfo><ds:KeyName>my-rsa-key</ds:KeyName></ds:KeyInfo>'
                '<xenc:CipherData><xenc:CipherValue></xenc:CipherValue></xenc:CipherData></xenc:EncryptedKey></ds:KeyInfo>'
                '<xenc:CipherData><xenc:CipherValue></xenc:CipherValue></xenc:CipherData></xenc:EncryptedData>')


def encrypt_element(doc, xpath, keyname, method='tripledes-cbc'):
    """replace the element selected by xpath with EncryptedData for the certificate `keyname`"""
    d = tmpdir()
    src, tmpl, out = (os.path.join(d, n) for n in ('plain.xml', 'tmpl.xml', 'enc.xml'))
    with open(src, 'wb') as f:
        f.write(doc if isinstance(doc, bytes) else doc.encode('utf-8'))
    with open(tmpl, 'w') as f:
        f.write(ENC_TEMPLATE % (NS_XENC, NS_DS, NS_XENC + method))
    if os.path.exists(out):
        os.unlink(out)
    session = {'tripledes-cbc': 'des-192', 'aes128-cbc': 'aes-128', 'aes256-cbc': 'aes-256'}[method]
    rc, err = tool(['--encrypt', '--pubkey-cert-pem', env.certfile(keyname), '--session-key', session,
                    '--xml-data', src, '--node-xpath', xpath, '--output', out, tmpl])
    if rc != 0 or not os.path.exists(out):
        raise RuntimeError('stand-in encryption failed: %s' % err)
    with open(out, 'rb') as f:
        return _strip_decl(f.read()).decode('utf-8')


def xp(*names):
    return ''.join('/*[local-name()="%s"]' % n for n in names)


# ------------------------------------------------------------------ assertion / response
def attr_xml(attrs):
    out = ''
    for name, vals in attrs:
        out += '<saml:Attribute Name=%s NameFormat="%s">' % (quoteattr(name), NAMEFORMAT_URI)
        for v in vals:
            out += ('<saml:AttributeValue xmlns:xs="http://www.w3.org/2001/XMLSchema" '
                    'xmlns:xsi="http://www.w3.org/2001/XMLSchema-instance" xsi:type="xs:string">%s'
                    '</saml:AttributeValue>' % escape(v))
        out += '</saml:Attribute>'
    return out


# urn:oid names known to the shipped attribute maps (saml_uri): givenName, sn, mail
OID = {'givenName': 'urn:oid:2.5.4.42', 'sn': 'urn:oid:2.5.4.4', 'mail': 'urn:oid:0.9.2342.19200300.100.1.3',
       'title': 'urn:oid:2.5.4.12'}


def assertion(a):
    """a: dict with keys id, issue_instant, issuer, subject (text), conf (list of dicts: recipient,
    nooa, nb, irt, method), cond (dict nb, nooa, audiences: list of lists) or None, authn (dict instant,
    session_index, session_nooa) or None, attrs (list of (name, [values])), sig (template string) or '',
    advice (xml) or '', version"""
    conf_x = ''
    for c in a.get('conf', []):
        scd = ''
        if c.get('data', True):
            scd = '<saml:SubjectConfirmationData'
            for k, an in (('irt', 'InResponseTo'), ('nb', 'NotBefore'), ('nooa', 'NotOnOrAfter'),
                          ('recipient', 'Recipient'), ('address', 'Address')):
                if c.get(k) is not None:
                    scd += ' %s=%s' % (an, quoteattr(c[k]))
            scd += '/>'
        conf_x += '<saml:SubjectConfirmation Method="%s">%s</saml:SubjectConfirmation>' % (c.get('method', BEARER), scd)
    subj = ''
    if a.get('subject') is not None:
        subj = ('<saml:Subject><saml:NameID Format="urn:oasis:names:tc:SAML:2.0:nameid-format:transient">%s</saml:NameID>%s'
                '</saml:Subject>' % (escape(a['subject']), conf_x))
    cond = ''
    if a.get('cond') is not None:
        c = a['cond']
        cond = '<saml:Conditions'
        if c.get('nb') is not None:
            cond += ' NotBefore="%s"' % c['nb']
        if c.get('nooa') is not None:
            cond += ' NotOnOrAfter="%s"' % c['nooa']
        cond += '>'
        for auds in c.get('audiences', []):
            cond += '<saml:AudienceRestriction>%s</saml:AudienceRestriction>' % ''.join(
                '<saml:Audience>%s</saml:Audience>' % escape(x) for x in auds)
        cond += '</saml:Conditions>'
    authn = ''
    if a.get('authn') is not None:
        n = a['authn']
        authn = '<saml:AuthnStatement AuthnInstant="%s" SessionIndex="%s"' % (n['instant'], n.get('session_index', 'sidx-1'))
        if n.get('session_nooa') is not None:
            authn += ' SessionNotOnOrAfter="%s"' % n['session_nooa']
        authn += ('><saml:AuthnContext><saml:AuthnContextClassRef>%s</saml:AuthnContextClassRef></saml:AuthnContext>'
                  '</saml:AuthnStatement>' % PASSWORD)
    if a.get('authn2') is not None:
        n = a['authn2']
        authn += ('<saml:AuthnStatement AuthnInstant="%s" SessionIndex="sidx-2" SessionNotOnOrAfter="%s"><saml:AuthnContext>'
                  '<saml:AuthnContextClassRef>%s</saml:AuthnContextClassRef></saml:AuthnContext></saml:AuthnStatement>'
                  % (n['instant'], n['session_nooa'], PASSWORD))
    attrs = ''
    if a.get('attrs'):
        attrs = '<saml:AttributeStatement>%s</saml:AttributeStatement>' % attr_xml(a['attrs'])
    return ('<saml:Assertion xmlns:saml="%s" ID="%s" Version="%s" IssueInstant="%s">'
            '<saml:Issuer>%s</saml:Issuer>%s%s%s%s%s%s</saml:Assertion>'
            % (NS_SAML, a['id'], a.get('version', '2.0'), a['issue_instant'], escape(a['issuer']), a.get('sig', ''),
               subj, cond, a.get('advice', ''), authn, attrs))


def status_xml(top='Success', second=None, message=None):
    def uri(x):
        if x == 'SuccessCut':
            return STATUS + 'Succes'            # the Success URN without its last letter
        if x == 'SuccessBare':
            return 'Success'                    # the bare word
        return x if ':' in x else STATUS + x
    inner = '<samlp:StatusCode Value="%s"/>' % uri(second) if second else ''
    msg = ("<samlp:StatusMessage>%s</samlp:StatusMessage>" % escape(message) if message else "<samlp:StatusMessage/>") if message is not None else ""
    return '<samlp:Status><samlp:StatusCode Value="%s">%s</samlp:StatusCode>%s</samlp:Status>' % (uri(top), inner, msg)


def response(r, body):
    """r: dict id, issue_instant, destination, irt, issuer, version, status (xml), sig (template)"""
    attrs = ' ID="%s" Version=%s IssueInstant="%s"' % (r['id'], quoteattr(r.get('version', '2.0')), r['issue_instant'])
    if r.get('destination') is not None:
        attrs += ' Destination=%s' % quoteattr(r['destination'])
    if r.get('irt') is not None:
        attrs += ' InResponseTo=%s' % quoteattr(r['irt'])
    issuer = '<saml:Issuer>%s</saml:Issuer>' % escape(r['issuer']) if r.get('issuer') is not None else ''
    return ('<samlp:Response xmlns:samlp="%s" xmlns:saml="%s"%s>%s%s%s%s</samlp:Response>'
            % (NS_SAMLP, NS_SAML, attrs, issuer, r.get('sig', ''), r.get('status', status_xml()), body))


def tamper_text(xml, marker, replacement):
    assert marker in xml, marker
    return xml.replace(marker, replacement, 1)


def tamper_sigvalue(xml, occurrence=0):
    """flip one base64 character of the n-th SignatureValue"""
    ms = list(re.finditer(r'<ds:SignatureValue>([^<]+)</ds:SignatureValue>', xml))
    m = ms[occurrence]
    val = m.group(1)
    c = 'A' if val[10] != 'A' else 'B'
    return xml[:m.start(1)] + val[:10] + c + val[11:] + xml[m.end(1):]


def empty_sigvalue(xml, occurrence=0):
    """a complete Signature whose n-th SignatureValue has no content"""
    ms = list(re.finditer(r'<ds:SignatureValue>([^<]+)</ds:SignatureValue>', xml))
    m = ms[occurrence]
    return xml[:m.start(1)] + xml[m.end(1):]


def b64(xml):
    return base64.b64encode(xml.encode('utf-8')).decode('ascii')


def deflate_b64(xml):
    return base64.b64encode(zlib.compress(xml.encode('utf-8'))[2:-4]).decode('ascii')


def authn_request(rid='req1', issuer=None, destination=None, acs_url=None, binding=None, version='2.0',
                  issue_instant=None, sig='', acs_index=None, extra_attrs=''):
    attrs = ' ID="%s" Version=%s IssueInstant="%s"' % (rid, quoteattr(version), issue_instant)
    if destination is not None:
        attrs += ' Destination=%s' % quoteattr(destination)
    if acs_url is not None:
        attrs += ' AssertionConsumerServiceURL=%s' % quoteattr(acs_url)
    if acs_index is not None:
        attrs += ' AssertionConsumerServiceIndex="%s"' % acs_index
    if binding is not None:
        attrs += ' ProtocolBinding="%s"' % binding
    return ('<samlp:AuthnRequest xmlns:samlp="%s" xmlns:saml="%s"%s%s><saml:Issuer>%s</saml:Issuer>%s'
            '<samlp:NameIDPolicy AllowCreate="true" Format="urn:oasis:names:tc:SAML:2.0:nameid-format:transient"/>'
            '</samlp:AuthnRequest>' % (NS_SAMLP, NS_SAML, attrs, extra_attrs, escape(issuer), sig))
