"""Verdict rule, evidence files, known findings, replay files, worker pool
(DESIGN.md sections 2.3 and 9)."""
import hashlib
import json
import multiprocessing
import os
import random
import sys
import time
import traceback

VERIF = os.path.dirname(os.path.dirname(os.path.abspath(__file__)))
WORK = os.path.join(VERIF, 'work')
REPLAYS = os.path.join(VERIF, 'replays')
KNOWN = os.path.join(VERIF, 'known_findings.jsonl')


class Machinery(Exception):
    """the machinery, not the code under test, failed: exit 2"""


def tier():
    return os.environ.get('VERIF_TIER', 'quick')


def seed():
    try:
        return int(os.environ.get('VERIF_SEED', '0'))
    except ValueError:
        return 0


def load_known(pid):
    out = []
    if os.path.exists(KNOWN):
        for line in open(KNOWN):
            line = line.strip()
            if not line or line.startswith('#'):
                continue
            ent = json.loads(line)
            if ent.get('property') == pid and ent.get('status') == 'known':
                out.append(ent)
    return out


def _matches(pattern, scn):
    for k, v in pattern.items():
        cur = scn
        for part in k.split('.'):
            if isinstance(cur, dict) and part in cur:
                cur = cur[part]
            else:
                return False
        if isinstance(v, list):
            if cur not in v:
                return False
        elif cur != v:
            return False
    return True


_CURRENT = []


class Check(object):
    """one run of one property's check"""

    def __init__(self, pid, level):
        _CURRENT.append(self)
        self.pid = pid
        self.level = level
        self.t0 = time.time()
        self.tier = tier()
        self.seed = seed()
        self.rng = random.Random(self.seed)
        self.violations = []        # (what, replay path)
        self.known_hits = {}        # what -> count
        self.notes = []
        self.known = load_known(pid)
        self.cov = {'states': 0, 'transitions': 0, 'traces_validated_against_impl': 0,
                    'evaluations': 0, 'distinct_nontrivial': 0, 'samples': [], 'rule': '',
                    'tlc_runs': [], 'exhaustive': False}
        self.assumptions = []
        self._distinct = set()
        os.makedirs(os.path.join(WORK, pid), exist_ok=True)

    # -- accounting
    def add_tlc(self, res, name):
        self.cov['states'] += res.states
        self.cov['transitions'] += res.generated
        self.cov['tlc_runs'].append({'config': name, 'distinct_states': res.states,
                                     'states_generated': res.generated, 'depth': res.depth,
                                     'wall_s': round(res.wall, 2), 'cases': len(res.cases),
                                     'violated': res.violated,
                                     'actions_covered': {k: v[0] for k, v in sorted(res.coverage.items())}})

    def count(self, scn, nontrivial=True, validated=True):
        self.cov['evaluations'] += 1
        if validated:
            self.cov['traces_validated_against_impl'] += 1
        if nontrivial:
            h = hashlib.sha1(json.dumps(scn, sort_keys=True, default=str).encode()).hexdigest()
            if h not in self._distinct:
                self._distinct.add(h)
                self.cov['distinct_nontrivial'] += 1

    def sample(self, obj, limit=6):
        if len(self.cov['samples']) < limit:
            self.cov['samples'].append(obj)

    def note(self, text):
        if len(self.notes) < 50:
            self.notes.append(text)
        print('NOTE %s' % text)

    # -- verdicts
    def violation(self, scn, what, detail):
        """scn: abstract scenario (dict) used for known-finding matching; detail: replay content"""
        for ent in self.known:
            if _matches(ent.get('match', {}), scn):
                key = ent.get('what', what)
                self.known_hits[key] = self.known_hits.get(key, 0) + 1
                return False
        if len(self.violations) >= 25:
            self.violations.append((what, None))
            return True
        os.makedirs(REPLAYS, exist_ok=True)
        h = hashlib.sha1(json.dumps(scn, sort_keys=True, default=str).encode()).hexdigest()[:12]
        path = os.path.join(REPLAYS, '%s-%s.json' % (self.pid, h))
        with open(path, 'w') as f:
            json.dump({'property': self.pid, 'what': what, 'scn': scn, 'detail': detail},
                      f, indent=1, sort_keys=True, default=str)
        if len(self.violations) < 25:
            print('VIOLATION property=%s replay=%s' % (self.pid, path))
            print('  %s' % what)
        self.violations.append((what, path))
        sys.stdout.flush()
        return True

    def finish(self):
        for what, n in sorted(self.known_hits.items()):
            print('KNOWN-FINDING: property=%s %s (%d cases)' % (self.pid, what, n))
        cov = dict(self.cov)
        if not cov['samples']:
            cov['samples'] = [{'none': 'no case was explored'}]
        ev = {
            'property_id': self.pid, 'tier': self.tier if self.tier in ('quick', 'thorough') else 'quick',
            'seed': self.seed, 'level': self.level, 'coverage': cov,
            'assumptions': self.assumptions, 'wall_s': round(time.time() - self.t0, 2),
            'violations': len(self.violations), 'notes': self.notes[:50],
            'known_findings_hit': self.known_hits,
        }
        os.makedirs(os.path.join(VERIF, 'evidence'), exist_ok=True)
        path = os.path.join(VERIF, 'evidence', '%s.json' % self.pid)
        with open(path + '.tmp', 'w') as f:
            json.dump(ev, f, indent=1, sort_keys=True, default=str)
        os.rename(path + '.tmp', path)
        print('%s: %s  tier=%s evaluations=%d states=%d wall=%.1fs' % (
            self.pid, 'VIOLATED (%d)' % len(self.violations) if self.violations else 'ok',
            self.tier, cov['evaluations'], cov['states'], time.time() - self.t0))
        return 1 if self.violations else 0


TOOL_ASSUMPTIONS = [
    'T0-T8: the absent external xmlsec1 behaves as specified in spec/XmlSecTool.tla (first '
    'ds:Signature in document order below the --node-id element is the operated one; references '
    'resolve by registered ID; only the --pubkey-cert-pem key is trusted); the stand-in '
    'harness/standin/xmlsec1 implements that contract and is itself checked against TLC-computed '
    'tool verdicts',
    'RSA PKCS#1 v1.5 / 3DES / AES of the `cryptography` package are correct',
    'the stand-in canonical form is self-consistent but not interoperable exclusive C14N',
]


# ------------------------------------------------------------------ worker pool
_WORKER_FN = None


def _init_worker(init_fn):
    global _WORKER_FN
    import warnings
    warnings.simplefilter('ignore')
    if init_fn:
        init_fn()


def _call(args):
    fn, case = args
    try:
        return case, fn(case), None
    except Exception:
        return case, None, traceback.format_exc()


def pmap(fn, cases, init=None, procs=None, chunk=8):
    """run fn(case) for all cases in a process pool; yields (case, result, error text)"""
    cases = list(cases)
    if not cases:
        return
    procs = procs or min(16, max(1, len(cases) // 4))
    if procs <= 1 or os.environ.get('VERIF_NOPOOL'):
        _init_worker(init)
        for c in cases:
            yield _call((fn, c))
        return
    ctx = multiprocessing.get_context('fork')
    with ctx.Pool(procs, initializer=_init_worker, initargs=(init,)) as pool:
        for r in pool.imap_unordered(_call, [(fn, c) for c in cases], chunksize=chunk):
            yield r


def main_wrapper(fn):
    import warnings
    warnings.simplefilter('ignore')
    try:
        rc = fn()
    except Exception as exc:
        if _CURRENT and _CURRENT[-1].violations:
            # violations were already established and reported; a later stage choking on the same broken
            # behaviour must not turn the verdict into "machinery failure"
            print('NOTE a later stage failed after violations had been found: %s' % (str(exc).splitlines() or [''])[0][:200])
            sys.exit(_CURRENT[-1].finish())
        if isinstance(exc, Machinery):
            print('MACHINERY FAILURE: %s' % exc)
        else:
            traceback.print_exc()
            print('MACHINERY FAILURE (unexpected exception)')
        sys.exit(2)
    sys.exit(rc)
