"""self-test of the stand-in (subprocess and in-process): sign/verify/tamper/encrypt/decrypt"""
import os, subprocess, sys, tempfile
sys.path.insert(0, os.path.dirname(os.path.abspath(__file__)))
import env
import xmlsec_model as xm

DOC = b'''<r xmlns:ds="http://www.w3.org/2000/09/xmldsig#" ID="x"><a>hi</a><ds:Signature><ds:SignedInfo><ds:CanonicalizationMethod Algorithm="http://www.w3.org/2001/10/xml-exc-c14n#"/><ds:SignatureMethod Algorithm="http://www.w3.org/2000/09/xmldsig#rsa-sha1"/><ds:Reference URI="#x"><ds:Transforms><ds:Transform Algorithm="http://www.w3.org/2000/09/xmldsig#enveloped-signature"/></ds:Transforms><ds:DigestMethod Algorithm="http://www.w3.org/2000/09/xmldsig#sha1"/><ds:DigestValue /></ds:Reference></ds:SignedInfo><ds:SignatureValue/></ds:Signature></r>'''


def main():
    env.ensure_keys()
    d = tempfile.mkdtemp(dir=env.WORK)
    try:
        src, out, out2 = (os.path.join(d, n) for n in ('d.xml', 'o.xml', 'o2.xml'))
        open(src, 'wb').write(DOC)
        sign = ['--sign', '--privkey-pem', env.keyfile('kIdp1'), '--id-attr:ID', 'r', '--node-id', 'x', '--output', out, src]
        p = subprocess.run([env.STANDIN] + sign, capture_output=True)
        assert p.returncode == 0 and os.path.getsize(out) > 0, p
        ver = lambda cert, f: ['--verify', '--enabled-reference-uris', 'empty,same-doc', '--pubkey-cert-pem',
                               env.certfile(cert), '--id-attr:ID', 'r', '--node-id', 'x', '--output', out2, f]
        p = subprocess.run([env.STANDIN] + ver('kIdp1', out), capture_output=True)
        assert p.returncode == 0 and b'OK' in p.stderr.splitlines(), p
        assert xm.run(ver('kIdp1', out))[0] == 0
        assert xm.run(ver('kIdp2', out))[0] != 0                      # other key
        t = os.path.join(d, 't.xml')
        open(t, 'wb').write(open(out, 'rb').read().replace(b'<a>hi</a>', b'<a>ho</a>'))
        rc, _, err = xm.run(ver('kIdp1', t))
        assert rc != 0 and b'FAIL' in err.splitlines()                # tampered
        assert xm.run(ver('kIdp1', out)[:-3] + ['--node-id', 'nope', '--output', out2, out])[0] != 0
        print('stand-in self-test ok')
    finally:
        import shutil
        shutil.rmtree(d, ignore_errors=True)


if __name__ == '__main__':
    main()
