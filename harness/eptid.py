"""Growth beyond the listed properties: eptid.Eptid / EptidShelve against Eptid.tla -- every scenario's lookups (with a
restart of the store in between) through the real classes; which lookups get equal identifiers, and for whom they were made."""
import json
import os
import sys
import time as _time

sys.path.insert(0, os.path.dirname(os.path.abspath(__file__)))
import env
import framework as fw
import samlbuild as sb
import tlc

REFUTED = [('Eptid_own.cfg', 'OwnValue'), ('Eptid_injective.cfg', 'Injective'), ('Eptid_stable.cfg', 'Stable')]


def text(tokens):
    return ''.join(tokens)


def replay(case):
    from saml2_tophat.eptid import Eptid, EptidShelve
    scn = case['scn']
    path = os.path.join(sb.tmpdir(), 'eptid-%d-%d' % (os.getpid(), replay.n))
    replay.n += 1

    def open_store():
        return EptidShelve('secret', path) if scn['backend'] == 'shelve' else Eptid('secret')
    store = open_store()
    out = []
    for i, g in enumerate(scn['ops'], 1):
        if scn['restartAfter'] == i - 1 and i > 1:
            store.close()
            store = open_store()
        out.append(store.get('urn:verif:idp1', text(g['sp']), text(g['user'])))
    store.close()
    for f in os.listdir(os.path.dirname(path)):
        if f.startswith(os.path.basename(path)):
            os.remove(os.path.join(os.path.dirname(path), f))
    return out


replay.n = 0


def main():
    t0 = _time.time()
    out = {'spec': 'Eptid.tla', 'runs': []}
    cases = None
    for cfg, expect in [('Eptid_code.cfg', None), ('Eptid_intended.cfg', None)] + REFUTED:
        r = tlc.run('Eptid.tla', cfg, timeout=600, coverage=False)
        out['runs'].append({'cfg': cfg, 'states': r.states, 'violated': r.violated, 'expected': expect})
        if r.violated != expect:
            raise fw.Machinery('%s: expected %s, TLC says %s' % (cfg, expect, r.violated))
        if cfg == 'Eptid_code.cfg':
            cases = sorted(r.cases, key=lambda c: json.dumps(c['scn'], sort_keys=True))
    bad = foreign = 0
    for case, got, err in fw.pmap(replay, cases, chunk=64):
        if err:
            raise fw.Machinery(err)
        ans = case['answers']
        n = len(ans)
        # the identifiers are opaque: compared are (a) which lookups get equal ones, (b) the provider named inside
        same_model = [[ans[i] == ans[j] for j in range(n)] for i in range(n)]
        same_code = [[got[i] == got[j] for j in range(n)] for i in range(n)]
        named = [g.split('!')[1] for g in got]
        named_model = [text(a['sp']) for a in ans]
        foreign += any(nm != text(op['sp']) for nm, op in zip(named, case['scn']['ops']))
        if same_model != same_code or named != named_model:
            bad += 1
            if bad <= 10:
                print('EPTID-DIVERGENCE %s: the store hands out %s, the model of the code says values made for %s with equalities %s'
                      % (json.dumps(case['scn'], sort_keys=True), got, named_model, same_model))
    out.update(cases=len(cases), divergences=bad, scenarios_with_foreign_identifier=foreign, wall_s=round(_time.time() - t0, 1))
    env.dump_json(os.path.join(env.WORK, 'growth-EPTID.json'), out)
    print('EPTID (growth, not a listed property): %d lookup scenarios replayed through Eptid / EptidShelve; %d divergences from the model of '
          'the code; in %d scenarios a provider is handed an identifier made for another provider; known not to hold (expected '
          'counterexamples)=%s; all three hold for the intended design (key = the pair)' % (len(cases), bad, foreign, [i for _, i in REFUTED]))
    sb.cleanup()
    return 1 if bad else 0


if __name__ == '__main__':
    fw.main_wrapper(main)
