"""C06 -- status and version: SPStatus.tla replayed into the real SP (and IdP for requests)."""
import json
import os
import sys

sys.path.insert(0, os.path.dirname(os.path.abspath(__file__)))
import env
import framework as fw
import samlbuild as sb
import sp_common as spc
import tlc


SOAP = ('<soapenv:Envelope xmlns:soapenv="http://schemas.xmlsoap.org/soap/envelope/"><soapenv:Body>%s</soapenv:Body>'
        '</soapenv:Envelope>')


MSG = {'absent': None, False: None, True: 'something went wrong', 'text': 'something went wrong', 'empty': '',
       'multiline': 'something\n   went\n wrong', 'nonascii': 'nĂĽt güt   不行'}


def build_response(scn):
    body = ''
    if scn['asrt'] == 'signed':
        a = spc.default_assertion()
        a['sig'] = sb.signature_template('a1', 'sha256')
        body = sb.assertion(a)
    r = spc.default_response()
    r['version'] = scn['version']
    r['sig'] = sb.signature_template('r1', 'sha256')
    if scn['pre'] == 'foreigndest':
        r['destination'] = 'https://evil.example/acs'
    r['status'] = sb.status_xml(scn['top'], None if scn['second'] == 'absent' else scn['second'],
                                MSG[scn['msg']])
    doc = sb.response(r, body)
    if scn['asrt'] == 'signed':
        doc = sb.sign(doc, sb.NS_SAML, 'Assertion', 'a1', 'kIdp1')
    doc = sb.sign(doc, sb.NS_SAMLP, 'Response', 'r1', 'kIdp1')
    if scn['pre'] == 'badsig':
        doc = doc.replace('ID="r1"', 'ID="r1" Consent="urn:edited"', 1)
    return doc


def replay(case):
    scn = case['scn']
    if scn['kind'] == 'response':
        sp = spc.sp_for(want_response_signed=False, want_assertions_signed=True, want_assertions_or_response_signed=False)
        doc = build_response(scn)
        if scn.get('via') == 'soap':
            obs = spc.observe(sp, None, env.BINDING_SOAP, {'id1': '/'}, encoded=SOAP % doc)
        else:
            obs = spc.observe(sp, doc, env.BINDING_POST, {'id1': '/'})
        obs['doc'] = doc
        return obs
    if scn['kind'] == 'logout_response':
        sp = spc.sp_for(want_response_signed=False, want_assertions_signed=True, want_assertions_or_response_signed=False,
                        metadata=[env.idp_metadata(slo=env.IDP1_SLO)])
        doc = ('<samlp:LogoutResponse xmlns:samlp="%s" xmlns:saml="%s" ID="lr1" Version="%s" IssueInstant="%s" InResponseTo="id1">'
               '<saml:Issuer>%s</saml:Issuer>%s</samlp:LogoutResponse>'
               % (sb.NS_SAMLP, sb.NS_SAML, scn['version'], env.ts(spc.now() - 5), env.IDP1,
                  sb.status_xml(scn['top'], None if scn['second'] == 'absent' else scn['second'], MSG[scn['msg']])))
        obs = {'doc': doc, 'exc': None, 'calls': [], 'verdict': 'reject'}
        try:
            if scn['via'] == 'soap':
                r = sp.parse_logout_request_response(SOAP % doc, env.BINDING_SOAP)
            else:
                r = sp.parse_logout_request_response(sb.deflate_b64(doc), env.BINDING_REDIRECT)
            if r is not None:
                obs['verdict'] = 'accept'
            else:
                obs['exc'] = 'None'
        except Exception as exc:
            obs['exc'] = type(exc).__name__
            obs['msg'] = str(exc)[:200]
        return obs
    if scn['kind'] == 'logout_request':
        idp = spc.idp_for()
        doc = ('<samlp:LogoutRequest xmlns:samlp="%s" xmlns:saml="%s" ID="lq1" Version="%s" IssueInstant="%s" Destination="%s">'
               '<saml:Issuer>%s</saml:Issuer><saml:NameID>subject-1</saml:NameID></samlp:LogoutRequest>'
               % (sb.NS_SAMLP, sb.NS_SAML, scn['version'], env.ts(spc.now() - 5), env.IDP1_SLO, env.SP))
        obs = {'doc': doc, 'exc': None, 'calls': []}
        try:
            if scn['via'] == 'soap':
                req = idp.parse_logout_request(SOAP % doc, env.BINDING_SOAP)
            else:
                req = idp.parse_logout_request(sb.deflate_b64(doc), env.BINDING_REDIRECT)
            obs['verdict'] = 'accept' if req is not None and getattr(req, 'message', None) is not None else 'reject'
            if req is None:
                obs['exc'] = 'None'
        except Exception as exc:
            obs['verdict'] = 'reject'
            obs['exc'] = type(exc).__name__
            obs['msg'] = str(exc)[:200]
        return obs
    idp = spc.idp_for()
    doc = sb.authn_request(issuer=env.SP, destination=env.IDP1_SSO, acs_url=env.SP_ACS_POST, binding=env.BINDING_POST,
                           version=scn['version'], issue_instant=env.ts(spc.now() - 5))
    obs = {'doc': doc, 'exc': None, 'calls': []}
    try:
        req = idp.parse_authn_request(sb.deflate_b64(doc), env.BINDING_REDIRECT)
        obs['verdict'] = 'accept' if req is not None and getattr(req, 'message', None) is not None else 'reject'
        if req is None:
            obs['exc'] = 'None'
    except Exception as exc:
        obs['verdict'] = 'reject'
        obs['exc'] = type(exc).__name__
        obs['msg'] = str(exc)[:200]
    return obs


def main():
    chk = fw.Check('C06', 'model_checking')
    thorough = chk.tier == 'thorough'
    res = tlc.run('SPStatus.tla', 'SPStatus.cfg', timeout=600)
    chk.add_tlc(res, 'SPStatus.cfg')
    if res.violated:
        raise fw.Machinery('SPStatus.tla: pipeline violates the contract: %s\n%s' % (res.violated, res.text[-2000:]))
    cases = sorted(res.cases, key=lambda c: json.dumps(c['scn'], sort_keys=True))
    if not thorough:
        cases = [c for c in cases if c['scn']['kind'] in ('request', 'logout_request') or c['classDecided'] and c['scn']['asrt'] == 'signed'
                 or chk.rng.random() < 0.25]
    nacc = 0
    for case, obs, err in fw.pmap(replay, cases, init=spc.init_worker, chunk=16):
        if err:
            raise fw.Machinery(err)
        scn = case['scn']
        chk.count(scn, nontrivial=case['mustAccept'] or case['mustReject'])
        accepted = obs['verdict'] == 'accept'
        nacc += accepted
        detail = {'case': case, 'observed': dict((k, v) for k, v in obs.items() if k not in ('doc', 'calls')), 'document': obs['doc']}
        if case['mustReject'] and obs['verdict'] != 'reject':
            chk.violation(scn, 'unsuccessful or non-2.0 message is not rejected (%s): %s' % (obs['verdict'], json.dumps(scn, sort_keys=True)), detail)
        elif case['mustReject'] and scn['kind'] == 'response' and scn['top'] != 'Success' and obs.get('exc') in (None, 'None'):
            chk.violation(scn, 'unsuccessful response does not give the caller an error: %s' % json.dumps(scn, sort_keys=True), detail)
        elif case['mustAccept'] and not accepted:
            chk.violation(scn, 'successful SAML 2.0 message rejected (%s %s): %s' % (obs.get('exc'), obs.get('msg', ''), json.dumps(scn, sort_keys=True)), detail)
        elif case['classDecided']:
            e = obs.get('exc')
            ok = (e == case['expectedClass']) if case['expectedClass'] != 'generic' else (e not in case['specific'] and e not in (None, 'None'))
            if not ok:
                chk.violation(scn, 'status %s/%s reaches the caller as %s, documented class is %s'
                              % (scn['top'], scn['second'], e, case['expectedClass']), detail)
        if obs.get('exc') != case['model']['exc'] and not (case['model']['exc'] == 'none' and obs.get('exc') is None):
            if not chk.violations:
                chk.note('drift: %s for %s, pipeline model says %s' % (obs.get('exc'), json.dumps(scn, sort_keys=True), case['model']['exc']))
        chk.sample({'scn': scn, 'expected': case['expectedClass'] if case['classDecided'] else ('accept' if case['mustAccept'] else 'reject'),
                    'observed': obs['verdict'], 'exc': obs.get('exc')}, limit=5)
    if nacc == 0 and not chk.violations:
        raise fw.Machinery('no scenario was accepted: templates broken')
    chk.cov['exhaustive'] = thorough
    chk.cov['rule'] = ('scenarios of SPStatus.tla: top-level status x (absent, 21 documented second-level codes, unknown) x message x '
                      'assertion x version x preceding checks, plus request versions; thorough replays all, quick all class-decided '
                      'ones with a signed assertion plus a seeded quarter of the rest')
    chk.assumptions = list(fw.TOOL_ASSUMPTIONS)
    sb.cleanup()
    return chk.finish()


def do_replay(path):
    spc.init_worker()
    j = json.load(open(path))
    obs = replay(j['detail']['case'])
    print(json.dumps(dict((k, v) for k, v in obs.items() if k != 'doc'), indent=1))
    return 0


if __name__ == '__main__':
    if len(sys.argv) > 2 and sys.argv[1] == '--replay':
        fw.main_wrapper(lambda: do_replay(sys.argv[2]))
    fw.main_wrapper(main)
