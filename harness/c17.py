"""C17 -- encrypted assertions: confidentiality of what the IdP emits, decryptable by the right key
only, decrypted assertions checked like plain ones (EncAssertion.tla)."""
import base64
import json
import os
import sys

sys.path.insert(0, os.path.dirname(os.path.abspath(__file__)))
import env
import framework as fw
import samlbuild as sb
import sp_common as spc
import tlc
import xmlsec_model

MARKERS = ['secret-given-é', 'secret-sn', 'secret-subject', 'urn:oid:2.5.4.42', 'urn:oid:2.5.4.4"', 'givenName']
ENC_KEYS = {'matchFirst': ('kSpEnc1', 'kSpEnc2'), 'matchSecond': ('kSpEnc2', 'kSpEnc1'), 'none': ('kSpEnc2',), 'perRequest': ('kSpEnc2',)}


def encodings(marker):
    raw = marker.encode('utf-8')
    out = [raw]
    for shift in range(3):
        b = base64.b64encode(b'x' * shift + raw)
        out.append(b[4:-4] if len(b) > 12 else b)
    return out


def opens_with(doc):
    """which keys of the pool decrypt the document (stand-in used directly)"""
    d = sb.tmpdir()
    src = os.path.join(d, 'c.xml')
    with open(src, 'w') as f:
        f.write(doc)
    ok = []
    for k in env.KEYNAMES:
        out = os.path.join(d, 'p.xml')
        if os.path.exists(out):
            os.unlink(out)
        rc, _, _ = xmlsec_model.run(['--decrypt', '--privkey-pem', env.keyfile(k), '--id-attr:ID', 'EncryptedKey', '--output', out, src])
        if rc == 0 and os.path.exists(out) and os.path.getsize(out) > 0:
            ok.append(k)
    return ok


def build_attacker(scn):
    inner = scn['inner']
    now = spc.now()
    a = spc.default_assertion(subject='user-inner')
    if inner == 'expired':
        a['cond']['nooa'] = env.ts(now - 3600)
        a['cond']['nb'] = env.ts(now - 7200)
    elif inner == 'notyet':
        a['cond']['nb'] = env.ts(now + 3600)
        a['cond']['nooa'] = env.ts(now + 7200)
    elif inner == 'expired_offset':
        a['authn'] = dict(a['authn'], session_nooa=env.ts(now - 86400 * 400, 'noZ') + '+00:00')
    elif inner == 'audience':
        a['cond']['audiences'] = [[env.SP2]]
    elif inner == 'solicit':
        a['conf'][0]['irt'] = 'id2'
    elif inner == 'recipient':
        a['conf'][0]['recipient'] = 'https://evil.example/acs'
    if inner != 'unsigned':
        a['sig'] = sb.signature_template('a1', 'sha256')
    plain = ''
    if scn.get('companion'):
        c = spc.default_assertion(aid='a0', subject='user-companion')
        c['sig'] = sb.signature_template('a0', 'sha256')
        plain = sb.assertion(c)
    doc = sb.response(spc.default_response(), plain + '<saml:EncryptedAssertion>%s</saml:EncryptedAssertion>' % sb.assertion(a))
    if scn.get('companion'):
        doc = sb.sign(doc, sb.NS_SAML, 'Assertion', 'a0', 'kIdp1')
    if inner != 'unsigned':
        doc = sb.sign(doc, sb.NS_SAML, 'Assertion', 'a1', 'kIdp1')
    if inner == 'badsig':
        doc = sb.tamper_sigvalue(doc, 1 if scn.get('companion') else 0)
    elif inner == 'forged_after_signing':
        doc = sb.tamper_text(doc, 'user-inner', 'user-forged')
    return sb.encrypt_element(doc, sb.xp('Response', 'EncryptedAssertion', 'Assertion'), 'kSpEnc1')


def replay(case):
    scn = case['scn']
    out = {'built': True, 'leaks': [], 'opens': None}
    if scn['producer'] == 'idp':
        from saml2_tophat.saml import NameID, NAMEID_FORMAT_TRANSIENT
        if scn.get('spKey') == 'unlabelled':
            idp = spc.idp_for(metadata=[env.sp_metadata(keys=(('kSpEnc1', None),))])
        elif scn.get('spKey') in ('methods', 'extra_keyname'):
            md = env.sp_metadata()
            cut = md.index('</md:KeyDescriptor>', md.index('use="encryption"'))
            if scn['spKey'] == 'methods':
                ins = ('<md:EncryptionMethod Algorithm="http://www.w3.org/2009/xmlenc11#aes256-gcm"/>'
                       '<md:EncryptionMethod Algorithm="http://www.w3.org/2001/04/xmlenc#rsa-oaep-mgf1p"/>')
                md = md[:cut] + ins + md[cut:]
            else:
                end = cut + len('</md:KeyDescriptor>')
                md = md[:end] + '<md:KeyDescriptor use="encryption"><ds:KeyInfo><ds:KeyName>backup-key</ds:KeyName></ds:KeyInfo></md:KeyDescriptor>' + md[end:]
            idp = spc.idp_for(metadata=[md])
        else:
            idp = spc.idp_for()
        if scn.get('priorVerify') and scn.get('spKey') != 'unlabelled':
            import c10
            req = c10.request_xml('authn', 'req-prior', c10.IDP_SSO['post'], env.ts(spc.now() - 5), sb.signature_template('req-prior', 'sha256'))
            req = sb.sign(req, sb.NS_SAMLP, 'AuthnRequest', 'req-prior', 'kSp')
            try:
                idp.parse_authn_request(sb.b64(req), env.BINDING_POST)
            except Exception:
                pass
        opts = dict(sign_response=scn['signResp'], sign_assertion=scn['signAssert'], encrypt_assertion=scn.get('encMain', True),
                    encrypted_advice_attributes=scn['advice'], encrypt_assertion_self_contained=scn['selfContained'])
        if scn['keys'] == 'perRequest':
            opts['encrypt_cert_assertion'] = env.cert_b64('kA')
        if scn.get('via') == 'config':
            idp = spc.idp_for(**opts)          # the options stand in the configuration, the call names none of them
            opts = {}
        try:
            res = idp.create_authn_response(
                {'givenName': ['secret-given-é'], 'surName': ['secret-sn']}, 'id1', env.SP_ACS_POST, env.SP,
                name_id=NameID(format=NAMEID_FORMAT_TRANSIENT, text='secret-subject'),
                pefim=scn['pefim'], authn={'class_ref': sb.PASSWORD, 'authn_auth': 'x'}, **opts)
            doc = str(res)
        except Exception as exc:
            out['built'] = False
            out['build_exc'] = '%s: %s' % (type(exc).__name__, str(exc)[:120])
            return out
        raw = doc.encode('utf-8')
        for m in MARKERS:
            for e in encodings(m):
                if e in raw:
                    out['leaks'].append(m)
                    break
        out['opens'] = opens_with(doc)
    else:
        doc = build_attacker(scn)
    sp = spc.sp_for(enc_keys=ENC_KEYS[scn['keys']], want_response_signed=False, want_assertions_signed=scn['wantAssert'],
                    want_assertions_or_response_signed=False)
    per_request = None
    if scn['keys'] == 'perRequest':
        per_request = {'id1': [{'key': open(env.keyfile('kA')).read()}, {'key': open(env.keyfile('kB')).read()}]}
    obs = spc.observe(sp, doc, env.BINDING_POST, {'id1': '/', 'id2': '/2'}, outstanding_certs=per_request)
    out.update(verdict=obs['verdict'], exc=obs.get('exc'), msg=obs.get('msg'), name_id=obs.get('name_id'), doc=doc,
               calls=obs['calls'])
    return out


def main():
    chk = fw.Check('C17', 'model_checking')
    res = tlc.run('EncAssertion.tla', 'EncAssertion.cfg', timeout=600)
    chk.add_tlc(res, 'EncAssertion.cfg')
    if res.violated:
        raise fw.Machinery('EncAssertion.tla: pipeline violates the contract: %s' % res.violated)
    cases = sorted(res.cases, key=lambda c: json.dumps(c['scn'], sort_keys=True))
    nacc = built = 0
    for case, out, err in fw.pmap(replay, cases, init=spc.init_worker, chunk=4):
        if err:
            raise fw.Machinery(err)
        scn = case['scn']
        chk.count(scn, nontrivial=True)
        detail = {'case': case, 'observed': dict((k, v) for k, v in out.items() if k != 'doc'), 'document': out.get('doc')}
        if not out['built']:
            chk.note('IdP does not build %s: %s' % (json.dumps(scn, sort_keys=True), ' '.join((out.get('build_exc') or '').split())))
            continue
        built += 1
        if case['confidential']:
            if case.get('clearBySubject'):
                out['leaks'] = [m for m in out['leaks'] if m != 'secret-subject']       # the main assertion is plain by request
            if out['leaks']:
                chk.violation(dict(scn, kind='leak'), 'emitted response shows %s of the encrypted assertion in clear' % out['leaks'], detail)
            if out['opens'] != (['kA'] if scn['keys'] == 'perRequest' else ['kSpEnc1']):
                chk.violation(dict(scn, kind='keys'), 'emitted response decrypts with %s (expected the SP encryption key only)' % out['opens'], detail)
        accepted = out['verdict'] == 'accept'
        nacc += accepted
        if case['mustNoIdentity'] and accepted:
            chk.violation(scn, 'identity accepted from an encrypted assertion that must not yield one (%s, keys %s)' % (scn['inner'], scn['keys']), detail)
        elif case['mustAccept'] and not accepted:
            chk.violation(scn, 'well-formed encrypted assertion rejected (%s %s): %s' % (out.get('exc'), out.get('msg'), json.dumps(scn, sort_keys=True)), detail)
        elif accepted != (case['model'] == 'accept') and not case.get('clearBySubject'):
            chk.note('drift: SP says %s, pipeline model says %s for %s' % (out['verdict'], case['model'], json.dumps(scn, sort_keys=True)))
        chk.sample({'scn': scn, 'observed': out['verdict'], 'opens': out['opens'], 'leaks': out['leaks']}, limit=5)
    if (nacc == 0 or built == 0) and not chk.violations:
        raise fw.Machinery('nothing accepted/built: templates broken')

    # the relational clause on the C05 scenario space: an encrypted assertion is rejected whenever the plain one must be
    import c05
    rel = tlc.run('SPAddress.tla', 'SPAddress_fixed.cfg', timeout=1200, coverage=False)
    chk.add_tlc(rel, 'SPAddress_fixed.cfg (encrypted slice)')
    pairs = [c for c in rel.cases if c['scn']['enc'] and c['scn']['binding'] == 'post' and (c['mustReject'] or c['mustAccept'])]
    chk.rng.shuffle(pairs)
    pairs = pairs[:4000 if chk.tier == 'thorough' else 600]
    for case, obs, err in fw.pmap(c05.replay, pairs, init=spc.init_worker, chunk=16):
        if err:
            raise fw.Machinery(err)
        scn = dict(case['scn'], kind='addressing')
        chk.count(scn)
        if case['mustReject'] and obs['verdict'] == 'accept':
            chk.violation(scn, 'encrypted assertion escapes an addressing/solicitation check the plain one gets: %s' % json.dumps(case['scn'], sort_keys=True),
                          {'case': case, 'document': obs['doc']})
        elif case['mustAccept'] and obs['verdict'] != 'accept':
            chk.violation(scn, 'conformant encrypted assertion rejected: %s' % json.dumps(case['scn'], sort_keys=True), {'case': case, 'document': obs['doc']})
    chk.cov['exhaustive'] = True
    chk.cov['rule'] = ('all scenarios of EncAssertion.tla: IdP-built responses over sign_response x sign_assertion x advice x '
                      'self-contained x pefim x which SP key matches, and attacker-built ones over nine inner mutations x keys x '
                      'want_assertions_signed; marker search (raw and base64 at three alignments) and decryption with every key of '
                      'the pool; plus the encrypted slice of the C05 scenario space')
    chk.assumptions = list(fw.TOOL_ASSUMPTIONS)
    # several requests at once on one Server: IdPConcurrent.tla
    import idp_concurrent
    idp_concurrent.run(chk)
    sb.cleanup()
    return chk.finish()


def do_replay(path):
    spc.init_worker()
    j = json.load(open(path))
    out = replay(j['detail']['case'])
    print(json.dumps(dict((k, v) for k, v in out.items() if k != 'doc'), indent=1))
    return 0


if __name__ == '__main__':
    if len(sys.argv) > 2 and sys.argv[1] == '--replay':
        fw.main_wrapper(lambda: do_replay(sys.argv[2]))
    fw.main_wrapper(main)
