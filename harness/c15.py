"""C15 -- redirect-binding signatures: RedirectSig.tla / RedirectQuery.tla bound to
sigver.RSACrypto.get_signer, pack.http_redirect_message, Entity.apply_binding and
sigver.verify_redirect_signature with real RSA keys, sequentially and across threads."""
import base64
import json
import os
import random
import shutil
import sys
import threading

sys.path.insert(0, os.path.dirname(os.path.abspath(__file__)))
import env
import framework as fw
import tlc

ALG = {
    'sha1': 'http://www.w3.org/2000/09/xmldsig#rsa-sha1',
    'sha224': 'http://www.w3.org/2001/04/xmldsig-more#rsa-sha224',
    'sha256': 'http://www.w3.org/2001/04/xmldsig-more#rsa-sha256',
    'sha384': 'http://www.w3.org/2001/04/xmldsig-more#rsa-sha384',
    'sha512': 'http://www.w3.org/2001/04/xmldsig-more#rsa-sha512',
}
ENTS = ['kA', 'kB', 'kC']
KEYS = ENTS + [e + '2' for e in ENTS]          # second generation after a key roll-over (Rekey in RedirectSig.tla)
DEST = 'https://idp1.verif.example/sso'

_STATE = {}


def _init():
    from saml2_tophat.sigver import RSACrypto, import_rsa_key_from_file
    env.ensure_keys()
    _STATE['keys'] = dict((e, import_rsa_key_from_file(env.keyfile(e))) for e in ENTS)
    _STATE['entities'] = {}
    from cryptography import x509
    _STATE['pub'] = dict((e, x509.load_pem_x509_certificate(open(env.certfile(e), 'rb').read()).public_key())
                         for e in KEYS)
    env.install_fake_popen()


def actual_key(url):
    """independent oracle: which certificate of the pool verifies this URL's signature over
    the octet string as transmitted (SAML bindings 3.4.4.1)"""
    from cryptography.hazmat.primitives import hashes
    from cryptography.hazmat.primitives.asymmetric import padding
    from urllib.parse import unquote
    query = url.split('?', 1)[1]
    raw = dict(p.split('=', 1) for p in query.split('&'))
    order = ['SAMLRequest', 'SAMLResponse', 'RelayState', 'SigAlg']
    signed = '&'.join('%s=%s' % (k, raw[k]) for k in order if k in raw).encode('ascii')
    sig = base64.b64decode(unquote(raw['Signature']))
    alg = unquote(raw['SigAlg'])
    h = {'sha1': hashes.SHA1, 'sha224': hashes.SHA224, 'sha256': hashes.SHA256, 'sha384': hashes.SHA384,
         'sha512': hashes.SHA512}[[k for k, v in ALG.items() if v == alg][0]]()
    found = []
    for e in KEYS:
        try:
            _STATE['pub'][e].verify(sig, signed, padding.PKCS1v15(), h)
            found.append(e)
        except Exception:
            pass
    return found[0] if len(found) == 1 else ('none' if not found else '+'.join(found))


def query_dict(url):
    from urllib.parse import parse_qs
    return dict((k, v[0]) for k, v in parse_qs(url.split('?', 1)[1]).items())


class World(object):
    """the objects of one behaviour: every entity is built by the library from a configuration that names its key
    files; a key roll-over replaces the content of those files and builds the entity anew"""

    def __init__(self):
        # one directory of key files per worker process; entities of the first key generation are built once per
        # worker (parsing a private key costs 40 ms) and live on across behaviours, an entity whose key was rolled
        # over is built anew from the same configuration and dropped with the world
        if 'dir' not in _STATE:
            _STATE['dir'] = os.path.join(env.WORK, 'C15', 'w-%d' % os.getpid())
            os.makedirs(_STATE['dir'], exist_ok=True)
            _STATE['pool'] = {}
            for e in ENTS:
                self.install(e, e)
        self.dir = _STATE['dir']
        self.rolled = {}
        self.signer = {}
        self.wire = []
        self.n = 0

    @staticmethod
    def install(e, keyname):
        for ext, src in (('.key', env.keyfile(keyname)), ('.crt', env.certfile(keyname))):
            shutil.copyfile(src, os.path.join(_STATE['dir'], e + ext))

    def build(self, e):
        conf = env.sp_config(key=e)
        conf['key_file'] = os.path.join(self.dir, e + '.key')
        conf['cert_file'] = os.path.join(self.dir, e + '.crt')
        return env.make_sp(conf)

    def entity(self, e):
        if e in self.rolled:
            if self.rolled[e] is None:
                self.rolled[e] = self.build(e)
            return self.rolled[e]
        if e not in _STATE['pool']:
            _STATE['pool'][e] = self.build(e)
        return _STATE['pool'][e]

    def crypto(self, e):
        return self.entity(e).sec.sec_backend

    def close(self):
        for e in self.rolled:
            self.install(e, e)          # back to the first generation for the next behaviour

    def do(self, op):
        from saml2_tophat.pack import http_redirect_message
        from saml2_tophat.sigver import verify_redirect_signature
        name = op['op']
        if name == 'Obtain':
            self.signer[op['e']] = (self.crypto(op['e']).get_signer(ALG[op['alg']]), op['alg'])
            return {}
        if name == 'Rekey':
            self.install(op['e'], op['e'] + '2')
            self.rolled[op['e']] = None
            self.signer.pop(op['e'], None)
            return {}
        if name == 'Sign':
            signer, alg = self.signer[op['e']]
            self.n += 1
            info = http_redirect_message('<m n="%d" by="%s"/>' % (self.n, op['e']), DEST, relay_state='rs-%d' % self.n,
                                         typ='SAMLRequest', sigalg=ALG[alg], signer=signer)
            url = dict(info['headers'])['Location']
            self.wire.append(url)
            return {'key': actual_key(url), 'alg': alg}
        if name == 'SignNow':
            self.n += 1
            info = self.entity(op['e']).apply_binding(env.BINDING_REDIRECT, '<m n="%d" by="%s"/>' % (self.n, op['e']), DEST,
                                                      relay_state='rs-%d' % self.n, sign=True, sigalg=ALG[op['alg']])
            url = dict(info['headers'])['Location']
            self.wire.append(url)
            return {'key': actual_key(url), 'alg': op['alg']}
        if name == 'Verify':
            try:
                ok = bool(verify_redirect_signature(query_dict(self.wire[op['idx'] - 1]), self.crypto(op['e']),
                                                    cert=env.cert_b64(op['cert'])))
            except Exception:
                ok = False
            return {'ok': ok}
        raise fw.Machinery('unknown op %r' % (op,))


class Threads(object):
    """one thread per entity; the scheduler hands the turn to the thread of the entity whose
    step is next in the behaviour chosen by TLC"""

    def __init__(self, world):
        self.world = world
        self.cv = threading.Condition()
        self.job = {}
        self.result = {}
        self.stop = False
        self.threads = {}
        for e in ENTS:
            t = threading.Thread(target=self._run, args=(e,))
            t.daemon = True
            self.threads[e] = t
            t.start()

    def _run(self, e):
        while True:
            with self.cv:
                while e not in self.job and not self.stop:
                    self.cv.wait()
                if self.stop:
                    return
                op = self.job.pop(e)
            try:
                res = self.world.do(op)
            except Exception as exc:
                res = {'exception': repr(exc)}
            with self.cv:
                self.result[e] = res
                self.cv.notify_all()

    def do(self, op):
        e = op['e']
        with self.cv:
            self.job[e] = op
            self.cv.notify_all()
            while e not in self.result:
                self.cv.wait()
            return self.result.pop(e)

    def close(self):
        with self.cv:
            self.stop = True
            self.cv.notify_all()


def replay_behaviour(case):
    problems = []
    for mode in ('sequential', 'threads'):
        world = World()
        runner = Threads(world) if mode == 'threads' else world
        try:
            for k, op in enumerate(case['hist']):
                if op['op'] == 'End':
                    break
                got = runner.do(op)
                if 'exception' in got:
                    raise fw.Machinery('step raised: %s' % got['exception'])
                if op['op'] in ('Sign', 'SignNow') and got['key'] != op['key']:
                    problems.append({'mode': mode, 'step': k, 'op': op, 'observed': got,
                                     'what': 'URL requested by %s is signed with the key of %s' % (op['e'], got['key'])})
                    break
                if op['op'] == 'Verify' and got['ok'] != op['ok']:
                    problems.append({'mode': mode, 'step': k, 'op': op, 'observed': got,
                                     'what': 'verification under the certificate of %s gives %s' % (op['cert'], got['ok'])})
                    break
        finally:
            if mode == 'threads':
                runner.close()
            world.close()
    return problems


def record_trace(args):
    seed, length = args
    rng = random.Random(seed)
    world = World()
    runner = Threads(world)
    events = []
    rolled = set()
    try:
        for _ in range(length):
            e = rng.choice(ENTS)
            x = rng.random()
            if x < 0.04 and e not in rolled:
                op = {'op': 'Rekey', 'e': e}
                rolled.add(e)
            elif x < 0.35:
                op = {'op': 'Obtain', 'e': e, 'alg': rng.choice(sorted(ALG))}
            elif x < 0.55 and e in world.signer:
                op = {'op': 'Sign', 'e': e}
            elif x < 0.7:
                op = {'op': 'SignNow', 'e': e, 'alg': rng.choice(sorted(ALG))}
            elif world.wire:
                op = {'op': 'Verify', 'e': e, 'idx': rng.randint(1, len(world.wire)), 'cert': rng.choice(KEYS)}
            else:
                continue
            got = runner.do(op)
            if 'exception' in got:
                raise fw.Machinery(got['exception'])
            op.update(got)
            events.append(op)
    finally:
        runner.close()
        world.close()
    return events


# ------------------------------------------------------------------ query mutations
RELAY = {'none': '', 'amp': 'relay &Signature=x', 'space': 'two words', 'tilde': 'a~b', 'unreserved': 'a-b._c',
         'unicode': u'r\u00e9 \u4e2d', 'pctliteral': '50%25 off %2Bx %7E 100% %zz'}


def query_case(case):
    from saml2_tophat.pack import http_redirect_message
    from saml2_tophat.sigver import RSACrypto, verify_redirect_signature
    from saml2_tophat.s_utils import deflate_and_base64_encode
    scn = case['scn']
    signer_crypto = RSACrypto(_STATE['keys']['kA'])
    verifier = signer_crypto if scn.get('backend') == 'signer' else RSACrypto(_STATE['keys']['kB'])
    relay = RELAY[scn['relay']]

    def signed(msg):
        info = http_redirect_message(msg, DEST, relay_state=relay, typ=scn['typ'], sigalg=ALG[scn['alg']],
                                     signer=signer_crypto.get_signer(ALG[scn['alg']]))
        return dict(info['headers'])['Location']

    url = signed('<message id="1">content</message>')
    wire = actual_key(url)
    q = query_dict(url)
    other_typ = 'SAMLResponse' if scn['typ'] == 'SAMLRequest' else 'SAMLRequest'
    mut = scn['mut']
    if mut == 'msg_changed':
        q[scn['typ']] = deflate_and_base64_encode('<message id="1">Content</message>').decode('ascii')
    elif mut == 'msg_removed':
        del q[scn['typ']]
    elif mut in ('relay_changed', 'relay_added'):
        if scn['relay'] != 'none' or mut == 'relay_added':
            q['RelayState'] = 'relay &Signature=y'
    elif mut == 'relay_removed':
        q.pop('RelayState', None)
    elif mut == 'sigalg_changed':
        q['SigAlg'] = ALG['sha256' if scn['alg'] != 'sha256' else 'sha1']
    elif mut == 'sigalg_removed':
        del q['SigAlg']
    elif mut == 'sigalg_unsupported':
        q['SigAlg'] = 'http://www.w3.org/2001/04/xmldsig-more#rsa-md5'
    elif mut == 'nosigalg_signed':
        # signed by the requester's key over the parameters without SigAlg, sent without SigAlg
        from cryptography.hazmat.primitives import hashes
        from cryptography.hazmat.primitives.asymmetric import padding
        from urllib.parse import urlencode
        del q['SigAlg']
        order = [k for k in (scn['typ'], 'RelayState') if k in q]
        signed_string = '&'.join(urlencode({k: q[k]}) for k in order).encode('ascii')
        q['Signature'] = base64.b64encode(_STATE['keys']['kA'].sign(signed_string, padding.PKCS1v15(), hashes.SHA1())).decode('ascii')
    elif mut == 'sig_changed':
        raw = bytearray(base64.b64decode(q['Signature']))
        raw[5] ^= 1
        q['Signature'] = base64.b64encode(bytes(raw)).decode('ascii')
    elif mut == 'sig_removed':
        del q['Signature']
    elif mut == 'sig_other_message':
        q['Signature'] = query_dict(signed('<message id="2">other</message>'))['Signature']
    elif mut == 'typ_swapped':
        q[other_typ] = q.pop(scn['typ'])
    elif mut == 'reordered':
        q = dict(reversed(list(q.items())))
    elif mut == 'extra_param':
        q['foo'] = 'bar'
    cert = env.cert_b64({'own': 'kA', 'other': 'kB', 'other_expired': 'kBexp'}[scn['cert']])
    if scn.get('prior') == 'otherCertFirst':
        try:
            verify_redirect_signature(q, verifier, cert=env.cert_b64('kC'))      # same dictionary, another certificate first
        except Exception:
            pass
    try:
        res = verify_redirect_signature(q, verifier, cert=cert)
        obs = 'true' if res else ('none' if res is None else 'false')
    except Exception as exc:
        obs = 'exception'
    return {'observed': obs, 'wire': wire}


def main():
    chk = fw.Check('C15', 'model_checking')
    thorough = chk.tier == 'thorough'
    env.ensure_keys()

    # design level: the repaired design satisfies the contract for every interleaving, and the
    # specification does distinguish the shared-object design (vacuity control)
    res = tlc.run('RedirectSig.tla', 'RedirectSig_fixed.cfg', timeout=1800)
    chk.add_tlc(res, 'RedirectSig_fixed.cfg')
    if res.violated:
        raise fw.Machinery('RedirectSig.tla (Shared = FALSE) violates %s' % res.violated)
    res = tlc.run('RedirectSig.tla', 'RedirectSig_shared.cfg', timeout=600, coverage=False)
    chk.add_tlc(res, 'RedirectSig_shared.cfg (expected counterexample)')
    if res.violated != 'KeyOwnership':
        raise fw.Machinery('vacuity control failed: the shared-signer design should violate KeyOwnership')
    res = tlc.run('RedirectSig.tla', 'RedirectSig_keycache.cfg', timeout=600, coverage=False)
    chk.add_tlc(res, 'RedirectSig_keycache.cfg (parsed keys remembered by file name: expected counterexample)')
    if res.violated != 'KeyOwnership':
        raise fw.Machinery('vacuity control failed: the key-cache design should violate KeyOwnership')

    # behaviours: exhaustive short ones + simulated longer ones with 3 entities and 5 algorithms
    res = tlc.run('RedirectSigMC.tla', 'RedirectSig_beh.cfg', timeout=1800)
    chk.add_tlc(res, 'RedirectSig_beh.cfg')
    behs = [h for h in res.cases if any(o['op'] in ('Sign', 'SignNow') for o in h)]
    rekeyed = [h for h in behs if any(o['op'] == 'Rekey' for o in h)]
    if not thorough:
        chk.rng.shuffle(behs)
        chk.rng.shuffle(rekeyed)
        behs = behs[:2000] + rekeyed[:800]
    num = 200 if thorough else 30
    res = tlc.run('RedirectSigMC.tla', 'RedirectSig_sim.cfg', simulate='num=%d' % num, depth=20, seed=chk.seed + 1,
                  timeout=1800)
    chk.add_tlc(res, 'RedirectSig_sim.cfg (simulate)')
    behs += res.cases[:num * 16]
    chk.sample({'kind': 'behaviour', 'steps': behs[0]})
    for case, problems, err in fw.pmap(replay_behaviour, [{'hist': h} for h in behs], init=_init, chunk=16):
        if err:
            raise fw.Machinery(err)
        chk.count({'hist': case['hist']})
        for p in problems:
            prefix = [(o['op'], o.get('e')) for o in case['hist'][:p['step'] + 1]]
            chk.violation({'kind': 'behaviour', 'op': p['op']['op'], 'mode': p['mode'],
                           'pattern': 'key-of-other-entity' if p['op']['op'] != 'Verify' else 'verify'},
                          '%s (%s): after %s' % (p['what'], p['mode'], prefix), {'case': case, 'problem': p})

    # single-parameter mutations of a signed query
    res = tlc.run('RedirectQuery.tla', 'RedirectQuery.cfg', timeout=600)
    chk.add_tlc(res, 'RedirectQuery.cfg')
    if res.violated:
        raise fw.Machinery('RedirectQuery.tla violates its contract: %s' % res.violated)
    pinned = tlc.run('RedirectQuery.tla', 'RedirectQuery_pinned.cfg', timeout=600, coverage=False)
    chk.add_tlc(pinned, 'RedirectQuery_pinned.cfg (verifier re-encodes with another encoder: expected counterexample)')
    if pinned.violated != 'Contract':
        raise fw.Machinery('vacuity control failed: the two-encoder design should violate the contract')
    chk.sample({'kind': 'query case', 'case': res.cases[7]})
    for case, r, err in fw.pmap(query_case, res.cases, init=_init, chunk=16):
        if err:
            raise fw.Machinery(err)
        chk.count(case['scn'], nontrivial=case['mustVerify'] or case['mustNotVerify'])
        if case['wireKeyOwn'] and r['wire'] != 'kA':
            # independent verifier over the octets as transmitted (saml-bindings 3.4.4.1)
            chk.violation(dict(case['scn'], kind='wire', mut='', cert=''), 'the signature in the emitted redirect URL does not verify over the transmitted query '
                          'under the signer\'s certificate (verifies under: %s; RelayState class %s)' % (r['wire'], case['scn']['relay']),
                          {'case': case, 'observed': r})
        elif case['mustVerify'] and r['observed'] != 'true':
            chk.violation(dict(case['scn'], kind='query'), 'correctly signed redirect query does not verify under the signer\'s certificate (%s)' % r['observed'],
                          {'case': case, 'observed': r})
        elif case['mustNotVerify'] and r['observed'] == 'true':
            chk.violation(dict(case['scn'], kind='query'), 'redirect query verifies although %s / certificate %s' % (case['scn']['mut'], case['scn']['cert']),
                          {'case': case, 'observed': r})
        elif r['observed'] != case['model'] and not (case['model'] == 'none' and r['observed'] == 'false'):
            chk.note('drift: verify_redirect_signature gives %s where the pipeline model says %s for %s'
                     % (r['observed'], case['model'], json.dumps(case['scn'])))

    # code -> spec: random threaded executions validated by TLC
    ntr, length = (600, 60) if thorough else (80, 40)
    traces = []
    for case, events, err in fw.pmap(record_trace, [(chk.seed * 100000 + k, length) for k in range(ntr)], init=_init, chunk=4):
        if err:
            raise fw.Machinery(err)
        traces.append((case, events))
    traces.sort(key=lambda x: x[0][0])
    os.makedirs(os.path.join(env.WORK, 'C15'), exist_ok=True)
    tfile = os.path.join(env.WORK, 'C15', 'traces.json')
    with open(tfile, 'w') as f:
        json.dump([t[1] for t in traces], f)
    res = tlc.run('RedirectSigTrace.tla', 'RedirectSigTrace.cfg', workers=1, env={'TRACE_FILE': tfile}, timeout=1800,
                  coverage=False)
    chk.add_tlc(res, 'RedirectSigTrace.cfg')
    os.unlink(tfile)
    rejected = {}
    for tag, payload in res.prints:
        if tag == 'REJECTED':
            j = json.loads(payload)
            rejected[j['trace']] = j
    for case, events in traces:
        chk.count({'trace': events})
    if res.violated and not rejected and res.violated != 'postcondition':
        chk.violation({'kind': 'trace-invariant', 'invariant': res.violated}, 'recorded execution violates %s' % res.violated,
                      {'tlc': res.text[-3000:]})
    for t, j in sorted(rejected.items()):
        case, events = traces[t - 1]
        nxt = j['next']
        chk.violation({'kind': 'trace', 'op': nxt.get('op'),
                       'pattern': 'key-of-other-entity' if nxt.get('op') != 'Verify' else 'verify'},
                      'recorded threaded execution is not a behaviour of the specification: event %d %s'
                      % (j['matched'] + 1, json.dumps(nxt)), {'seed': case[0], 'events': events})

    if thorough:
        # unbounded number of steps: KeyOwnership as an inductive invariant of the repaired design (Apalache)
        import subprocess
        out = os.path.join(env.WORK, 'C15', 'apalache')
        ok = []
        for args in (['--init=Init', '--length=0'], ['--init=IndInit', '--length=1']):
            try:
                p = subprocess.run(['apalache-mc', 'check'] + args + ['--inv=IndInv', '--out-dir=' + out, 'MC_RedirectSig.tla'],
                                   cwd=os.path.join(env.VERIF, 'spec', 'apalache'), stdout=subprocess.PIPE, stderr=subprocess.STDOUT, timeout=300)
                ok.append('EXITCODE: OK' in p.stdout.decode('utf-8', 'replace'))
            except Exception as exc:
                ok.append(None)
        shutil.rmtree(out, ignore_errors=True)
        chk.cov['apalache_inductive'] = {'module': 'spec/apalache/MC_RedirectSig.tla', 'init_implies_inv': ok[0], 'inv_inductive': ok[1]}
        if False in ok:
            raise fw.Machinery('Apalache refutes the inductive invariant of the repaired design')
    import glob
    for d in glob.glob(os.path.join(env.WORK, 'C15', 'w-*')):
        shutil.rmtree(d, ignore_errors=True)
    chk.cov['rule'] = ('every behaviour of the bounded exhaustive run that signs something (sampled in the quick tier), simulated '
                      'longer behaviours (3 entities, 5 algorithms), each replayed sequentially and with one thread per entity; '
                      'all 3 000 query-mutation scenarios (incl. the expired certificate of another entity, and the crypto object of the signer running the check); behaviours include key roll-over in place (entities built by the library from key files); random threaded executions validated by TLC')
    chk.assumptions = ['the key that really signed a URL is determined by verifying the transmitted octet string with every '
                       'certificate of the pool using `cryptography` directly (independent of the code under test)',
                       'steps are interleaved at the granularity of the API calls (obtain / sign / verify)']
    return chk.finish()


def replay(path):
    _init()
    j = json.load(open(path))
    d = j['detail']
    if 'case' in d and 'hist' in d['case']:
        print(json.dumps(replay_behaviour(d['case']), indent=1))
    elif 'case' in d:
        print(json.dumps(query_case(d['case']), indent=1))
    else:
        print(json.dumps(d, indent=1)[:5000])
    return 0


if __name__ == '__main__':
    if len(sys.argv) > 2 and sys.argv[1] == '--replay':
        fw.main_wrapper(lambda: replay(sys.argv[2]))
    fw.main_wrapper(main)
