"""C12 -- schema element objects survive serialise/parse: Schema.tla (mode roundtrip) variants of
every exported class executed on the real classes."""
import importlib
import json
import os
import sys
import xml.etree.ElementTree as ET

sys.path.insert(0, os.path.dirname(os.path.abspath(__file__)))
import env
import framework as fw
import tlc

CLASSES = os.path.join(env.WORK, 'classes.json')
_TABLE = {}
FOREIGN_NS = 'urn:verif:foreign'

VALUE = {'anyURI': 'urn:verif:value', 'string': 'some text', 'None': 'v', 'ID': 'id-1', 'dateTime': '2020-01-02T03:04:05Z',
         'integer': '7', 'boolean': 'true', 'NCName': 'name', 'duration': 'PT1H', 'QName': 'xs:string',
         'positiveInteger': '3', 'unsignedShort': '5', 'NMTOKENS': 'tok1 tok2', 'NMTOKEN': 'tok', 'nonNegativeInteger': '0',
         'unsignedByte': '1', 'datetime': '2020-01-02T03:04:05Z', 'base64Binary': 'YWJj', 'unsignedInt': '1', 'unsignedLong': '1'}


ALTLEX = {'boolean': '1', 'integer': '007', 'nonNegativeInteger': '+0', 'positiveInteger': '+3', 'unsignedShort': '05',
          'unsignedByte': '01', 'dateTime': '2020-01-02T03:04:05.000Z', 'datetime': '2020-01-02T03:04:05.000Z',
          'anyURI': 'URN:Verif:Value', 'duration': 'P0DT1H', 'string': '  padded  ', 'None': ' v '}


def table():
    if not _TABLE:
        _TABLE.update(json.load(open(CLASSES)))
    return _TABLE


def get_class(cid):
    mod, name = cid.rsplit('.', 1)
    return getattr(importlib.import_module('saml2_tophat.' + mod), name)


def attr_value(a):
    if a['enum']:
        return a['enum'][0]
    if a['base'].startswith('list:'):
        return 'urn:verif:a,urn:verif:b'
    return VALUE.get(a['type'], VALUE.get(a['base'].split(':')[-1], 'value'))


def build_deep(cid, depth, path=()):
    from saml2_tophat import ExtensionElement
    t = table()[cid]
    inst = get_class(cid)()
    for a in t['attributes']:
        setattr(inst, a['member'], attr_value(a))
    if depth > 1:
        for ch in t['children']:
            if ch['cls'] not in table() or ch['cls'] in path:      # no class twice on one path (recursive schemas)
                continue
            kids = [build_deep(ch['cls'], depth - 1, path + (cid,)) for _ in range(2 if ch['list'] else 1)]
            setattr(inst, ch['member'], kids if ch['list'] else kids[0])
    inst.extension_elements.append(ExtensionElement('foreign', namespace=FOREIGN_NS, text='kept-%d' % depth, attributes={'a': 'b'}))
    inst.extension_attributes['{%s}attr' % FOREIGN_NS] = 'kept-%d' % depth
    return inst


def build(v):
    from saml2_tophat import ExtensionElement
    if v['kind'] == 'deep':
        return build_deep(v['cls'], 3)
    t = table()[v['cls']]
    cls = get_class(v['cls'])
    inst = cls()
    kind = v['kind']
    if kind in ('attr', 'allattrs'):
        for a in t['attributes']:
            if kind == 'allattrs' or a['member'] == v['which']:
                setattr(inst, a['member'], attr_value(a))
    if kind == 'allattrs_altlex':
        for a in t['attributes']:
            val = attr_value(a)
            if not a['enum'] and not a['base'].startswith('list:'):
                val = ALTLEX.get(a['type'], ALTLEX.get(a['base'].split(':')[-1], val))
            setattr(inst, a['member'], val)
    if kind == 'allattrs_special':
        for a in t['attributes']:
            val = attr_value(a)
            if not a['enum'] and not a['base'].startswith('list:') and a['type'] in ('anyURI', 'string', 'None'):
                val = u'urn:verif:two words/<a&b>"q"/\u00e9\u4e2d/e\u0301\u212b' if a['type'] == 'anyURI' else u' two  words <a&b> "q" \u00e9\u4e2d e\u0301 \u212b '
            setattr(inst, a['member'], val)
    if kind == 'optattrs_empty':
        for a in t['attributes']:
            setattr(inst, a['member'], attr_value(a) if a['required'] else '')
    if kind in ('child', 'allchildren', 'mixed_layout'):
        for ch in t['children']:
            if ch['cls'] not in table():
                continue
            if kind in ('allchildren', 'mixed_layout') or ch['member'] == v['which']:
                n = v['n'] if kind == 'child' else 1
                ccls = get_class(ch['cls'])
                # (several instances are handed over as a list also where the class holds the child in a single slot)
                setattr(inst, ch['member'], [ccls() for _ in range(n)] if (ch['list'] or n > 1) else ccls())
    if kind in ('foreign_child', 'mixed_layout'):
        inst.extension_elements.append(ExtensionElement('foreign', namespace=FOREIGN_NS, text='kept',
                                                        attributes={'a': 'b'}))
    if kind == 'foreign_ownns_child':
        inst.extension_elements.append(ExtensionElement('VerifUndeclared', namespace=t['ns'], text='kept', attributes={'a': 'b'}))
    if kind == 'foreign_samelocal':
        # a foreign element that shares its local name with the first declared child of the class (or "Issuer")
        local = 'Issuer'
        for ch in t['children']:
            local = ch['key'].rsplit('}', 1)[-1]
            break
        inst.extension_elements.append(ExtensionElement(local, namespace=FOREIGN_NS, text='kept', attributes={'a': 'b'}))
    if kind == 'text_denormal':
        inst.text = u'Ame\u0301lie \u212b \u2126 \u1100\u1161 e\u0301'
    if kind == 'foreign_nested':
        def fe(tag, text, kids=()):
            return ExtensionElement(tag, namespace=FOREIGN_NS, text=text, children=list(kids))
        inst.extension_elements.append(fe('outer', None, [fe('first', '1'), fe('second', None, [fe('x', 'x1'), fe('y', 'y1'), fe('x', 'x2')]),
                                                        fe('third', '3'), fe('first', '4')]))
    if kind == 'foreign_attr':
        inst.extension_attributes['{%s}attr' % FOREIGN_NS] = 'kept'
    if kind in ('ownns_attr', 'ownns_attr_both'):
        a = [x for x in t['attributes'] if x['member'] == v['which']][0]
        inst.extension_attributes['{%s}%s' % (t['ns'], a['xml'])] = 'look-alike kept'
        if kind == 'ownns_attr_both':
            setattr(inst, a['member'], attr_value(a))
    if kind == 'text_special':
        inst.text = 'a <&> "q" \'s\' ]]> b'
    if kind in ('text_layout', 'mixed_layout'):
        inst.text = '  line one\n   line two  \n\tline three \n'      # white space is content: kept as written
    if kind == 'text_unicode':
        inst.text = u'é ☃ 漢 \U0001F600'
    return inst


def describe(obj, depth=0):
    """structure of an instance: type, attributes, text, children, extension content"""
    d = {'type': type(obj).__module__ + '.' + type(obj).__name__, 'text': obj.text, 'attrs': {}, 'children': {}, 'ext': [],
         'extattr': dict(obj.extension_attributes)}
    for xml, (member, _, _) in obj.c_attributes.items():
        val = getattr(obj, member, None)
        if val is not None:
            d['attrs'][member] = val
    for key, (member, _) in obj.c_children.items():
        val = getattr(obj, member, None)
        if val is None or val == []:
            continue
        vals = val if isinstance(val, list) else [val]
        d['children'][member] = [describe(x, depth + 1) for x in vals]
    def ext(e):
        return [e.namespace, e.tag, e.text, sorted(e.attributes.items()), [ext(c) for c in e.children]]
    for e in obj.extension_elements:
        d['ext'].append(ext(e))
    return d


def replay(case):
    import saml2_tophat
    v = case['v']
    out = {'problems': []}
    try:
        inst = build(v)
        text = inst.to_string()
        cls = get_class(v['cls'])
        back = saml2_tophat.create_class_from_xml_string(cls, text)
        if back is None:
            out['problems'].append('parsing the serialised instance gives None')
            return out
        a, b = describe(inst), describe(back)
        if a != b:
            diff = [k for k in a if a[k] != b[k]]
            out['problems'].append('parsed object differs in %s: %s vs %s' % (diff, json.dumps(dict((k, a[k]) for k in diff), default=str)[:300],
                                                                          json.dumps(dict((k, b[k]) for k in diff), default=str)[:300]))
        text2 = back.to_string()
        if text2 != text:
            out['problems'].append('re-serialisation differs: %r vs %r' % (text[:300], text2[:300]))
        # children in the schema's sequence order
        order = table()[v['cls']]['order']
        if order and v['kind'] == 'allchildren':
            root = ET.fromstring(text)
            tags = [c.tag for c in root]
            pos = []
            keyof = dict((ch['member'], ch['key']) for ch in table()[v['cls']]['children'])
            want = [keyof[m] for m in order if m in keyof]
            seen = [t for t in tags if t in want]
            if seen != [t for t in want if t in seen]:
                out['problems'].append('children not in schema order: %s' % seen)
        out['text'] = text.decode('utf-8', 'replace')[:600] if isinstance(text, bytes) else text[:600]
    except Exception as exc:
        out['problems'].append('exception %s: %s' % (type(exc).__name__, str(exc)[:200]))
    return out


def replay_module(job):
    return [replay(c) for c in job['cases']]


def main():
    chk = fw.Check('C12', 'model_checking')
    import extract_schema
    with open(CLASSES, 'w') as f:
        json.dump(extract_schema.extract(), f, sort_keys=True)
    e = {'CLASSES_FILE': CLASSES}
    res = tlc.run('Schema.tla', 'Schema_roundtrip.cfg', env=e, timeout=1800)
    chk.add_tlc(res, 'Schema_roundtrip.cfg')
    tab = tlc.run('Schema.tla', 'Schema_tables.cfg', env=e, timeout=1800, coverage=False)
    chk.add_tlc(tab, 'Schema_tables.cfg (table invariants)')
    cases = sorted(res.cases, key=lambda c: json.dumps(c['v'], sort_keys=True))
    if chk.tier != 'thorough':
        keep = []
        for c in cases:
            if c['v']['kind'] in ('empty', 'allattrs', 'allchildren', 'foreign_child', 'foreign_attr', 'foreign_ownns_child', 'foreign_nested', 'foreign_samelocal', 'text_denormal', 'ownns_attr', 'ownns_attr_both', 'text_layout', 'mixed_layout', 'optattrs_empty', 'allattrs_altlex', 'allattrs_special') or not c['roundTrips'] \
                    or chk.rng.random() < 0.35:
                keep.append(c)
        cases = keep
    # design level: what TLC says about the tables
    bad_tables = sorted(set(c['v']['cls'] for c in res.cases if not c['wellFormed'] or not c['roundTrips']))
    for cid in bad_tables:
        chk.note('table of %s does not round-trip in the abstract model (c_children key / c_child_order / list-valued children)' % cid)
    if tab.violated and not bad_tables:
        raise fw.Machinery('table invariants violated but no variant blames a class')
    # serialisation may depend on what the process has serialised before (class-level caches, registered
    # prefixes): every module is played in ascending and in descending class order, each in a fresh process pool,
    # one worker per module so that base and derived classes meet in the same process
    for order in ('ascending', 'descending'):
        bymod = {}
        for c in cases:
            bymod.setdefault(c['v']['cls'].rsplit('.', 1)[0], []).append(c)
        jobs = [{'module': m, 'cases': sorted(cs, key=lambda c: json.dumps(c['v'], sort_keys=True), reverse=order == 'descending')}
                for m, cs in sorted(bymod.items())]
        for job, outs, err in fw.pmap(replay_module, jobs, chunk=1):
            if err:
                raise fw.Machinery(err)
            for case, out in zip(job['cases'], outs):
                v = case['v']
                chk.count(dict(v, order=order), nontrivial=True)
                for p in out['problems']:
                    chk.violation({'cls': v['cls'], 'kind': v['kind'], 'which': v['which']},
                                  '%s (%s %s, %s class order): %s' % (v['cls'], v['kind'], v['which'], order, p), {'case': case, 'observed': out, 'order': order})
                if not out['problems'] and not case['roundTrips']:
                    chk.note('drift: %s %s round-trips in the code but not in the abstract model' % (v['cls'], v['kind']))
                chk.sample({'variant': v, 'serialised': out.get('text', '')[:200]}, limit=4)
    chk.cov['exhaustive'] = chk.tier == 'thorough'
    chk.cov['rule'] = ('variants of Schema.tla for each of the exported classes (nothing set, each attribute, all attributes, all optional attributes empty, all attributes in another lexical form, all string-like attributes with blanks / markup / non-ASCII, each child '
                      'with 1..3 instances, all children, foreign child, foreign attribute, a three-level tree with everything set, own-namespace look-alike of a declared attribute, XML-special, non-ASCII and multi-line / padded text, the latter also as mixed content next to all children): thorough '
                      'all 19 250, quick the structural kinds plus a seeded third of the rest; distinct = distinct (class, variant)')
    chk.cov['classes'] = len(table())
    chk.assumptions = ['single-feature variants are depth-1 instances (children are empty instances of their class); the "deep" variant of '
                       'every class is a three-level tree with every attribute and child, lists of two, foreign content at every level',
                       'text content restricted to three classes of strings per class']
    return chk.finish()


def do_replay(path):
    j = json.load(open(path))
    if not os.path.exists(CLASSES):
        import extract_schema
        json.dump(extract_schema.extract(), open(CLASSES, 'w'))
    print(json.dumps(replay(j['detail']['case']), indent=1))
    return 0


if __name__ == '__main__':
    if len(sys.argv) > 2 and sys.argv[1] == '--replay':
        fw.main_wrapper(lambda: do_replay(sys.argv[2]))
    fw.main_wrapper(main)
