"""C20 -- failures of the external tool never turn into acceptance: ToolFaults.tla scenarios
replayed with the fault-injecting stand-in (in-process and as a real subprocess); the recorded
invocations are validated by the TLA+ monitor ToolFaultsTrace."""
import json
import os
import subprocess
import sys

sys.path.insert(0, os.path.dirname(os.path.abspath(__file__)))
import env
import framework as fw
import samlbuild as sb
import sp_common as spc
import tlc
import xmlsec_model

WORKDIR = os.path.join(env.WORK, 'C20')


def plan_for(scn):
    if scn['fault'] in ('none', 'NotStartable'):
        return None
    nth = {'first': 1, 'later': 'later', 'every': 'every'}[scn['pos']]
    return {'plan': [{'mode': scn['mode'], 'nth': nth, 'kind': scn['fault']}]}


def idp_keys(order):
    return {'single': [('kIdp1', 'signing')], 'rightFirst': [('kIdp1', 'signing'), ('kIdp1b', 'signing')],
            'rightSecond': [('kIdp1b', 'signing'), ('kIdp1', 'signing')]}[order]


def not_startable_path():
    os.makedirs(WORKDIR, exist_ok=True)
    p = os.path.join(WORKDIR, 'not-executable-xmlsec1')
    if not os.path.exists(p):
        with open(p, 'w') as f:
            f.write('#!/bin/false\n')
        os.chmod(p, 0o644)
    return p


class FakeResponse(object):
    def __init__(self, content):
        self.status_code = 200
        self.content = content
        self.text = content


class FakeHttp(object):
    def __init__(self, content):
        self.content = content

    def send(self, url, **kw):
        return FakeResponse(self.content)


def signed_metadata():
    ed = env.idp_metadata(env.IDP2, keys=[('kIdp2', 'signing')], sso=env.IDP2_SSO)
    doc = env.entities_descriptor(ed, ident='md1', prefix=sb.signature_template('md1', 'sha256'))
    return sb.sign(doc, 'urn:oasis:names:tc:SAML:2.0:metadata', 'EntitiesDescriptor', 'md1', 'kMd')


def run_scenario(scn, subprocess_mode=False):
    """-> trace record for the monitor (+ outcome details)"""
    extra = {}
    if scn['fault'] == 'NotStartable':
        extra['top_xmlsec_binary'] = not_startable_path()
    site = scn['site']
    signed, encrypted, wanted = [], False, []
    outcome, exc = 'none', None
    # ---- build the input with an unfaulted tool
    xmlsec_model.PLAN = None
    os.environ.pop('XMLSEC_STANDIN_FAULTS', None)
    if site in ('spResponse', 'spAssertion', 'spEncAssertion', 'spDecrypt'):
        a = spc.default_assertion()
        r = spc.default_response()
        if site in ('spAssertion', 'spEncAssertion'):
            a['sig'] = sb.signature_template('a1', 'sha256')
            signed = ['Assertion']
        if site == 'spResponse':
            r['sig'] = sb.signature_template('r1', 'sha256')
            signed = ['Response']
        enc = site in ('spEncAssertion', 'spDecrypt')
        body = sb.assertion(a)
        if enc:
            body = '<saml:EncryptedAssertion>%s</saml:EncryptedAssertion>' % body
        doc = sb.response(r, body)
        if 'Assertion' in signed:
            doc = sb.sign(doc, sb.NS_SAML, 'Assertion', 'a1', 'kIdp1')
            if scn['inner'] == 'invalid':
                doc = sb.tamper_text(doc, 'val-a1-given', 'val-a1-forged')
        if enc:
            doc = sb.encrypt_element(doc, sb.xp('Response', 'EncryptedAssertion', 'Assertion'), 'kSpEnc1')
            encrypted = True
        if 'Response' in signed:
            doc = sb.sign(doc, sb.NS_SAMLP, 'Response', 'r1', 'kIdp1')
        order = scn['order']
        if site == 'spDecrypt' or (site == 'spEncAssertion' and scn['mode'] == 'decrypt'):
            enc_keys = {'single': ('kSpEnc1',), 'rightFirst': ('kSpEnc1', 'kSpEnc2'), 'rightSecond': ('kSpEnc2', 'kSpEnc1')}[order]
            md = [env.idp_metadata()]
        else:
            enc_keys = ('kSpEnc1',)
            md = [env.idp_metadata(keys=idp_keys(order))]
        sp = spc.sp_for(metadata=md, enc_keys=enc_keys, want_response_signed=site == 'spResponse',
                        want_assertions_signed=site in ('spAssertion', 'spEncAssertion'),
                        want_assertions_or_response_signed=False, **extra)

        def operation():
            obs = spc.observe(sp, doc, env.BINDING_POST, {'id1': '/'})
            return ('identity' if obs['verdict'] == 'accept' else 'none'), obs.get('exc'), obs['calls']
    elif site == 'idpRequest':
        req = sb.authn_request(issuer=env.SP, destination=env.IDP1_SSO, acs_url=env.SP_ACS_POST, binding=env.BINDING_POST,
                               issue_instant=env.ts(spc.now() - 5), sig=sb.signature_template('req1', 'sha256'))
        req = sb.sign(req, sb.NS_SAMLP, 'AuthnRequest', 'req1', 'kSp')
        signed = ['AuthnRequest']
        idp = spc.idp_for(want_authn_requests_signed=True, **extra)

        def operation():
            log = []
            xmlsec_model.SINK = log
            try:
                try:
                    res = idp.parse_authn_request(sb.b64(req), env.BINDING_POST)
                    out = 'identity' if res is not None and getattr(res, 'message', None) is not None else 'none'
                    e = None
                except Exception as exc:
                    out, e = 'none', type(exc).__name__
            finally:
                xmlsec_model.SINK = None
            return out, e, [{'mode': c.get('mode'), 'node': c.get('nodeName'), 'out': c.get('out'), 'fault': c.get('fault')} for c in log]
    elif site == 'metadata':
        text = signed_metadata()
        signed = ['EntitiesDescriptor']
        sp = env.make_sp(env.sp_config(**dict(extra, want_response_signed=False)))

        def operation():
            from saml2_tophat.mdstore import MetadataStore
            log = []
            xmlsec_model.SINK = log
            mds = MetadataStore(sp.config.attribute_converters, sp.config)
            mds.http = FakeHttp(text.encode('utf-8'))
            e = None
            try:
                try:
                    mds.load('remote', url='https://md.verif.example/fed.xml', cert=env.certfile('kMd'))
                except Exception as exc:
                    e = type(exc).__name__
                try:
                    served = mds.single_sign_on_service(env.IDP2, env.BINDING_REDIRECT)
                    out = 'identity' if served else 'none'
                except Exception:
                    out = 'none'
            finally:
                xmlsec_model.SINK = None
            return out, e, [{'mode': c.get('mode'), 'node': c.get('nodeName'), 'out': c.get('out'), 'fault': c.get('fault')} for c in log]
    else:
        sa = site in ('idpSignAssertion', 'idpSignBoth', 'idpSignEncrypt')
        sr = site in ('idpSignResponse', 'idpSignBoth')
        en = site in ('idpEncrypt', 'idpSignEncrypt')
        if sa:
            wanted.append(['sign', 'Assertion'])
        if sr:
            wanted.append(['sign', 'Response'])
        if en:
            wanted.append(['encrypt', 'Assertion'])
        idp = spc.idp_for(**extra)

        def operation():
            from saml2_tophat.saml import NameID, NAMEID_FORMAT_TRANSIENT
            log = []
            xmlsec_model.SINK = log
            try:
                try:
                    res = idp.create_authn_response(
                        {'givenName': ['secret-given'], 'surName': ['secret-sn']}, 'id1', env.SP_ACS_POST, env.SP,
                        name_id=NameID(format=NAMEID_FORMAT_TRANSIENT, text='secret-subject'),
                        sign_response=sr, sign_assertion=sa, encrypt_assertion=en, encrypt_assertion_self_contained=True,
                        authn={'class_ref': sb.PASSWORD, 'authn_auth': 'x'})
                    out, e = 'message', None
                    extra_out['text'] = str(res)
                except Exception as exc:
                    out, e = 'raised', type(exc).__name__
            finally:
                xmlsec_model.SINK = None
            calls = []
            for c in log:
                node = c.get('nodeName') or ('Assertion' if c.get('mode') == 'encrypt' else None)
                calls.append({'mode': c.get('mode'), 'node': node, 'out': c.get('out'), 'fault': c.get('fault')})
            return out, e, calls
    extra_out = {}
    # ---- the operation under the fault plan
    plan = plan_for(scn)
    if subprocess_mode:
        env.uninstall_fake_popen()
        os.makedirs(WORKDIR, exist_ok=True)
        pfile = os.path.join(WORKDIR, 'plan-%d.json' % os.getpid())
        logf = os.path.join(WORKDIR, 'log-%d.ndjson' % os.getpid())
        for f in (pfile, pfile + '.count', logf):
            if os.path.exists(f):
                os.unlink(f)
        if plan:
            with open(pfile, 'w') as f:
                json.dump(plan, f)
            os.environ['XMLSEC_STANDIN_FAULTS'] = pfile
        os.environ['XMLSEC_STANDIN_LOG'] = logf
        try:
            outcome, exc, _ = operation()
        finally:
            env.install_fake_popen()
            os.environ.pop('XMLSEC_STANDIN_FAULTS', None)
            os.environ.pop('XMLSEC_STANDIN_LOG', None)
        calls = []
        if os.path.exists(logf):
            for line in open(logf):
                c = json.loads(line)
                node = c.get('nodeName') or ('Assertion' if c.get('mode') == 'encrypt' else None)
                calls.append({'mode': c.get('mode'), 'node': node, 'out': c.get('out'), 'fault': c.get('fault')})
        for f in (pfile, pfile + '.count', logf):
            if os.path.exists(f):
                os.unlink(f)
    else:
        xmlsec_model.PLAN = plan
        xmlsec_model.COUNTS.clear()
        try:
            outcome, exc, calls = operation()
        finally:
            xmlsec_model.PLAN = None
    norm = []
    for c in calls:
        node = c.get('node')
        if c.get('mode') == 'decrypt':
            node = 'EncryptedData'
        norm.append({'mode': c.get('mode') or '', 'node': node or '', 'out': c.get('out') or '', 'fault': c.get('fault') or 'none'})
    rec = {'scn': scn, 'calls': norm, 'outcome': outcome, 'exc': exc, 'signed': signed, 'encrypted': encrypted,
           'wanted': wanted}
    if outcome == 'message':
        text = extra_out.get('text', '')
        # independent look at what was returned: signature values filled, no plain text of an encrypted assertion
        rec['leak'] = bool(['encrypt', 'Assertion'] in wanted and ('secret-given' in text or 'secret-subject' in text))
        rec['empty_sig'] = ('<ns1:SignatureValue />' in text or 'SignatureValue/>' in text or 'DigestValue />' in text) and bool(wanted)
    return rec


def replay(case):
    scn = case['scn']
    rec = run_scenario(scn)
    if case.get('subprocess'):
        rec2 = run_scenario(scn, subprocess_mode=True)
        rec['subprocess'] = {'outcome': rec2['outcome'], 'exc': rec2['exc'], 'calls': rec2['calls']}
    return rec


def main():
    chk = fw.Check('C20', 'fault_enumeration')
    thorough = chk.tier == 'thorough'
    res = tlc.run('ToolFaults.tla', 'ToolFaults.cfg', timeout=600)
    chk.add_tlc(res, 'ToolFaults.cfg')
    if res.violated:
        raise fw.Machinery('ToolFaults.tla: %s' % res.violated)
    cases = sorted(res.cases, key=lambda c: json.dumps(c['scn'], sort_keys=True))
    for k, c in enumerate(cases):
        c['subprocess'] = thorough or (k + chk.seed) % 6 == 0 or c['scn']['fault'] in ('KilledBySignal', 'NotStartable')
    traces = []
    for case, rec, err in fw.pmap(replay, cases, init=spc.init_worker, chunk=8):
        if err:
            raise fw.Machinery(err)
        scn = case['scn']
        chk.count(scn, nontrivial=True)
        detail = {'case': case, 'record': rec}
        variants = [('in-process', rec['outcome'], rec['exc'])]
        if 'subprocess' in rec:
            variants.append(('subprocess', rec['subprocess']['outcome'], rec['subprocess']['exc']))
        for how, outcome, exc in variants:
            if case['mustReject'] and outcome == 'identity':
                chk.violation(dict(scn, how=how), 'accepted although every %s run of the tool failed (%s at %s)' % (scn['mode'], scn['fault'], scn['site']), detail)
            elif case['mustRaise'] and outcome != 'raised':
                chk.violation(dict(scn, how=how), 'a message was returned although every %s run of the tool failed (%s at %s)' % (scn['mode'], scn['fault'], scn['site']), detail)
            elif case['mustAccept'] and outcome not in ('identity', 'message'):
                raise fw.Machinery('control failed (%s, %s): %s %s' % (how, exc, json.dumps(scn), rec['calls']))
        if rec.get('leak') or rec.get('empty_sig'):
            chk.violation(dict(scn, kind='output'), 'returned message is not protected as requested (leak=%s, empty signature=%s)' % (rec.get('leak'), rec.get('empty_sig')), detail)
        traces.append(rec)
        if 'subprocess' in rec:
            traces.append(dict(rec, calls=rec['subprocess']['calls'], outcome=rec['subprocess']['outcome']))
        chk.sample({'scn': scn, 'outcome': rec['outcome'], 'exc': rec['exc'], 'calls': rec['calls']}, limit=6)
    os.makedirs(WORKDIR, exist_ok=True)
    tfile = os.path.join(WORKDIR, 'traces.json')
    with open(tfile, 'w') as f:
        json.dump([{'calls': t['calls'], 'outcome': t['outcome'], 'signed': t['signed'], 'encrypted': t['encrypted'],
                    'wanted': t['wanted']} for t in traces], f)
    res = tlc.run('ToolFaultsTrace.tla', 'ToolFaultsTrace.cfg', workers=1, env={'TRACE_FILE': tfile}, timeout=1200, coverage=False)
    chk.add_tlc(res, 'ToolFaultsTrace.cfg')
    chk.cov['traces_validated_against_impl'] = len(traces)
    for tag, payload in res.prints:
        if tag == 'REJECTED':
            j = json.loads(payload)
            t = traces[j['trace'] - 1]
            chk.violation(dict(t['scn'], kind='monitor'), '%s (%s at %s, position %s)' % (j['why'], t['scn']['fault'], t['scn']['site'], t['scn']['pos']),
                          {'record': t})
    chk.cov['rule'] = ('all scenarios of ToolFaults.tla: fault catalogue x invocation site (response / assertion / decrypted-assertion / '
                      'request / metadata verification, decryption with first/second key, statement signing, assertion encryption) x '
                      'position (first, later, every) x certificate/key order; each replayed in-process, a sixth (all in the thorough '
                      'tier, and every signal/not-startable case) also with the stand-in as a real subprocess')
    chk.assumptions = list(fw.TOOL_ASSUMPTIONS) + ['a faulted run that nevertheless printed a genuine OK line is outside the catalogue']
    sb.cleanup()
    import shutil
    shutil.rmtree(WORKDIR, ignore_errors=True)
    return chk.finish()


def do_replay(path):
    spc.init_worker()
    j = json.load(open(path))
    scn = (j['detail'].get('case') or {}).get('scn') or j['detail']['record']['scn']
    print(json.dumps(run_scenario(scn), indent=1)[:6000])
    return 0


if __name__ == '__main__':
    if len(sys.argv) > 2 and sys.argv[1] == '--replay':
        fw.main_wrapper(lambda: do_replay(sys.argv[2]))
    fw.main_wrapper(main)
