"""C14 -- binding encoders/decoders: Bindings.tla scenarios executed through Entity.apply_binding,
read back by independent URL / HTML / XML parsers and by the library's own decoders."""
import base64
import html.parser
import json
import os
import sys
import urllib.parse
import xml.etree.ElementTree as ET
import zlib

sys.path.insert(0, os.path.dirname(os.path.abspath(__file__)))
import env
import framework as fw
import sp_common as spc
import tlc

CH = {'a': 'a', 'amp': '&', 'eq': '=', 'quot': '"', 'apos': "'", 'lt': '<', 'gt': '>', 'pct': '%', 'plus': '+', 'space': ' ',
      'nl': '\n', 'semi': ';', 'hash': '#', 'qm': '?', 'eacute': u'é', 'emoji': u'\U0001F600',
      # look-alikes of the escapes the bindings themselves use
      'entamp': '&amp;', 'entlegacy': '&copy=1', 'entnum': '&#38;', 'pctseq': '%26', 'pctbad': '%zz',
      # look-alikes of the placeholders of the auto-submitting form's own template (filled in one pass: data stays data)
      'tplaction': '{action}', 'tplrelay': '{relay_state_input}', 'tplmsg': '{saml_response_input}', 'tplempty': '{}', 'brace': '{',
      # a backslash, alone and in the spellings regular-expression replacement templates interpret
      'bslash': '\\', 'bsesc': '\\t', 'bsgroup': '\\g<0>',
      # a run of 70 000 characters (a photo attribute): size limits of inflaters and form fields
      'big': 'photo' * 14000,
      # an empty line inside the value, and the Unicode line / paragraph separators (line-oriented post-processing)
      'blankline': 'a\n\nb\n \nc', 'linesep': u'a\u2028b\u2029c'}
B = {'redirect': env.BINDING_REDIRECT, 'post': env.BINDING_POST, 'soap': env.BINDING_SOAP,
     'artifact': 'urn:oasis:names:tc:SAML:2.0:bindings:HTTP-Artifact', 'paos': 'urn:oasis:names:tc:SAML:2.0:bindings:PAOS'}
ARTIFACT = 'AAQAAMFbLinlXaCM+FIxiDwGOLAy2T71gbpO7ZhNzAgEANlB90ECfpNEVLg/=='
SIGALG = 'http://www.w3.org/2001/04/xmldsig-more#rsa-sha256'
NS_M = 'urn:verif:m'


def conc(seq):
    return None if seq == ['none'] else ''.join(CH[c] for c in seq)


class Inputs(html.parser.HTMLParser):
    def __init__(self):
        html.parser.HTMLParser.__init__(self, convert_charrefs=True)
        self.fields = []
        self.forms = []

    def handle_starttag(self, tag, attrs):
        a = dict(attrs)
        if tag == 'input' and a.get('type') == 'hidden':
            self.fields.append((a.get('name'), a.get('value')))
        if tag == 'form':
            self.forms.append(a)


def replay(case):
    from saml2_tophat import soap
    scn = case['scn']
    ent = spc.sp_for()
    text = conc(scn['msg'])
    relay = conc(scn['relay'])
    own = {'pair': 'x=one', 'bare': 'x=one&debug', 'blank': 'next=&x=one'}[scn.get('locqKind', 'pair')] if scn['locq'] else ''
    dest = 'https://idp1.verif.example/sso' + ('?' + own if own else '')

    def own_query_kept(url):
        # the destination's own query is the destination's: it stays in front, octet for octet
        q = urllib.parse.urlsplit(url).query
        if own and not (q == own or q.startswith(own + '&')):
            problems.append('the query of the destination (%r) is not kept as it is: %r' % (own, url))
        return q[len(own) + 1:] if own and q.startswith(own + '&') else q
    problems = []
    b = scn['binding']
    try:
        if b == 'redirect' and scn['typ'] == 'SAMLart':
            from saml2_tophat.pack import http_redirect_message
            info = http_redirect_message(ARTIFACT, dest, relay_state=relay or '', typ='SAMLart')
            url = dict(info['headers'])['Location']
            try:
                pairs = urllib.parse.parse_qsl(own_query_kept(url), keep_blank_values=True, strict_parsing=True)
            except ValueError as exc:
                return {'problems': problems + ['query not parseable by a strict reader: %s (%r)' % (exc, url)]}
            d = dict(pairs)
            if own and 'x' not in d:
                d['x'] = 'one'
            want = sorted(['SAMLart'] + (['RelayState'] if relay else []))
            if sorted(k for k, _ in pairs) != want:
                problems.append('parameters on the wire %s, expected %s (%r)' % (sorted(k for k, _ in pairs), want, url))
            if d.get('SAMLart') != ARTIFACT:
                problems.append('artifact read back as %r' % d.get('SAMLart'))
            if scn['locq'] and d.get('x') != 'one':
                problems.append('existing query parameter altered: x=%r' % d.get('x'))
            if relay and d.get('RelayState') != relay:
                problems.append('RelayState %r read back as %r' % (relay, d.get('RelayState')))
        elif b in ('redirect', 'post'):
            msg = u'<m>payload ' + text + u' end</m>' + text
            info = ent.apply_binding(B[b], msg, dest, relay_state=relay or '', response=scn['typ'] == 'SAMLResponse',
                                     sign=scn['signed'], sigalg=SIGALG if scn['signed'] else None)
            if b == 'redirect':
                url = dict(info['headers'])['Location']
                parts = urllib.parse.urlsplit(url)
                if '#' in url:
                    problems.append('raw # in the redirect URL: %r' % url)
                try:
                    pairs = urllib.parse.parse_qsl(own_query_kept(url), keep_blank_values=True, strict_parsing=True)
                except ValueError as exc:
                    return {'problems': problems + ['query not parseable by a strict reader: %s (%r)' % (exc, url)]}
                names = sorted(k for k, _ in pairs)
                want = sorted(([scn['typ']]) + (['RelayState'] if relay else []) +
                              (['SigAlg', 'Signature'] if scn['signed'] else []))
                if names != want:
                    problems.append('parameters on the wire %s, expected %s (%r)' % (names, want, url))
                d = dict(pairs)
                if relay and d.get('RelayState') != relay:
                    problems.append('RelayState %r read back as %r' % (relay, d.get('RelayState')))
                enc = d.get(scn['typ'], '')
                try:
                    indep = zlib.decompress(base64.b64decode(enc), -15).decode('utf-8')
                except Exception as exc:
                    indep = '!%s' % exc
                if indep != msg:
                    problems.append('message read by an independent inflate differs: %r vs %r' % (indep, msg))
                back = ent.unravel(enc, B[b], 'response' if scn['typ'] == 'SAMLResponse' else 'request')
            else:
                p = Inputs()
                p.feed(info['data'])
                names = sorted(k for k, _ in p.fields)
                want = sorted([scn['typ']] + (['RelayState'] if relay else []))
                if names != want:
                    problems.append('form fields %s, expected %s' % (names, want))
                d = dict(p.fields)
                if relay and d.get('RelayState') != relay:
                    problems.append('RelayState %r recovered from the form as %r' % (relay, d.get('RelayState')))
                if len(p.forms) != 1 or p.forms[0].get('action') != dest:
                    problems.append('form action %r' % (p.forms,))
                enc = d.get(scn['typ']) or ''
                try:
                    indep = base64.b64decode(enc).decode('utf-8')
                except Exception as exc:
                    indep = '!%s' % exc
                if indep != msg:
                    problems.append('message recovered from the form differs: %r vs %r' % (indep, msg))
                back = ent.unravel(enc, B[b], 'response' if scn['typ'] == 'SAMLResponse' else 'request')
            if isinstance(back, bytes):
                back = back.decode('utf-8')
            if back != msg:
                problems.append('unravel returns %r, sent %r' % (back, msg))
        elif b == 'artifact':
            info = ent.apply_binding(B[b], ARTIFACT, dest, relay_state=relay or '')
            url = info['url']
            parts = urllib.parse.urlsplit(url)
            try:
                pairs = urllib.parse.parse_qsl(own_query_kept(url), keep_blank_values=True, strict_parsing=True)
            except ValueError as exc:
                return {'problems': problems + ['query not parseable by a strict reader: %s (%r)' % (exc, url)]}
            names = sorted(k for k, _ in pairs)
            want = sorted(['SAMLart'] + (['RelayState'] if relay else []))
            d = dict(pairs)
            if own:
                d['x'] = 'one'
            if names != want:
                problems.append('parameters on the wire %s, expected %s (%r)' % (names, want, url))
            if d.get('SAMLart') != ARTIFACT:
                problems.append('artifact read back as %r' % d.get('SAMLart'))
            if scn['locq'] and d.get('x') != 'one':
                problems.append('existing query parameter altered: x=%r' % d.get('x'))
            if relay and d.get('RelayState') != relay:
                problems.append('RelayState %r read back as %r' % (relay, d.get('RelayState')))
        else:
            from xml.sax.saxutils import escape, quoteattr
            body = u'<m:msg xmlns:m="%s" a=%s>%s<m:in>x</m:in>%s</m:msg>' % (NS_M, quoteattr(text.replace('\n', ' ')), escape(text), escape(text))
            msg = {'none': u'', 'tool': u'<?xml version="1.0" encoding="UTF-8"?>\n', 'short': u'<?xml version="1.0"?>\n',
                   'standalone': u"<?xml version='1.0' encoding='utf-8' standalone='yes'?>\n"}[scn['decl']] + body
            nhead = scn.get('headers', 0)
            blocks = []
            if nhead:
                from saml2_tophat.profile import paos, ecp
                blocks = [paos.Request(must_understand='1', actor='http://schemas.xmlsoap.org/soap/actor/next',
                                       response_consumer_url='https://sp.verif.example/acs/paos', service='urn:verif:svc'),
                          ecp.RelayState(must_understand='1', actor='http://schemas.xmlsoap.org/soap/actor/next', text='rs-1')][:nhead]
            for bname in ('soap', 'paos'):
                info = ent.apply_binding(B[bname], msg, dest, **({'soap_headers': blocks} if blocks else {}))
                data = info['data']
                raw = data if isinstance(data, bytes) else data.encode('utf-8')
                try:
                    envl = ET.fromstring(raw)
                    got = envl.find('{http://schemas.xmlsoap.org/soap/envelope/}Body')[0]
                    hdr = envl.find('{http://schemas.xmlsoap.org/soap/envelope/}Header')
                    if (0 if hdr is None else len(hdr)) != nhead:
                        problems.append('%s: %d header blocks in the envelope, %d handed over' % (bname, 0 if hdr is None else len(hdr), nhead))
                    want_el = ET.fromstring(body.encode('utf-8'))
                    if ET.canonicalize(ET.tostring(got)) != ET.canonicalize(ET.tostring(want_el)):
                        problems.append('%s: element in the envelope differs: %r vs %r' % (bname, ET.tostring(got, 'unicode'), body))
                except Exception as exc:
                    problems.append('%s: envelope not readable: %s: %s' % (bname, type(exc).__name__, exc))
                    continue
                back = soap.parse_soap_enveloped_saml_thingy(data, ['{%s}msg' % NS_M])
                try:
                    if ET.canonicalize(back if isinstance(back, str) else back.decode('utf-8')) != ET.canonicalize(ET.tostring(want_el)):
                        problems.append('%s: decoder returns %r, sent %r' % (bname, back, body))
                except Exception as exc:
                    problems.append('%s: decoder output unreadable: %s' % (bname, exc))
    except Exception as exc:
        problems.append('exception %s: %s' % (type(exc).__name__, str(exc)[:200]))
    return {'problems': problems}


def main():
    chk = fw.Check('C14', 'exploration')
    thorough = chk.tier == 'thorough'
    cfg = 'Bindings_thorough.cfg' if thorough else 'Bindings_quick.cfg'
    res = tlc.run('Bindings.tla', cfg, timeout=3000)
    chk.add_tlc(res, cfg)
    if res.violated:
        raise fw.Machinery('Bindings.tla: the repaired design violates %s' % res.violated)
    pinned = tlc.run('Bindings.tla', 'Bindings_pinned.cfg', timeout=600, coverage=False)
    chk.add_tlc(pinned, 'Bindings_pinned.cfg (design as pinned: expected counterexample)')
    if not pinned.violated:
        raise fw.Machinery('vacuity control failed: the pinned design should violate RoundTrip')
    cases = sorted(res.cases, key=lambda c: json.dumps(c['scn'], sort_keys=True))
    if thorough:
        cases = [c for c in cases if chk.rng.random() < 0.35 or len(c['scn']['msg']) + (0 if c['scn']['relay'] == ['none'] else len(c['scn']['relay'])) <= 2]
    for case, out, err in fw.pmap(replay, cases, init=spc.init_worker, chunk=64):
        if err:
            raise fw.Machinery(err)
        scn = case['scn']
        chk.count(scn, nontrivial=True)
        for p in out['problems'][:1]:
            chk.violation(scn, '%s binding: %s' % (scn['binding'], p), {'case': case, 'problems': out['problems']})
        chk.sample({'scn': scn, 'problems': out['problems']}, limit=5)
    chk.cov['rule'] = ('scenarios of Bindings.tla: binding (Redirect, POST, SOAP/PAOS, Artifact) x message type x message text and RelayState '
                      'over a 30-class alphabet (& = " \' < > %% + space newline ; # ? e-acute emoji, escape look-alikes, template placeholders, backslash spellings, a 70 000-character run) up to length %d x destination with / '
                      'without a query x signed or not x leading XML declaration; wire read by urllib strict parse_qsl / html.parser / '
                      'xml.etree and by Entity.unravel / soap decoders' % (2 if thorough else 1))
    chk.assumptions = ['"for all strings" is covered by bounded enumeration over a character-class alphabet (see DESIGN section 10)',
                       'the form action is outside the property (message and RelayState only)']
    return chk.finish()


def do_replay(path):
    spc.init_worker()
    j = json.load(open(path))
    print(json.dumps(replay(j['detail']['case']), indent=1))
    return 0


if __name__ == '__main__':
    if len(sys.argv) > 2 and sys.argv[1] == '--replay':
        fw.main_wrapper(lambda: do_replay(sys.argv[2]))
    fw.main_wrapper(main)
