"""Growth beyond the listed properties: SP-initiated single logout.  Behaviours of SLO.tla replayed
into the real Saml2Client (global_logout / handle_logout_response) with template-built IdP
answers and a fake SOAP transport; after every step the SP's local session and its state cache
must be what the specification says.  Run as `./check SLO` (not a listed property: writes
work/growth-SLO.json, no evidence file)."""
import base64
import json
import os
import sys
import urllib.parse
import xml.etree.ElementTree as ET
import zlib

sys.path.insert(0, os.path.dirname(os.path.abspath(__file__)))
import env
import framework as fw
import samlbuild as sb
import sp_common as spc
import tlc

IDPS = {'i1': 'urn:verif:slo:idp1', 'i2': 'urn:verif:slo:idp2', 'i3': 'urn:verif:slo:idp3'}
REV = dict((v, k) for k, v in IDPS.items())
SOAPSET = ('i3',)
SLO_URL = lambda i: 'https://%s.slo.verif.example/slo' % i


def idp_md(i):
    binding = env.BINDING_SOAP if i in SOAPSET else env.BINDING_REDIRECT
    return ('<md:EntityDescriptor %s entityID="%s"><md:IDPSSODescriptor protocolSupportEnumeration="urn:oasis:names:tc:SAML:2.0:protocol">'
            '%s<md:SingleLogoutService Binding="%s" Location="%s"/><md:SingleSignOnService Binding="%s" Location="https://%s.slo.verif.example/sso"/>'
            '</md:IDPSSODescriptor></md:EntityDescriptor>'
            % (env.MD_NS, IDPS[i], env.key_descriptor('kIdp1', 'signing'), binding, SLO_URL(i), env.BINDING_REDIRECT, i))


def logout_response(req_id, issuer, destination):
    # no Destination attribute: StatusResponse._validate_destination reads self.valid_destination_regex, which only
    # AuthnResponse defines, so a LogoutResponse carrying a Destination over a browser binding raises AttributeError
    # (observation recorded in DESIGN 15.7; outside the listed properties)
    return ('<samlp:LogoutResponse xmlns:samlp="%s" xmlns:saml="%s" ID="resp-%s" Version="2.0" IssueInstant="%s" '
            'InResponseTo="%s"><saml:Issuer>%s</saml:Issuer>%s</samlp:LogoutResponse>'
            % (sb.NS_SAMLP, sb.NS_SAML, req_id, env.ts(spc.now() - 1), req_id, issuer, sb.status_xml()))


class World(object):
    def __init__(self):
        from saml2_tophat.saml import NameID, NAMEID_FORMAT_TRANSIENT
        self.sp = env.make_sp(env.sp_config(metadata_xml=[idp_md(i) for i in sorted(IDPS)], idp=sorted(IDPS.values()),
                                            logout_requests_signed=False))
        self.name_id = NameID(format=NAMEID_FORMAT_TRANSIENT, text='slo-subject', sp_name_qualifier=env.SP)
        now = spc.now()
        for i in sorted(IDPS):
            self.sp.users.add_information_about_person({
                'name_id': self.name_id, 'issuer': IDPS[i], 'not_on_or_after': now + 3600, 'ava': {'givenName': ['x']},
                'session_index': 'sidx-' + i, 'came_from': '/'})
        self.ids = {}          # real request id -> spec request number
        self.idp_session = dict((i, True) for i in IDPS)
        self.flight = {}       # spec id -> (idp, real id)
        self.answers = {}
        self.expire = now + 600
        self.sp.send = self.soap_send

    def number(self, real):
        if real not in self.ids:
            self.ids[real] = len(self.ids) + 1
        return self.ids[real]

    def soap_send(self, url=None, method=None, data=None, headers=None, **kw):
        env_ = ET.fromstring(data if isinstance(data, bytes) else data.encode('utf-8'))
        req = env_.find('{http://schemas.xmlsoap.org/soap/envelope/}Body')[0]
        i = [k for k in IDPS if SLO_URL(k) == url][0]
        self.idp_session[i] = False

        class R(object):
            status_code = 200
        r = R()
        r.text = ('<soapenv:Envelope xmlns:soapenv="http://schemas.xmlsoap.org/soap/envelope/"><soapenv:Body>%s</soapenv:Body>'
                  '</soapenv:Envelope>' % logout_response(req.get('ID'), IDPS[i], env.SP_SLO))
        r.content = r.text
        return r

    def collect(self, responses):
        """front-channel requests handed back by do_logout"""
        sent = set()
        if isinstance(responses, dict):
            for ent, val in responses.items():
                if isinstance(val, tuple):
                    binding, info = val
                    url = dict(info['headers'])['Location']
                    q = dict(urllib.parse.parse_qsl(urllib.parse.urlsplit(url).query))
                    xml = zlib.decompress(base64.b64decode(q['SAMLRequest']), -15)
                    rid = ET.fromstring(xml).get('ID')
                    self.flight[self.number(rid)] = (REV[ent], rid)
                    sent.add(REV[ent])
        return sent

    def project(self):
        sp_session = any(x.text == 'slo-subject' for x in self.sp.users.subjects())
        out = []
        for rid, st in self.sp.state.items():
            out.append({'id': self.number(rid), 'idp': REV[st['entity_id']], 'rem': sorted(REV[e] for e in st['entity_ids'])})
        return {'sp': sp_session, 'out': sorted(out, key=lambda o: o['id'])}

    def step(self, op):
        name = op['op']
        sent = None
        if name == 'Start':
            res = self.sp.global_logout(self.name_id, expire=env.ts(self.expire))
            sent = self.collect(res)
        elif name == 'IdPAnswers':
            idp, rid = self.flight.pop(op['id'])
            self.idp_session[idp] = False
            self.answers[op['id']] = (idp, rid)
        elif name == 'Handle':
            idp, rid = self.answers.pop(op['id'])
            xml = logout_response(rid, IDPS[idp], env.SP_SLO)
            resp = self.sp.parse_logout_request_response(sb.deflate_b64(xml), env.BINDING_REDIRECT)
            if resp is None:
                raise fw.Machinery('logout response did not parse')
            res = self.sp.handle_logout_response(resp)
            sent = self.collect(res)
        elif name == 'Expire':
            spc.CLOCK.now = self.expire + 60
        return sent


def replay(case):
    problems = []
    saved = spc.CLOCK.now
    w = World()
    try:
        for k, st in enumerate(case['hist']):
            op = st['op']
            if op['op'] == 'End':
                break
            try:
                sent = w.step(op)
            except fw.Machinery:
                raise
            except ValueError as exc:
                if not op.get('raises'):
                    problems.append({'step': k, 'op': op, 'what': 'exception %s: %s' % (type(exc).__name__, str(exc)[:150])})
                    break
                sent = None
            except Exception as exc:
                problems.append({'step': k, 'op': op, 'what': 'exception %s: %s' % (type(exc).__name__, str(exc)[:150])})
                break
            got = w.project()
            want = {'sp': st['sp'], 'out': sorted(({'id': o['id'], 'idp': o['idp'], 'rem': sorted(o['rem'])} for o in st['out']),
                                                  key=lambda o: o['id'])}
            if got != want:
                problems.append({'step': k, 'op': op, 'what': 'state after the step', 'expected': want, 'observed': got})
                break
            if sent is not None and sorted(sent) != sorted(op.get('sent', [])):
                problems.append({'step': k, 'op': op, 'what': 'requests sent', 'expected': sorted(op.get('sent', [])), 'observed': sorted(sent)})
                break
    finally:
        spc.CLOCK.now = saved
    return problems


def main():
    t0 = __import__('time').time()
    out = {'spec': 'SLO.tla', 'runs': []}
    bad = 0
    for cfg, expect in (('SLO_holds.cfg', None), ('SLO_dup.cfg', 'NoDuplicateRequests'), ('SLO_soaponly.cfg', 'LocalLogoutHappens')):
        r = tlc.run('SLO.tla', cfg, timeout=600, coverage=False)
        out['runs'].append({'cfg': cfg, 'states': r.states, 'violated': r.violated, 'expected': expect})
        if r.violated != expect:
            raise fw.Machinery('%s: expected %s, TLC says %s' % (cfg, expect, r.violated))
    r = tlc.run('SLOSim.tla', 'SLO_sim.cfg', timeout=600, coverage=False)
    out['behaviours'] = len(r.cases)
    for case, problems, err in fw.pmap(replay, [{'hist': h} for h in r.cases], init=spc.init_worker, chunk=4):
        if err:
            raise fw.Machinery(err)
        for p in problems:
            bad += 1
            if bad <= 10:
                print('SLO-DIVERGENCE step %d %s: %s\n  expected %s\n  observed %s' % (p['step'], json.dumps(p['op']), p['what'],
                                                                                      json.dumps(p.get('expected')), json.dumps(p.get('observed'))))
    out['divergences'] = bad
    out['wall_s'] = round(__import__('time').time() - t0, 1)
    env.dump_json(os.path.join(env.WORK, 'growth-SLO.json'), out)
    print('SLO (growth, not a listed property): %d behaviours replayed, %d divergences; design statements: holds=%s, known not to hold=%s'
          % (len(r.cases), bad, ['LocalLogoutOnlyWhenDone', 'AnswerFindsEntry'], ['NoDuplicateRequests', 'LocalLogoutHappens']))
    return 1 if bad else 0


if __name__ == '__main__':
    fw.main_wrapper(main)
