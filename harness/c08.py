"""C08 -- end to end: IdP and SP configured from each other's generated metadata; EndToEnd.tla
scenarios built by the real IdP, transported through the binding, read by the real SP; what the
application reads must equal what the IdP was asked to assert."""
import html.parser
import importlib.util
import json
import os
import random
import sys
import urllib.parse
import xml.etree.ElementTree as ET

sys.path.insert(0, os.path.dirname(os.path.abspath(__file__)))
import env
import framework as fw
import samlbuild as sb
import sp_common as spc
import tlc

ALG = {'sha1': ('http://www.w3.org/2000/09/xmldsig#rsa-sha1', 'http://www.w3.org/2000/09/xmldsig#sha1'),
       'sha256': ('http://www.w3.org/2001/04/xmldsig-more#rsa-sha256', 'http://www.w3.org/2001/04/xmlenc#sha256')}
NAMEID = {'transient': 'urn:oasis:names:tc:SAML:2.0:nameid-format:transient',
          'persistent': 'urn:oasis:names:tc:SAML:2.0:nameid-format:persistent',
          'email': 'urn:oasis:names:tc:SAML:1.1:nameid-format:emailAddress'}
B = {'post': env.BINDING_POST, 'redirect': env.BINDING_REDIRECT, 'soap': env.BINDING_SOAP}
_PAIR = {}
AUTHN = {'password_authority': {'class_ref': sb.PASSWORD, 'authn_auth': 'https://authority.example'},
         'tls_plain': {'class_ref': 'urn:oasis:names:tc:SAML:2.0:ac:classes:TLSClient'},
         'nonascii_authority': {'class_ref': 'urn:oasis:names:tc:SAML:2.0:ac:classes:TimeSyncToken',
                                'authn_auth': u'https://authority.example/\u00e9?a=1&b=<2>'}}


def pair(want):
    """IdP and SP configured from each other's generated metadata"""
    key = json.dumps(want, sort_keys=True)
    if key in _PAIR:
        return _PAIR[key]
    from saml2_tophat.metadata import entity_descriptor
    asks = {} if want[3] else {'required_attributes': ['givenName', 'sn'], 'optional_attributes': ['mail', 'title']}
    sp_conf = env.sp_config(metadata_xml=[], want_response_signed=want[0], want_assertions_signed=want[1], want_assertions_or_response_signed=want[2],
                            top_allow_unknown_attributes=want[3], top_accepted_time_diff=want[4], **asks)
    idp_conf = env.idp_config(metadata_xml=[])
    if len(want) > 5 and want[5] == 'perSPpartial':
        # an entry of its own for this SP that says nothing about lifetime or name format
        idp_conf['service']['idp']['policy'][env.SP] = {'attribute_restrictions': None}
    sp0, idp0 = env.make_sp(sp_conf), env.make_idp(idp_conf)
    sp_md, idp_md = str(entity_descriptor(sp0.config)), str(entity_descriptor(idp0.config))
    sp_conf['metadata'] = {'inline': [idp_md]}
    idp_conf['metadata'] = {'inline': [sp_md]}
    _PAIR[key] = (env.make_idp(idp_conf), env.make_sp(sp_conf), sp_md, idp_md)
    return _PAIR[key]


def values_of(vclass, rng):
    tail = '%04d' % rng.randint(0, 9999)
    return {
        'plain': ['Alice' + tail],
        'markup': ['<b>a&b</b> <' + tail + '>', 'x > y & z < w'],
        'quotes': ['say "hi" \'there\' ' + tail],
        'nonascii': [u'Ærøskøbing ☃ 漢字 ' + tail, u'\U0001F600' + tail,
                     u'Ame\u0301lie \u212b \u2126 \uf900 ' + tail],      # not in any Unicode normal form
        'padded': ['   padded ' + tail + '  \t'],
        'lookalike_close': ['</saml:AttributeValue><saml:AttributeValue>injected' + tail, '</ns0:AttributeValue></ns0:Attribute>'],
        'lookalike_cdata': ['<![CDATA[' + tail + ']]> ]]> <!-- c -->', '<?pi x?>'],
        'lookalike_entity': ['&amp;lt; &#x41; &unknown; ' + tail],
        'long': ['L' * 6000 + tail],
        'huge': ['photo' * 14000 + tail, 'H' * 20000],          # 90 000 characters in all (size limits of inflaters and parsers)
        'many': ['v%02d-%s' % (i, tail) for i in range(25)],
        'backslash': ['EXAMPLE\\nick' + tail, 'a\\\\b \\1 \\g<0>', 'C:\\temp\\new\\1st', 'cn=Smith\\, John'],
        # the same value more than once, and values that differ only in surrounding blanks or in case: a multiset
        'repeated': ['dup' + tail, 'dup' + tail, '  dup' + tail + ' ', 'Dup' + tail, 'other', ''],
        'newline': ['line1\nline2 ' + tail + '\n\nline3\tTab'],      # CR is subject to XML line-end normalisation
    }[vclass]


def attr_maps():
    """wire names from the shipped attribute map data: local name -> urn:oid -> the name the SP maps it back to"""
    path = os.path.join(env.ATTRMAP_DIR, 'saml_uri.py')
    spec = importlib.util.spec_from_file_location('saml_uri_map', path)
    mod = importlib.util.module_from_spec(spec)
    spec.loader.exec_module(mod)
    return mod.MAP['to'], mod.MAP['fro']


class Inputs(html.parser.HTMLParser):
    def __init__(self):
        html.parser.HTMLParser.__init__(self, convert_charrefs=True)
        self.fields = {}

    def handle_starttag(self, tag, attrs):
        a = dict(attrs)
        if tag == 'input' and a.get('name'):
            self.fields[a['name']] = a.get('value')


ALIAS = {'rfc822Mailbox': 'mail'}
CANON = {'GivenName': 'givenName', 'SN': 'sn', 'MAIL': 'mail'}
TZ = {'UTC': 'UTC0', 'east9': 'JST-9', 'west5': 'EST5'}


def replay(case):
    import time as _time
    tz = TZ[case['scn'].get('tz', 'UTC')]
    saved = os.environ.get('TZ')
    os.environ['TZ'] = tz
    _time.tzset()
    try:
        return replay_in_zone(case)
    finally:
        if saved is None:
            os.environ.pop('TZ', None)
        else:
            os.environ['TZ'] = saved
        _time.tzset()


def replay_in_zone(case):
    from saml2_tophat.saml import NameID
    scn = case['scn']
    want = [scn['wantResp'], scn['wantAssert'], scn['wantEither'], scn['unknownAttr'], scn['skew'], scn.get('idpPolicy', 'defaultOnly')]
    idp, sp, sp_md, idp_md = pair(want)
    rng = random.Random(json.dumps(scn, sort_keys=True) + str(case.get('seed', 0)))
    vals = values_of(scn['vclass'], rng)
    identity = {'givenName': list(vals), 'sn': ['Surname-' + vals[0][:40]], 'mail': ['a@example.org'],
                'eduPersonNickname': ['not-asked-for']}
    if scn['unknownAttr']:
        identity['verifCustomAttribute'] = ['custom-value']
    if scn.get('keyStyle') == 'caseVariant':
        identity = dict(({'givenName': 'GivenName', 'sn': 'SN', 'mail': 'MAIL'}.get(k, k), v) for k, v in identity.items())
    if scn.get('keyStyle') == 'alias':
        identity['rfc822Mailbox'] = ['b@example.org', 'c@example.org']
    now = spc.now()
    subject = 'subject-' + ('%06d' % rng.randint(0, 999999))
    if scn['nameid'] == 'email':
        subject = 'Alice.Liddell-%s@Example.ORG' % subject
    subject = {'ascii': subject, 'astral': u'\U00020000\U0001F600-' + subject, 'padded': u' \t' + subject + u' \u00a0\u3000 ',
               'markup': '<' + subject + '>&"\''}[scn.get('subjClass', 'ascii')]
    sign_alg, digest_alg = ALG[scn['alg']]
    kw = {}
    if scn['sessionExpiry']:
        kw['session_not_on_or_after'] = env.ts(now + 7200)
    out = {'exc': None}
    try:
        resp = idp.create_authn_response(identity, 'id1', env.SP_ACS_POST if scn['binding'] != 'redirect' else env.SP_ACS_REDIRECT, env.SP,
                                         name_id=NameID(format=NAMEID[scn['nameid']], text=subject, sp_name_qualifier=env.SP),
                                         authn=AUTHN[scn.get('authnCtx', 'password_authority')],
                                         sign_response=scn['signResp'], sign_assertion=scn['signAssert'],
                                         encrypt_assertion=scn['enc'], sign_alg=sign_alg, digest_alg=digest_alg, **kw)
        text = str(resp)
        out['doc'] = text
        binding = B[scn['binding']]
        dest = env.SP_ACS_POST if scn['binding'] != 'redirect' else env.SP_ACS_REDIRECT
        info = idp.apply_binding(binding, text, dest, relay_state='rs', response=True)
        if scn['binding'] == 'post':
            p = Inputs()
            p.feed(info['data'])
            enc = p.fields['SAMLResponse']
        elif scn['binding'] == 'redirect':
            url = dict(info['headers'])['Location']
            enc = dict(urllib.parse.parse_qsl(urllib.parse.urlsplit(url).query))['SAMLResponse']
        else:
            enc = info['data']
        obs = spc.observe(sp, None, binding, {'id1': '/came/from'}, encoded=enc)
        out.update(obs)
        if obs['verdict'] == 'accept':
            r = None
        # structure: exactly one assertion, attributes as predicted (no injected elements)
        root = ET.fromstring(text.encode('utf-8'))
        out['n_assertions'] = len(list(root.iter('{%s}Assertion' % sb.NS_SAML))) + len(list(root.iter('{%s}EncryptedAssertion' % sb.NS_SAML)))
    except Exception as exc:
        out['exc'] = out.get('exc') or type(exc).__name__
        out['msg'] = str(exc)[:200]
        out.setdefault('verdict', 'error')
    out['identity'] = identity
    out['subject'] = subject
    out['expected_session'] = now + 7200 if scn['sessionExpiry'] else now + 15 * 60
    return out


def main():
    chk = fw.Check('C08', 'model_checking')
    thorough = chk.tier == 'thorough'
    res = tlc.run('EndToEnd.tla', 'EndToEnd.cfg', timeout=600)
    chk.add_tlc(res, 'EndToEnd.cfg')
    if res.violated:
        raise fw.Machinery('EndToEnd.tla: %s' % res.violated)
    to_map, fro_map = attr_maps()
    cases = sorted(res.cases, key=lambda c: json.dumps(c['scn'], sort_keys=True))
    if not thorough:
        # a covering selection that does not depend on the seed (one scenario of every combination of value class, binding,
        # encryption, response signature and the special dimensions), plus a seeded sample of the rest
        seen, keep = set(), []
        for c in cases:
            s = c['scn']
            k = (s['vclass'], s['binding'], s['enc'], s['signResp'], s['skew'], s['authnCtx'], s['idpPolicy'], s['unknownAttr'], s['sessionExpiry'], s['tz'], s['keyStyle'], s['subjClass'])
            if k not in seen:
                seen.add(k)
                keep.append(c)
            elif chk.rng.random() < 0.15:
                keep.append(c)
        cases = keep
    for c in cases:
        c['seed'] = chk.seed
    for case, out, err in fw.pmap(replay, cases, init=spc.init_worker, chunk=8):
        if err:
            raise fw.Machinery(err)
        scn = case['scn']
        chk.count(scn, nontrivial=True)
        detail = {'case': case, 'observed': dict((k, v) for k, v in out.items() if k not in ('doc', 'calls')), 'document': out.get('doc')}
        if out['verdict'] != 'accept':
            chk.violation(scn, 'response built by the IdP is not accepted by the SP (%s %s): %s' % (out.get('exc'), out.get('msg', ''), json.dumps(scn, sort_keys=True)), detail)
            continue
        problems = []
        if out.get('name_id') != out['subject']:
            problems.append('subject %r read as %r' % (out['subject'], out.get('name_id')))
        expected = {}
        # an SP that asks for nothing (the unknown-attribute scenarios) is sent the whole identity
        for local in (sorted(CANON.get(k, k) for k in out['identity'] if k not in ALIAS) if scn['unknownAttr'] else case['expectedAttrs']):
            wire = to_map.get(local)
            back = fro_map.get(wire, local) if wire else local
            given = dict((k.lower(), v) for k, v in out['identity'].items())
            expected[back] = sorted(v.strip() for v in given[local.lower()])
        for k, v in out['identity'].items():
            if k in ALIAS:
                wire = to_map.get(ALIAS[k])
                back = fro_map.get(wire, ALIAS[k]) if wire else ALIAS[k]
                if back in expected:
                    expected[back] = sorted(expected[back] + [x.strip() for x in v])
        got = dict((k, sorted(v)) for k, v in (out.get('ava') or {}).items())
        if got != expected:
            problems.append('attributes read %s, asserted %s' % (json.dumps(got)[:300], json.dumps(expected)[:300]))
        if out.get('in_response_to') != 'id1':
            problems.append('in-response-to %r' % out.get('in_response_to'))
        if scn['binding'] != 'soap' and out.get('came_from') != '/came/from':
            problems.append('request context %r' % out.get('came_from'))
        if out.get('issuer') != env.IDP1:
            problems.append('issuer %r' % out.get('issuer'))
        if out.get('nooa') != out['expected_session']:
            problems.append('session expiry %r, expected %r' % (out.get('nooa'), out['expected_session']))
        want_ctx = AUTHN[scn.get('authnCtx', 'password_authority')]
        want_info = [[want_ctx['class_ref'], [want_ctx['authn_auth']] if want_ctx.get('authn_auth') else []]]
        if out.get('authn_info') != want_info:
            problems.append('authentication context read as %r, asserted %r' % (out.get('authn_info'), want_info))
        if out.get('n_assertions') != 1:
            problems.append('%r assertion elements in the message' % out.get('n_assertions'))
        for p in problems[:1]:
            chk.violation(scn, 'the SP reads something else than the IdP asserted: %s (%s)' % (p, json.dumps(scn, sort_keys=True)), detail)
        chk.sample({'scn': scn, 'read': {'name_id': out.get('name_id'), 'ava_keys': sorted((out.get('ava') or {}).keys())}}, limit=4)
    chk.cov['exhaustive'] = False
    chk.cov['rule'] = ('scenarios of EndToEnd.tla that satisfy the SP\'s requirements: sign_response x sign_assertion x encrypt_assertion x '
                      '(rsa-sha1/sha1, rsa-sha256/sha256) x POST / Redirect / SOAP x requirement triple x NameID format x session expiry x '
                      '11 value classes x unknown attribute; concrete strings drawn per class with the run seed; thorough runs all 2 032, '
                      'quick a covering selection plus a seeded 15%')
    chk.assumptions = list(fw.TOOL_ASSUMPTIONS) + ['encrypt_assertion_self_contained is left at its default (True); see DESIGN section 7',
                                                   'string values are sampled per class, not proved for all strings']
    sb.cleanup()
    return chk.finish()


def do_replay(path):
    spc.init_worker()
    j = json.load(open(path))
    out = replay(j['detail']['case'])
    print(json.dumps(dict((k, v) for k, v in out.items() if k not in ('doc', 'calls')), indent=1, default=str)[:5000])
    return 0


if __name__ == '__main__':
    if len(sys.argv) > 2 and sys.argv[1] == '--replay':
        fw.main_wrapper(lambda: do_replay(sys.argv[2]))
    fw.main_wrapper(main)
