"""C07 -- attribute release: IdPRelease.tla replayed through Server.create_authn_response; the
released set is read from the XML with an independent parser."""
import json
import os
import sys
import xml.etree.ElementTree as ET

sys.path.insert(0, os.path.dirname(os.path.abspath(__file__)))
import env
import framework as fw
import samlbuild as sb
import sp_common as spc
import tlc

OID = {'givenName': 'urn:oid:2.5.4.42', 'mail': 'urn:oid:0.9.2342.19200300.100.1.3', 'title': 'urn:oid:2.5.4.12'}
OID_REV = dict((v, k) for k, v in OID.items())
VAL = {'v1': u'val-one-é', 'v2': 'val-two', 'v9': 'val-nine', 'V2': 'VAL-TWO'}
VAL_REV = dict((v, k) for k, v in VAL.items())
RS = 'http://refeds.org/category/research-and-scholarship'
LOWER = dict((k.lower(), k) for k in OID)


def policy_dict(scn):
    p = scn['policy']
    d = {'lifetime': {'minutes': 15}, 'attribute_restrictions': None, 'fail_on_missing_requested': scn['failOnMissing'],
         'name_form': 'urn:oasis:names:tc:SAML:2.0:attrname-format:uri'}
    pol = {'default': d}
    if p == 'names12':
        d['attribute_restrictions'] = {'givenName': None, 'mail': None}
    elif p == 'a1v1only':
        d['attribute_restrictions'] = {'givenName': ['^%s$' % VAL['v1']], 'mail': None}
    elif p == 'a1unanchored':
        d['attribute_restrictions'] = {'givenName': ['two'], 'mail': None}
    elif p == 'a1v1twice':
        d['attribute_restrictions'] = {'givenName': ['^val-one', u'^val-o.*\u00e9$'], 'mail': None}
    elif p == 'perSP_a1':
        for e in sp_ids():
            pol[e] = {'attribute_restrictions': {'GivenName': None}}
    elif p == 'perSP_fallback_a2':
        d['attribute_restrictions'] = {'mail': None}
        for e in sp_ids():
            pol[e] = {'lifetime': {'minutes': 5}}
    elif p == 'ec':
        d['entity_categories'] = ['refeds']
    elif p == 'ec_swamid':
        d['entity_categories'] = ['swamid']
    elif p == 'ec_coco':
        d['entity_categories'] = ['edugain']
    elif p == 'ec_names1':
        d['entity_categories'] = ['refeds']
        d['attribute_restrictions'] = {'givenName': None}
    return pol


DECLS = ['none', 'req_a1', 'req_a1_v2', 'req_a3_opt_a2', 'opt_a2', 'req_a1_v9', 'req_a2']


RE = 'http://www.swamid.se/category/research-and-education'
EU = 'http://www.swamid.se/category/eu-adequate-protection'
COCO = 'http://www.geant.net/uri/dataprotection-code-of-conduct/v1'


def sp_id(decl, has_cat, swamid='none'):
    return '%s/%s/%s%s' % (env.SP, decl, 'rs' if has_cat else 'plain', '' if swamid == 'none' else '/' + swamid)


def sp_ids():
    return [sp_id(d, c, sw) for d in DECLS for c in (False, True) for sw in ('none', 're_only', 're_eu')] + \
        [sp_id(d, False, sw) for d in DECLS for sw in ('rs_support', 'coco')]


_FED = []


def federation():
    """metadata of the twelve kinds of provider one server serves"""
    if _FED:
        return _FED[0]
    _FED.append(_federation())
    return _FED[0]


def _federation():
    def ext(cats, support=False):
        if support:
            return ('<md:Extensions><mdattr:EntityAttributes xmlns:mdattr="urn:oasis:names:tc:SAML:metadata:attribute">'
                    '<saml:Attribute xmlns:saml="%s" Name="http://macedir.org/entity-category-support" '
                    'NameFormat="urn:oasis:names:tc:SAML:2.0:attrname-format:uri"><saml:AttributeValue>%s</saml:AttributeValue>'
                    '</saml:Attribute></mdattr:EntityAttributes></md:Extensions>' % (sb.NS_SAML, RS))
        if not cats:
            return ''
        return ('<md:Extensions><mdattr:EntityAttributes xmlns:mdattr="urn:oasis:names:tc:SAML:metadata:attribute">'
                '<saml:Attribute xmlns:saml="%s" Name="http://macedir.org/entity-category" '
                'NameFormat="urn:oasis:names:tc:SAML:2.0:attrname-format:uri">%s</saml:Attribute></mdattr:EntityAttributes></md:Extensions>'
                % (sb.NS_SAML, ''.join('<saml:AttributeValue>%s</saml:AttributeValue>' % c for c in cats)))
    out = []
    for d in DECLS:
        for c in (False, True):
            for sw in ('none', 're_only', 're_eu'):
                cats = ([RS] if c else []) + {'none': [], 're_only': [RE], 're_eu': [RE, EU]}[sw]
                out.append(env.sp_metadata(entity_id=sp_id(d, c, sw), requested=requested({'decl': d}), extra=ext(cats)))
            if not c:
                out.append(env.sp_metadata(entity_id=sp_id(d, c, 'rs_support'), requested=requested({'decl': d}), extra=ext([], support=True)))
                out.append(env.sp_metadata(entity_id=sp_id(d, c, 'coco'), requested=requested({'decl': d}), extra=ext([COCO])))
    return out


def requested(scn):
    decl = scn['decl']
    spec = {'none': [], 'req_a1': [('givenName', True, [])], 'req_a1_v2': [('givenName', True, ['v2'])],
            'req_a3_opt_a2': [('title', True, []), ('mail', False, [])], 'opt_a2': [('mail', False, [])],
            'req_a1_v9': [('givenName', True, ['v9'])], 'req_a2': [('mail', True, [])]}[decl]
    return [{'name': OID[a], 'friendly': a, 'required': req, 'values': [VAL[v] for v in vals]} for a, req, vals in spec]


def named_attributes():
    from saml2_tophat.saml import Attribute
    return [Attribute(name=OID[a], name_format='urn:oasis:names:tc:SAML:2.0:attrname-format:uri', friendly_name=a)
            for a in ('givenName', 'mail', 'title')]


def replay(case):
    scn = case['scn']
    idp = both_roles(federation(), policy_dict(scn))
    me = sp_id(scn['decl'], scn['hasCat'], scn.get('swamidCat', 'none'))
    identity = {}
    for a, vals in scn['ident'].items():
        if vals:
            key = a.upper() if (scn['upper'] and a == 'mail') else a
            identity[key] = [VAL[v].encode('utf-8') if scn.get('typed') else VAL[v] for v in sorted(vals)]
    if scn.get('split') and len(identity.get('givenName', [])) > 1:
        identity['GivenName'] = identity['givenName'][1:]
        identity['givenName'] = identity['givenName'][:1]
    from saml2_tophat.saml import NameID, NAMEID_FORMAT_TRANSIENT
    obs = {'identity': identity, 'paths': {}}
    nid = NameID(format=NAMEID_FORMAT_TRANSIENT, text='subject-1')
    calls = {
        'authn': lambda ident=identity, e=me: idp.create_authn_response(dict(ident), 'id1', env.SP_ACS_POST, e, name_id=nid,
                                                                       authn={'class_ref': sb.PASSWORD, 'authn_auth': 'x'}),
        # the attribute-authority path: policy of the "aa" service, no best effort
        'attribute': lambda ident=identity, e=me: idp.create_attribute_response(dict(ident), 'id1', env.SP_ACS_POST, e, name_id=nid),
        # ... the answer to a query that names the attributes it is after (all three of ours): naming them adds no right to them
        'attribute_named': lambda ident=identity, e=me: idp.create_attribute_response(dict(ident), 'id1', env.SP_ACS_POST, e, name_id=nid,
                                                                                      attributes=named_attributes()),
    }
    prev = scn.get('prev') or {'served': False}
    if prev['served']:
        full = {'givenName': [VAL['v1'], VAL['v2']], 'mail': [VAL['v1']], 'title': [VAL['v1']]}
        other = sp_id(prev['decl'], prev['hasCat'])
        for call in calls.values():
            try:
                call(full, other)
            except Exception:
                pass
    for path, call in calls.items():
        o = {'exc': None}
        try:
            res = call()
        except Exception as exc:
            o['exc'] = '%s: %s' % (type(exc).__name__, str(exc)[:150])
            o['outcome'] = 'exception'
            obs['paths'][path] = o
            continue
        text = str(res)
        o['doc'] = text
        root = ET.fromstring(text.encode('utf-8'))
        ns = {'p': sb.NS_SAMLP, 'a': sb.NS_SAML}
        status = root.find('p:Status/p:StatusCode', ns)
        o['status'] = status.get('Value') if status is not None else None
        released = dict((a, []) for a in OID)
        unknown = []
        for at in root.iter('{%s}Attribute' % sb.NS_SAML):
            name = OID_REV.get(at.get('Name')) or LOWER.get((at.get('FriendlyName') or '').lower()) or LOWER.get((at.get('Name') or '').lower())
            vals = [(v.text or '') for v in at.findall('a:AttributeValue', ns)]
            if name is None:
                unknown.append([at.get('Name'), vals])
            else:
                released[name].extend(VAL_REV.get(v, 'other:' + v) for v in vals)
        o['released'] = dict((a, sorted(set(v))) for a, v in released.items())
        o['unknown'] = unknown
        o['outcome'] = 'assertion' if root.find('a:Assertion', ns) is not None else 'error-response'
        obs['paths'][path] = o
    return obs


_BOTH = {}


def both_roles(md, policy):
    """an entity that is IdP and attribute authority with the same release policy"""
    key = json.dumps([len(md), policy], sort_keys=True, default=str)
    if key not in _BOTH:
        conf = env.idp_config(metadata_xml=md, policy=policy)
        conf['service']['aa'] = {'endpoints': {'attribute_service': [('https://idp1.verif.example/attr', env.BINDING_SOAP)]}, 'policy': policy}
        _BOTH[key] = env.make_idp(conf)
    return _BOTH[key]


def main():
    chk = fw.Check('C07', 'model_checking')
    res = tlc.run('IdPRelease.tla', 'IdPRelease_fixed.cfg', timeout=600)
    chk.add_tlc(res, 'IdPRelease_fixed.cfg')
    if res.violated:
        raise fw.Machinery('IdPRelease.tla (repaired design) violates the contract: %s' % res.violated)
    pinned = tlc.run('IdPRelease.tla', 'IdPRelease_pinned.cfg', timeout=600, coverage=False)
    chk.add_tlc(pinned, 'IdPRelease_pinned.cfg (design as pinned: expected counterexample)')
    if pinned.violated != 'PipelineMeetsContract':
        raise fw.Machinery('vacuity control failed: the pinned design should violate the contract')
    cases = sorted(res.cases, key=lambda c: json.dumps(c['scn'], sort_keys=True))
    if chk.tier != 'thorough':
        # every request on a server that has served nobody before, a seeded sample of the ones with a predecessor
        cases = [c for c in cases if (not c['scn']['prev']['served'] and (not c['scn']['typed'] or chk.rng.random() < 0.5)) or chk.rng.random() < 0.08]
    some = 0
    for case, obs, err in fw.pmap(replay, cases, init=spc.init_worker, chunk=16):
        if err:
            raise fw.Machinery(err)
        scn = case['scn']
        chk.count(scn, nontrivial=True)
        detail = {'case': case}
        key = dict((k, v) for k, v in scn.items() if k != 'ident')
        key['ident'] = json.dumps(scn['ident'], sort_keys=True)
        key['raises'] = case['raises']
        key['prev'] = json.dumps(scn['prev'], sort_keys=True)
        for path, o in sorted(obs['paths'].items()):
            pkey = dict(key, path=path)
            if o['outcome'] == 'exception':
                if path == 'authn' and not scn.get('typed'):
                    chk.note('IdP raised for %s: %s' % (json.dumps(scn, sort_keys=True), o['exc']))
                continue
            rel = o['released']
            some += any(rel.values())
            d2 = dict(detail, path=path, observed=dict((k, v) for k, v in o.items() if k != 'doc'), document=o.get('doc'))
            over = dict((a, sorted(set(rel[a]) - set(case['allowed'][a]))) for a in rel if set(rel[a]) - set(case['allowed'][a]))
            if over or o['unknown']:
                chk.violation(pkey, '%s response releases beyond what the policy allows: %s %s (identity %s, policy %s, SP declares %s, category %s)'
                              % (path, over, o['unknown'] or '', json.dumps(scn['ident'], sort_keys=True), scn['policy'], scn['decl'], scn['hasCat']), d2)
            elif case['mustReleaseAll'] and o['outcome'] == 'assertion' and any(sorted(rel[a]) != sorted(case['allowed'][a]) for a in rel):
                chk.violation(pkey, '%s response: less released than identity and restrictions give although nothing else applies: %s vs %s' % (path, rel, case['allowed']), d2)
            elif path == 'authn' and not scn.get('typed') and any(sorted(rel[a]) != sorted(case['model'][a]) for a in rel):
                chk.note('drift: released %s, pipeline model %s for %s' % (rel, case['model'], json.dumps(scn, sort_keys=True)))
            chk.sample({'scn': scn, 'path': path, 'allowed': case['allowed'], 'released': rel, 'outcome': o['outcome']}, limit=5)
    if some == 0 and not chk.violations:
        raise fw.Machinery('nothing was ever released: templates broken')
    chk.cov['exhaustive'] = chk.tier == 'thorough'
    chk.cov['rule'] = ('scenarios of IdPRelease.tla, each on a long-lived server that serves twelve kinds of provider and has just served '
                      'none or one of them (thorough: all 63 936; quick: the 4 608 text-valued ones without predecessor, half of the byte-valued ones and a seeded 8% of the rest): identity (3 attributes, multi-valued, non-ASCII, upper-case key) x 9 policy '
                      'shapes (none, names, value pattern, two overlapping value patterns, per-SP entry, per-SP entry falling back to default, entity categories, '
                      'categories + names) x 6 SP declarations (required/optional, value constraints, unsatisfiable) x entity category '
                      'x fail_on_missing_requested')
    chk.assumptions = ['patterns are anchored so that a configured pattern means exactly its value set',
                       'released attributes are read from the emitted XML by xml.etree (Name / FriendlyName)']
    return chk.finish()


def do_replay(path):
    spc.init_worker()
    j = json.load(open(path))
    obs = replay(j['detail']['case'])
    print(json.dumps(dict((k, v) for k, v in obs.items() if k != 'doc'), indent=1))
    return 0


if __name__ == '__main__':
    if len(sys.argv) > 2 and sys.argv[1] == '--replay':
        fw.main_wrapper(lambda: do_replay(sys.argv[2]))
    fw.main_wrapper(main)
