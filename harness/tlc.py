"""Run TLC and read what it printed (state counts, coverage, CASE records)."""
import json
import os
import re
import shutil
import subprocess
import time

VERIF = os.path.dirname(os.path.dirname(os.path.abspath(__file__)))
SPEC = os.path.join(VERIF, 'spec')
WORK = os.path.join(VERIF, 'work')
JAR = '/opt/veriftools/tla/tla2tools.jar:/opt/veriftools/tla/CommunityModules-deps.jar'


class TlcFailure(Exception):
    """machinery failure (exit 2): TLC did not run to a verdict"""


class TlcResult(object):
    def __init__(self):
        self.states = 0          # distinct states
        self.generated = 0       # states generated == transitions explored
        self.depth = 0
        self.ok = False          # finished, no invariant/property violation, no error
        self.violated = None     # name of the violated invariant/property (first)
        self.cases = []          # parsed CASE records
        self.coverage = {}       # action name -> (distinct, generated)
        self.wall = 0.0
        self.text = ''
        self.cmd = ''
        self.prints = []         # other PrintT tuples (tag, payload)


_CASE_RE = re.compile(r'<<"(CASE|NOTE|REJECTED|ACCEPTED)", ')


def _extract_tuples(text):
    """PrintT(<<"CASE", "<json string>">>) lines; 16 workers may interleave lines but each
    PrintT is written atomically per line by TLC's ToolIO, so a line scan with bracket
    matching of the TLA+ string literal is enough."""
    out = []
    for line in text.splitlines():
        m = _CASE_RE.search(line)
        while m:
            tag = m.group(1)
            i = m.end()
            if line[i:i + 1] != '"':
                break
            # TLA+ string literal: backslash escapes \" and \\
            j, buf = i + 1, []
            while j < len(line):
                c = line[j]
                if c == '\\' and j + 1 < len(line):
                    nxt = line[j + 1]
                    buf.append({'n': '\n', 't': '\t', 'r': '\r', 'f': '\f'}.get(nxt, nxt))
                    j += 2
                    continue
                if c == '"':
                    break
                buf.append(c)
                j += 1
            out.append((tag, ''.join(buf)))
            m = _CASE_RE.search(line, j)
    return out


def run(module, cfg, workers=16, timeout=1800, simulate=None, depth=None, seed=None,
        extra=(), env=None, metatag=None, coverage=True, jvm=()):
    """module, cfg: file names inside spec/. Returns TlcResult."""
    meta = os.path.join(WORK, 'tlc', metatag or (os.path.splitext(cfg)[0] + '-%d' % os.getpid()))
    shutil.rmtree(meta, ignore_errors=True)
    os.makedirs(meta, exist_ok=True)
    cmd = ['java', '-XX:+UseParallelGC'] + list(jvm) + ['-cp', JAR, 'tlc2.TLC',
           '-workers', str(workers), '-metadir', meta, '-noGenerateSpecTE',
           '-config', cfg]
    if coverage and not simulate:
        cmd += ['-coverage', '1']
    if simulate:
        cmd += ['-simulate', simulate]
    if depth:
        cmd += ['-depth', str(depth)]
    if seed is not None:
        cmd += ['-seed', str(seed)]
    cmd += list(extra) + [module]
    e = dict(os.environ)
    if env:
        e.update(env)
    t0 = time.time()
    try:
        p = subprocess.run(cmd, cwd=SPEC, env=e, stdout=subprocess.PIPE,
                           stderr=subprocess.STDOUT, timeout=timeout)
    except subprocess.TimeoutExpired as exc:
        shutil.rmtree(meta, ignore_errors=True)
        raise TlcFailure('TLC timeout after %ss: %s' % (timeout, ' '.join(cmd)))
    res = TlcResult()
    res.wall = time.time() - t0
    res.cmd = ' '.join(cmd)
    res.text = text = p.stdout.decode('utf-8', 'replace')
    shutil.rmtree(meta, ignore_errors=True)
    m = re.findall(r'(\d+) states generated, (\d+) distinct states found', text)
    if m:
        res.generated, res.states = int(m[-1][0]), int(m[-1][1])
    m = re.search(r'The depth of the complete state graph search is (\d+)', text)
    if m:
        res.depth = int(m.group(1))
    m = re.search(r'Invariant (\S+) is violated', text)
    if m:
        res.violated = m.group(1)
    m2 = re.search(r'Action property (\S+) is violated|Temporal properties were violated', text)
    if m2 and not res.violated:
        res.violated = m2.group(1) or 'temporal'
    if re.search(r'Postcondition \S+ .*is false', text):
        res.violated = res.violated or 'postcondition'
    for tag, payload in _extract_tuples(text):
        if tag == 'CASE':
            try:
                res.cases.append(json.loads(payload))
            except ValueError:
                raise TlcFailure('unparsable CASE payload: %r' % payload[:200])
        else:
            res.prints.append((tag, payload))
    for mm in re.finditer(r'<(\w+) line \d+, col \d+ to line \d+, col \d+ of module \w+>: (\d+):(\d+)', text):
        res.coverage[mm.group(1)] = (int(mm.group(2)), int(mm.group(3)))
    finished = ('Model checking completed' in text) or ('Finished in' in text and simulate)
    errors = re.search(r'Error: (?!Invariant|Action property|Temporal|The postcondition)(.*)', text)
    res.ok = bool(finished and res.violated is None and 'No error has been found' in text)
    if simulate and res.violated is None and p.returncode == 0:
        res.ok = True
    if not res.ok and res.violated is None:
        raise TlcFailure('TLC failed (rc=%s): %s\n%s' % (p.returncode, ' '.join(cmd), text[-3000:]))
    return res


def sany(module):
    p = subprocess.run(['java', '-cp', JAR, 'tla2sany.SANY', module], cwd=SPEC,
                       stdout=subprocess.PIPE, stderr=subprocess.STDOUT)
    out = p.stdout.decode('utf-8', 'replace')
    return p.returncode == 0 and 'Semantic errors' not in out and 'Parse Error' not in out \
        and 'Fatal errors' not in out, out
