"""C09 -- the IdP answers only to registered endpoints: IdPAnswer.tla replayed through
Server.parse_authn_request / parse_logout_request and Server.response_args."""
import json
import os
import sys

sys.path.insert(0, os.path.dirname(os.path.abspath(__file__)))
import env
import framework as fw
import samlbuild as sb
import sp_common as spc
import tlc

B = {'SimpleSign': 'urn:oasis:names:tc:SAML:2.0:bindings:HTTP-POST-SimpleSign', 'POST': env.BINDING_POST, 'Redirect': env.BINDING_REDIRECT, 'SOAP': env.BINDING_SOAP,
     'Artifact': 'urn:oasis:names:tc:SAML:2.0:bindings:HTTP-Artifact', 'PAOS': 'urn:oasis:names:tc:SAML:2.0:bindings:PAOS',
     'bogus': 'urn:verif:bogus-binding'}
BREV = dict((v, k) for k, v in B.items())
U = {'url5': 'https://sp1.verif.example/acs/simplesign', 'url1': 'https://sp1.verif.example/acs/one', 'url2': 'https://sp1.verif.example/acs/two',
     'url3': 'https://sp1.verif.example/acs/three', 'url4': 'https://sp1.verif.example/acs/art',
     'urlB': 'https://sp2.verif.example/acs', 'slo1': 'https://sp1.verif.example/slo/soap',
     'slo2': 'https://sp1.verif.example/slo/redirect', 'sloB': 'https://sp2.verif.example/slo',
     'url1-case': 'https://SP1.verif.example/acs/one', 'url1-slash': 'https://sp1.verif.example/acs/one/',
     'url1-query': 'https://sp1.verif.example/acs/one?x=1', 'url1-port': 'https://sp1.verif.example:8443/acs/one',
     'url1-prefix': 'https://sp1.verif.example/acs/on', 'url1-parent': 'https://sp1.verif.example/acs/',
     'url1-pct': 'https://sp1.verif.example/%61cs/one', 'url1-http': 'http://sp1.verif.example/acs/one',
     'url1-noscheme': 'sp1.verif.example/acs/one', 'unregistered': 'https://evil.example/acs'}
UREV = dict((v, k) for k, v in U.items())
ACS = {'L1': [('POST', 'url1', 1)], 'L2': [('POST', 'url1', 1), ('POST', 'url2', 2), ('Redirect', 'url3', 3)],
       'L3': [('Redirect', 'url3', 1)], 'L4': [('Artifact', 'url4', 2), ('POST', 'url1', 1)],
       'L5': [('SimpleSign', 'url5', 1), ('Redirect', 'url3', 2)]}
SP1, SP2 = 'urn:verif:sp1', 'urn:verif:sp2-other'
ISS = {'sp1': SP1, 'sp2': SP2, 'unknown': 'urn:verif:nobody'}
IDS = {'urn': {'sp1': SP1, 'sp2': SP2, 'unknown': 'urn:verif:nobody', 'sp1-slash': SP1 + '/', 'sp1-case': 'urn:verif:SP1'},
       'url': {'sp1': 'https://sp1.verif.example/metadata', 'sp2': 'https://sp2.verif.example/metadata/', 'unknown': 'https://nobody.example/metadata',
               'sp1-slash': 'https://sp1.verif.example/metadata/', 'sp1-case': 'https://sp1.verif.example/Metadata'}}


def sp_md(entity, acs, slo):
    x = ('<md:EntityDescriptor %s entityID="%s"><md:SPSSODescriptor protocolSupportEnumeration="urn:oasis:names:tc:SAML:2.0:protocol">'
         % (env.MD_NS, entity))
    x += env.key_descriptor('kSp', 'signing')
    for b, loc in slo:
        x += '<md:SingleLogoutService Binding="%s" Location="%s"/>' % (B[b], U[loc])
    for k, (b, loc, idx) in enumerate(acs):
        x += '<md:AssertionConsumerService Binding="%s" Location="%s" index="%d"%s/>' % (B[b], U[loc], idx, ' isDefault="true"' if k == 0 else '')
    return x + '</md:SPSSODescriptor></md:EntityDescriptor>'


def replay(case):
    scn = case['scn']
    slo = [] if scn['layout'] in ('L3', 'L5') else [('SOAP', 'slo1'), ('Redirect', 'slo2')]
    ISS = IDS[scn.get('idStyle', 'urn')]
    SP1, SP2 = ISS['sp1'], ISS['sp2']
    md = [sp_md(SP1, ACS[scn['layout']], slo), sp_md(SP2, [('POST', 'urlB', 1)], [('Redirect', 'sloB')])]
    idp = spc.idp_for(metadata=md)
    now = spc.now()
    obs = {'result': None, 'exc': None}
    prev = {'none': None, 'sp1_url1': (SP1, 'url1'), 'sp2_urlB': (SP2, 'urlB')}[scn.get('prev', 'none')]
    if prev:
        try:
            pdoc = sb.authn_request(rid='req0', issuer=prev[0], destination=env.IDP1_SSO, acs_url=U[prev[1]], issue_instant=env.ts(now - 6))
            idp.response_args(idp.parse_authn_request(sb.deflate_b64(pdoc), env.BINDING_REDIRECT).message)
        except Exception:
            pass
    try:
        if scn['typ'] == 'authn':
            doc = sb.authn_request(issuer=ISS[scn['issuer']], destination=env.IDP1_SSO,
                                   acs_url=None if scn['url'] == 'absent' else U[scn['url']],
                                   acs_index=None if scn['index'] == 'absent' else scn['index'],
                                   binding=None if scn['pbinding'] == 'absent' else B[scn['pbinding']],
                                   issue_instant=env.ts(now - 5),
                                   sig=sb.signature_template('req1', 'sha256') if scn.get('signed') else '')
            if scn.get('signed'):
                doc = sb.sign(doc, sb.NS_SAMLP, 'AuthnRequest', 'req1', 'kSp')
                req = idp.parse_authn_request(sb.b64(doc), env.BINDING_POST)
            else:
                req = idp.parse_authn_request(sb.deflate_b64(doc), env.BINDING_REDIRECT)
        else:
            doc = ('<samlp:LogoutRequest xmlns:samlp="%s" xmlns:saml="%s" ID="lr1" Version="2.0" IssueInstant="%s" Destination="%s">'
                   '<saml:Issuer>%s</saml:Issuer><saml:NameID>subject</saml:NameID></samlp:LogoutRequest>'
                   % (sb.NS_SAMLP, sb.NS_SAML, env.ts(now - 5), env.IDP1_SLO, ISS[scn['issuer']]))
            req = idp.parse_logout_request(sb.deflate_b64(doc), env.BINDING_REDIRECT)
        if req is None or req.message is None:
            raise fw.Machinery('request did not parse: %s' % doc)
        obs['doc'] = doc
        # callers hand the binding list over for logout requests (a LogoutRequest has no ProtocolBinding)
        bl = None if scn['typ'] == 'authn' else [B['SOAP'], B['Redirect'], B['POST'], B['Artifact']]
        args = idp.response_args(req.message, bindings=bl)
        obs['result'] = [BREV.get(args.get('binding'), args.get('binding')), UREV.get(args.get('destination'), args.get('destination'))]
    except fw.Machinery:
        raise
    except Exception as exc:
        obs['exc'] = type(exc).__name__
        obs['msg'] = str(exc)[:160]
    return obs


def main():
    chk = fw.Check('C09', 'model_checking')
    res = tlc.run('IdPAnswer.tla', 'IdPAnswer.cfg', timeout=600)
    chk.add_tlc(res, 'IdPAnswer.cfg')
    if res.violated:
        raise fw.Machinery('IdPAnswer.tla: pipeline violates the contract: %s' % res.violated)
    cases = sorted(res.cases, key=lambda c: json.dumps(c['scn'], sort_keys=True))
    answered = 0
    for case, obs, err in fw.pmap(replay, cases, init=spc.init_worker, chunk=32):
        if err:
            raise fw.Machinery(err)
        scn = case['scn']
        chk.count(scn, nontrivial=True)
        r = obs['result']
        detail = {'case': case, 'observed': obs}
        registered = [list(x) for x in case['registered']]
        if r is not None:
            answered += 1
            if r not in registered:
                chk.violation(scn, 'IdP would answer %s at %s / %s, which the metadata of that requester does not register (%s)'
                              % (scn['issuer'], r[0], r[1], json.dumps(scn, sort_keys=True)), detail)
            elif scn['url'] != 'absent' and r[1] != scn['url']:
                chk.violation(scn, 'supplied consumer URL %s not honoured nor refused: answered at %s' % (scn['url'], r[1]), detail)
            elif case['mustRefuse']:
                chk.violation(scn, 'request that must be refused is answered at %s: %s' % (r, json.dumps(scn, sort_keys=True)), detail)
        elif case['mustAnswer']:
            chk.violation(scn, 'request that names a registered endpoint (or none) is refused (%s %s): %s'
                          % (obs['exc'], obs.get('msg'), json.dumps(scn, sort_keys=True)), detail)
        model = None if case['model'] == ['error', 'error'] else case['model']
        if model != r and not chk.violations:
            chk.note('drift: response_args gives %s, pipeline model %s for %s' % (r, model, json.dumps(scn, sort_keys=True)))
        chk.sample({'scn': scn, 'registered': registered, 'observed': r, 'exc': obs['exc']}, limit=5)
    if answered == 0 and not chk.violations:
        raise fw.Machinery('no request was answered: templates broken')
    chk.cov['exhaustive'] = True
    chk.cov['rule'] = ('all scenarios of IdPAnswer.tla: request answered just before on the same server (none / sp1 / sp2) x 4 metadata layouts x issuer (known, other known, unknown) x consumer URL '
                      '(absent, registered ones, other SP\'s, case / trailing-slash / query / port / proper-prefix / parent-path near misses, unregistered) x index x '
                      'ProtocolBinding, plus logout requests')
    chk.assumptions = ['requests are unsigned and delivered over HTTP-Redirect, or signed by the requester and delivered over HTTP-POST; metadata written from templates']
    return chk.finish()


def do_replay(path):
    spc.init_worker()
    j = json.load(open(path))
    print(json.dumps(replay(j['detail']['case']), indent=1))
    return 0


if __name__ == '__main__':
    if len(sys.argv) > 2 and sys.argv[1] == '--replay':
        fw.main_wrapper(lambda: do_replay(sys.argv[2]))
    fw.main_wrapper(main)
