"""Growth beyond the listed properties: IdP discovery request / response URLs against Discovery.tla."""
import json
import os
import sys
import urllib.parse

sys.path.insert(0, os.path.dirname(os.path.abspath(__file__)))
import env
import framework as fw
import tlc

CH = {'a': 'a', 'amp': '&', 'eq': '=', 'qm': '?', 'hash': '#', 'pct': '%', 'plus': '+', 'space': ' ', 'eacute': u'é', 'slash': '/', 'colon': ':'}
DS = 'https://ds.verif.example/role/idp.ds'
BACK = 'https://sp.verif.example/disco'


def conc(seq):
    return None if seq == ['none'] else ''.join(CH[c] for c in seq)


def replay(case):
    from saml2_tophat.client import Saml2Client
    scn = case['scn']
    if scn['kind'] == 'request':
        kw = {}
        for k, f in (('policy', 'policy'), ('returnIDParam', 'idparam'), ('return', 'ret')):
            if conc(scn[f]) is not None:
                kw[k] = conc(scn[f])
        if scn['passive'] != 'absent':
            kw['isPassive'] = scn['passive'] == 'true'
        url = Saml2Client.create_discovery_service_request(DS + ('?x=one' if scn['dsq'] else ''), conc(scn['entity']), **kw)
        want = dict(kw, entityID=conc(scn['entity']))
        if 'isPassive' in want:
            want['isPassive'] = scn['passive']
        if scn['dsq']:
            want['x'] = 'one'
        try:
            pairs = urllib.parse.parse_qsl(urllib.parse.urlsplit(url).query, keep_blank_values=True, strict_parsing=True)
            ok = sorted(pairs) == sorted(want.items()) and '#' not in url
        except ValueError:
            ok = False
        return {'ok': ok, 'url': url}
    name = conc(scn['idparam']) or 'entityID'
    value = conc(scn['value'])
    q = []
    if scn['dsq']:
        q.append(('x', 'one'))
    if scn['other']:
        q.append(('foo', name + '=injected'))
    if value is not None:
        q.append((name, value))
    url = BACK + ('?' + urllib.parse.urlencode(q) if q else '')
    args = {} if conc(scn['idparam']) is None else {'returnIDParam': name}
    got = Saml2Client.parse_discovery_service_response(url=url, **args)
    # parse_qs drops blank values: an identifier that is the empty string reads as absent
    return {'ok': got == (value or ''), 'url': url, 'got': got}


def main():
    t0 = __import__('time').time()
    out = {'spec': 'Discovery.tla', 'runs': []}
    for cfg, expect in (('Discovery_fixed.cfg', None), ('Discovery_code.cfg', 'RequestExact')):
        r = tlc.run('Discovery.tla', cfg, timeout=600, coverage=False)
        out['runs'].append({'cfg': cfg, 'states': r.states, 'violated': r.violated, 'expected': expect})
        if r.violated != expect:
            raise fw.Machinery('%s: expected %s, TLC says %s' % (cfg, expect, r.violated))
    r = tlc.run('Discovery.tla', 'Discovery_emit.cfg', timeout=600, coverage=False)
    bad = 0
    glue = 0
    for case, res, err in fw.pmap(replay, r.cases, chunk=256):
        if err:
            raise fw.Machinery(err)
        scn = case['scn']
        expected_ok = case['modelOK'] if scn['kind'] == 'request' else True
        glue += scn['kind'] == 'request' and not res['ok']
        if res['ok'] != expected_ok:
            bad += 1
            if bad <= 10:
                print('DISCOVERY-DIVERGENCE %s: the code %s, the model of the code says %s (%s)'
                      % (json.dumps(scn), 'is exact' if res['ok'] else 'is not exact', 'exact' if expected_ok else 'not exact', res.get('url')))
    out['cases'] = len(r.cases)
    out['divergences'] = bad
    out['requests_not_exact'] = glue
    out['wall_s'] = round(__import__('time').time() - t0, 1)
    env.dump_json(os.path.join(env.WORK, 'growth-DISCOVERY.json'), out)
    print('DISCOVERY (growth, not a listed property): %d cases replayed, %d divergences from the model of the code; %d requests are not '
          'exact (all with a discovery URL that has a query of its own); holds=%s, known not to hold=%s'
          % (len(r.cases), bad, glue, ['RequestExact without a query in the service URL', 'ResponseExact'], ['RequestExact (glue)']))
    return 1 if bad else 0


if __name__ == '__main__':
    fw.main_wrapper(main)
