"""Executable model of the external `xmlsec1` program (contract T0-T7 of
spec/XmlSecTool.tla, DESIGN.md section 3.1).

Used two ways:
  * as the program `harness/standin/xmlsec1` (configured through pysaml2's ordinary
    `xmlsec_binary` key, spawned by `Popen` exactly as the real tool is), and
  * in-process through `FakePopen`, installed by the harness in place of
    `saml2_tophat.sigver.Popen` (same argv, same stdout/stderr/--output protocol, no
    fork) when tens of thousands of replays are needed.

The document is never re-serialised: a small DOM with byte offsets is built with expat
and results are spliced into the original bytes (like libxml2 the tool keeps the text it
does not touch).  Digests are taken over a prefix- and context-independent canonical
form (Clark names, sorted attributes, escaped text) -- self-consistent between sign and
verify, NOT interoperable with real exclusive C14N.
"""
import base64
import hashlib
import json
import os
import re
import sys
from xml.parsers import expat

from cryptography import x509
from cryptography.hazmat.primitives import hashes, serialization, padding as sym_padding
from cryptography.hazmat.primitives.asymmetric import padding
from cryptography.hazmat.primitives.ciphers import Cipher, algorithms, modes

try:
    from cryptography.hazmat.decrepit.ciphers.algorithms import TripleDES
except Exception:  # pragma: no cover
    TripleDES = algorithms.TripleDES

DS = 'http://www.w3.org/2000/09/xmldsig#'
XENC = 'http://www.w3.org/2001/04/xmlenc#'
SEP = '\x1f'

ENVELOPED = DS + 'enveloped-signature'
EXC_C14N = 'http://www.w3.org/2001/10/xml-exc-c14n#'

DIGESTS = {
    DS + 'sha1': 'sha1',
    'http://www.w3.org/2001/04/xmldsig-more#sha224': 'sha224',
    'http://www.w3.org/2001/04/xmlenc#sha256': 'sha256',
    'http://www.w3.org/2001/04/xmldsig-more#sha384': 'sha384',
    'http://www.w3.org/2001/04/xmlenc#sha512': 'sha512',
}
SIGALGS = {
    DS + 'rsa-sha1': hashes.SHA1,
    'http://www.w3.org/2001/04/xmldsig-more#rsa-sha224': hashes.SHA224,
    'http://www.w3.org/2001/04/xmldsig-more#rsa-sha256': hashes.SHA256,
    'http://www.w3.org/2001/04/xmldsig-more#rsa-sha384': hashes.SHA384,
    'http://www.w3.org/2001/04/xmldsig-more#rsa-sha512': hashes.SHA512,
}
TRANSFORM_NAMES = ['base64', 'enveloped-signature', 'c14n', 'c14n-with-comments',
                   'c14n11', 'c14n11-with-comments', 'exc-c14n',
                   'exc-c14n-with-comments', 'xpath', 'xpath2', 'xpointer', 'xslt',
                   'aes128-cbc', 'aes192-cbc', 'aes256-cbc', 'kw-aes128', 'kw-aes192',
                   'kw-aes256', 'tripledes-cbc', 'kw-tripledes', 'dsa-sha1', 'hmac-md5',
                   'hmac-ripemd160', 'hmac-sha1', 'hmac-sha224', 'hmac-sha256',
                   'hmac-sha384', 'hmac-sha512', 'md5', 'ripemd160', 'rsa-md5',
                   'rsa-ripemd160', 'rsa-sha1', 'rsa-sha224', 'rsa-sha256',
                   'rsa-sha384', 'rsa-sha512', 'rsa-1_5', 'rsa-oaep-mgf1p', 'sha1',
                   'sha224', 'sha256', 'sha384', 'sha512']


class ToolError(Exception):
    pass


XPATH_FILTER = 'http://www.w3.org/TR/1999/REC-xpath-19991116'
_XP_STEP = r'ancestor-or-self::(?:[A-Za-z_][\w.-]*:)?([A-Za-z_][\w.-]*)'


def _xpath_filter_names(expr):
    """The filter expressions the model knows: not(ancestor-or-self::p:Name [or ancestor-or-self::p:Other ...]) --
    "everything but the subtrees of these elements".  (Prefixes are not resolved: elements are matched by local name.)
    Any other expression is refused, as is any other transform the model does not know."""
    if not re.match(r'^\s*not\(\s*%s(\s+or\s+%s)*\s*\)\s*$' % (_XP_STEP, _XP_STEP), expr):
        raise ToolError('unsupported XPath filter %r' % expr)
    return re.findall(_XP_STEP, expr)


# ------------------------------------------------------------------ mini DOM
class Node(object):
    __slots__ = ('ns', 'tag', 'attrs', 'kids', 'parent', 'start', 'end',
                 'cstart', 'cend', 'qname', 'index')

    def __init__(self, ns, tag, attrs, parent, start):
        self.ns, self.tag, self.attrs = ns, tag, attrs
        self.kids = []          # Node or str (text)
        self.parent = parent
        self.start = start      # byte offset of '<'
        self.end = None         # byte offset after '>' of the end tag
        self.cstart = None      # content start (after start tag) or None if empty-tag
        self.cend = None
        self.qname = None
        self.index = 0

    def elems(self):
        return [k for k in self.kids if isinstance(k, Node)]

    def iter(self):
        yield self
        for k in self.kids:
            if isinstance(k, Node):
                for x in k.iter():
                    yield x

    def find(self, ns, tag):
        for k in self.elems():
            if k.ns == ns and k.tag == tag:
                return k
        return None

    def findall(self, ns, tag):
        return [k for k in self.elems() if k.ns == ns and k.tag == tag]

    def text(self):
        return ''.join(k for k in self.kids if not isinstance(k, Node))

    def path(self):
        p, n = [], self
        while n.parent is not None:
            p.append(n.index)
            n = n.parent
        return list(reversed(p))


def _split(name):
    if SEP in name:
        ns, tag = name.split(SEP, 1)
        return ns, tag
    return '', name


def parse(data):
    """bytes -> root Node (with byte offsets into `data`)."""
    if isinstance(data, str):
        data = data.encode('utf-8')
    p = expat.ParserCreate(namespace_separator=SEP)
    p.buffer_text = True
    p.ordered_attributes = False
    state = {'cur': None, 'root': None, 'dtd': False}

    def start(name, attrs):
        ns, tag = _split(name)
        a = {}
        for k, v in attrs.items():
            a[_split(k)] = v
        n = Node(ns, tag, a, state['cur'], p.CurrentByteIndex)
        if state['cur'] is None:
            state['root'] = n
        else:
            n.index = len(state['cur'].elems())
            state['cur'].kids.append(n)
        state['cur'] = n

    def end(name):
        n = state['cur']
        # CurrentByteIndex is at the start of the end tag (or of the empty tag)
        idx = p.CurrentByteIndex
        ste = _start_tag_end(data, n.start)
        if data[ste - 2:ste] == b'/>':      # <x/>: no separate end tag
            close = ste
            n.cstart = n.cend = None
        else:
            close = data.index(b'>', idx) + 1
            n.cend = idx
        n.end = close
        state['cur'] = n.parent

    def chars(s):
        if state['cur'] is not None:
            state['cur'].kids.append(s)

    def doctype(*a):
        state['dtd'] = True

    p.StartElementHandler = start
    p.EndElementHandler = end
    p.CharacterDataHandler = chars
    p.StartDoctypeDeclHandler = doctype
    try:
        p.Parse(data, True)
    except expat.ExpatError as exc:
        raise ToolError('parse error: %s' % exc)
    root = state['root']
    # content start offsets and qualified names from the raw bytes
    for n in root.iter():
        m = re.match(rb'<([^\s/>]+)', data[n.start:n.start + 256])
        n.qname = m.group(1).decode('utf-8') if m else n.tag
        if n.cend is not None:
            n.cstart = _start_tag_end(data, n.start)
    return root


def _start_tag_end(data, pos):
    """offset just after the '>' that closes the start tag beginning at pos"""
    i, quote = pos, None
    while True:
        c = data[i:i + 1]
        if quote:
            if c == quote:
                quote = None
        elif c in (b'"', b"'"):
            quote = c
        elif c == b'>':
            return i + 1
        i += 1


def _esc_t(s):
    return s.replace('&', '&amp;').replace('<', '&lt;').replace('>', '&gt;').replace('\r', '&#xD;')


def _esc_a(s):
    return (s.replace('&', '&amp;').replace('<', '&lt;').replace('"', '&quot;')
            .replace('\t', '&#x9;').replace('\n', '&#xA;').replace('\r', '&#xD;'))


def canon(n, exclude=None, out=None, drop=()):
    """Context-free canonical text of the subtree at n without the subtree `exclude` and without
    the subtrees of elements whose local name is in `drop` (XPath filter transform, T8)."""
    top = out is None
    if top:
        out = []
        if n.tag in drop:
            return b''
    out.append('<{%s}%s' % (n.ns, n.tag))
    for (ans, aname) in sorted(n.attrs):
        out.append(' {%s}%s="%s"' % (ans, aname, _esc_a(n.attrs[(ans, aname)])))
    out.append('>')
    for k in n.kids:
        if isinstance(k, Node):
            if k is exclude or k.tag in drop:
                continue
            canon(k, exclude, out, drop)
        else:
            out.append(_esc_t(k))
    out.append('</>')
    if top:
        return ''.join(out).encode('utf-8')


# ------------------------------------------------------------------ arguments
class Args(object):
    def __init__(self, argv):
        self.mode = None
        self.id_attrs = []      # (attr name, ns or None, tag)
        self.node_id = None
        self.node_name = None
        self.node_xpath = None
        self.output = None
        self.privkey = None
        self.pubcert = None
        self.pubcert_type = 'pem'
        self.session_key = None
        self.xml_data = None
        self.files = []
        self.other = []
        i = 0
        while i < len(argv):
            a = argv[i]
            if a in ('--sign', '--verify', '--encrypt', '--decrypt', '--version',
                     '--list-transforms'):
                self.mode = a[2:]
            elif a.startswith('--id-attr:'):
                spec = argv[i + 1]
                i += 1
                name = a[len('--id-attr:'):]
                if ':' in spec:
                    ns, tag = spec.rsplit(':', 1)
                else:
                    ns, tag = None, spec
                self.id_attrs.append((name, ns, tag))
            elif a == '--node-id':
                self.node_id = argv[i + 1]; i += 1
            elif a == '--node-name':
                self.node_name = argv[i + 1]; i += 1
            elif a == '--node-xpath':
                self.node_xpath = argv[i + 1]; i += 1
            elif a == '--output':
                self.output = argv[i + 1]; i += 1
            elif a == '--privkey-pem':
                self.privkey = argv[i + 1]; i += 1
            elif a.startswith('--pubkey-cert-'):
                self.pubcert_type = a[len('--pubkey-cert-'):]
                self.pubcert = argv[i + 1]; i += 1
            elif a == '--pubkey-pem':
                self.pubcert_type = 'pubkey'
                self.pubcert = argv[i + 1]; i += 1
            elif a == '--session-key':
                self.session_key = argv[i + 1]; i += 1
            elif a == '--xml-data':
                self.xml_data = argv[i + 1]; i += 1
            elif a == '--enabled-reference-uris':
                i += 1
            elif a in ('--store-signatures', '--print-debug'):
                self.other.append(a)
            elif a.startswith('--'):
                raise ToolError('unknown option %s' % a)
            else:
                self.files.append(a)
            i += 1


def _read(path):
    with open(path, 'rb') as f:
        return f.read()


def load_public_key(path, typ='pem'):
    data = _read(path)
    if typ == 'der':
        return x509.load_der_x509_certificate(data).public_key()
    if b'BEGIN CERTIFICATE' in data:
        return x509.load_pem_x509_certificate(data).public_key()
    if b'BEGIN PUBLIC KEY' in data:
        return serialization.load_pem_public_key(data)
    raise ToolError('cannot load key from %s' % path)


def load_private_key(path):
    try:
        return serialization.load_pem_private_key(_read(path), None)
    except Exception as exc:
        raise ToolError('cannot load private key: %s' % exc)


def key_fingerprint(pub):
    der = pub.public_bytes(serialization.Encoding.DER,
                           serialization.PublicFormat.SubjectPublicKeyInfo)
    return hashlib.sha256(der).hexdigest()[:16]


# ------------------------------------------------------------------ signatures
class Registry(object):
    """T1: registered ID attributes."""

    def __init__(self, root, id_attrs):
        self.ids = {}
        self.dups = set()
        for n in root.iter():
            for (aname, ns, tag) in id_attrs:
                if n.tag == tag and (ns is None or n.ns == ns):
                    v = n.attrs.get(('', aname))
                    if v is not None:
                        if v in self.ids and self.ids[v] is not n:
                            self.dups.add(v)
                        self.ids[v] = n
            v = n.attrs.get(('http://www.w3.org/XML/1998/namespace', 'id'))
            if v is not None:
                if v in self.ids and self.ids[v] is not n:
                    self.dups.add(v)
                self.ids[v] = n

    def get(self, ident):
        if self.dups:
            raise ToolError('duplicate ID %s' % sorted(self.dups)[0])
        return self.ids.get(ident)


def _inside(node, anc):
    while node is not None:
        if node is anc:
            return True
        node = node.parent
    return False


def first_signature(start):
    for n in start.iter():                               # T3
        if n.ns == DS and n.tag == 'Signature':
            return n
    return None


def _start_node(root, reg, args):
    if args.node_id is not None:                         # T2
        st = reg.get(args.node_id)
        if st is None:
            raise ToolError('node id %r not found' % args.node_id)
        return st
    if reg.dups:
        raise ToolError('duplicate ID')
    return root


def _references(sig, root, reg, info):
    si = sig.find(DS, 'SignedInfo')
    if si is None:
        raise ToolError('no SignedInfo')
    refs = si.findall(DS, 'Reference')
    if not refs:
        raise ToolError('no Reference')
    out = []
    for r in refs:
        uri = r.attrs.get(('', 'URI'))
        if uri is None or uri == '':
            target = root
        elif uri.startswith('#'):
            target = reg.get(uri[1:])
            if target is None:
                raise ToolError('reference %s does not resolve' % uri)
        else:
            raise ToolError('reference uri kind disabled: %s' % uri)
        enveloped = False
        drop = ()
        tr = r.find(DS, 'Transforms')
        if tr is not None:
            for t in tr.findall(DS, 'Transform'):
                alg = t.attrs.get(('', 'Algorithm'))
                if alg == ENVELOPED:
                    enveloped = True
                elif alg == XPATH_FILTER:
                    # T8: the XPath filter transform narrows the node set that is digested
                    xp = t.find(DS, 'XPath')
                    drop = tuple(drop) + tuple(_xpath_filter_names(xp.text() if xp is not None else ''))
                elif alg in (EXC_C14N, EXC_C14N + 'WithComments',
                             'http://www.w3.org/TR/2001/REC-xml-c14n-20010315'):
                    pass
                else:
                    raise ToolError('unsupported transform %s' % alg)
        dm = r.find(DS, 'DigestMethod')
        alg = dm.attrs.get(('', 'Algorithm')) if dm is not None else None
        if alg not in DIGESTS:
            raise ToolError('unsupported digest %s' % alg)
        dv = r.find(DS, 'DigestValue')
        if dv is None:
            raise ToolError('no DigestValue')
        if enveloped and _inside(target, sig):
            # the enveloped-signature transform removes the operated signature's subtree from
            # the referenced node set: nothing is left of a target that lies inside it
            octets = b''
        else:
            octets = canon(target, sig if enveloped else None, drop=drop)
        digest = hashlib.new(DIGESTS[alg], octets).digest()
        out.append((r, dv, digest))
        info['refs'].append({'uri': uri, 'target': target.path(), 'enveloped': enveloped, 'filtered': sorted(drop)})
    return si, out


def _sig_hash(si):
    sm = si.find(DS, 'SignatureMethod')
    alg = sm.attrs.get(('', 'Algorithm')) if sm is not None else None
    if alg not in SIGALGS:
        raise ToolError('unsupported signature method %s' % alg)
    return SIGALGS[alg]()


def do_verify(args, info):
    data = _read(args.files[-1])
    root = parse(data)
    reg = Registry(root, args.id_attrs)
    st = _start_node(root, reg, args)
    info['start'] = st.path()
    sig = first_signature(st)
    if sig is None:
        raise ToolError('no signature below start node')
    info['sig'] = sig.path()
    pub = load_public_key(args.pubcert, args.pubcert_type)
    info['key'] = key_fingerprint(pub)
    si, refs = _references(sig, root, reg, info)
    ok = True
    for (r, dv, digest) in refs:
        try:
            stored = base64.b64decode(dv.text().strip().encode('ascii'), validate=False)
        except Exception:
            stored = b''
        if stored != digest:
            ok = False
    sv = sig.find(DS, 'SignatureValue')
    h = _sig_hash(si)
    if ok:
        try:
            raw = base64.b64decode((sv.text() if sv is not None else '').strip().encode('ascii'))
            pub.verify(raw, canon(si), padding.PKCS1v15(), h)
        except Exception:
            ok = False
    return ok


def do_sign(args, info):
    data = _read(args.files[-1])
    root = parse(data)
    reg = Registry(root, args.id_attrs)
    st = _start_node(root, reg, args)
    info['start'] = st.path()
    sig = first_signature(st)
    if sig is None:
        raise ToolError('no signature template below start node')
    info['sig'] = sig.path()
    key = load_private_key(args.privkey)
    info['key'] = key_fingerprint(key.public_key())
    si, refs = _references(sig, root, reg, info)
    edits = []
    for (r, dv, digest) in refs:
        b64 = base64.b64encode(digest).decode('ascii')
        dv.kids = [b64]
        edits.append((dv, b64))
    sv = sig.find(DS, 'SignatureValue')
    if sv is None:
        raise ToolError('no SignatureValue')
    raw = key.sign(canon(si), padding.PKCS1v15(), _sig_hash(si))
    b64 = base64.b64encode(raw).decode('ascii')
    b64 = '\n'.join(b64[i:i + 64] for i in range(0, len(b64), 64))
    edits.append((sv, b64))
    return _splice_text(data, edits)


def _splice_text(data, edits):
    """replace the content of each (node, text) in the raw bytes"""
    pieces = []
    for n, text in edits:
        new = ('<%s>%s</%s>' % (n.qname, text, n.qname)).encode('utf-8')
        if n.cend is None:
            pieces.append((n.start, n.end, new))
        else:
            pieces.append((n.cstart, n.cend, text.encode('utf-8')))
    pieces.sort()
    out, pos = [], 0
    for s, e, new in pieces:
        out.append(data[pos:s]); out.append(new); pos = e
    out.append(data[pos:])
    return b''.join(out)


def with_declaration(data):
    """what xmlDocDump writes: declaration line + document + newline"""
    body = data
    m = re.match(rb'\s*<\?xml[^>]*\?>\s*', body)
    if m:
        body = body[m.end():]
    return b'<?xml version="1.0" encoding="UTF-8"?>\n' + body.rstrip(b'\n') + b'\n'


# ------------------------------------------------------------------ encryption
BLOCK = {
    XENC + 'tripledes-cbc': (TripleDES, 24, 8),
    XENC + 'aes128-cbc': (algorithms.AES, 16, 16),
    XENC + 'aes192-cbc': (algorithms.AES, 24, 16),
    XENC + 'aes256-cbc': (algorithms.AES, 32, 16),
}
SESSION = {'des-192': 24, 'aes-128': 16, 'aes-192': 24, 'aes-256': 32}
RSA_1_5 = XENC + 'rsa-1_5'
RSA_OAEP = XENC + 'rsa-oaep-mgf1p'


def _wrap_padding(alg):
    if alg == RSA_1_5:
        return padding.PKCS1v15()
    if alg == RSA_OAEP:
        return padding.OAEP(mgf=padding.MGF1(hashes.SHA1()), algorithm=hashes.SHA1(), label=None)
    raise ToolError('unsupported key transport %s' % alg)


def _xpath_select(root, xp):
    steps = re.findall(r'/(/?)\*\[local-name\(\)=["\']([^"\']+)["\']\]', xp)
    if not steps or ''.join('/%s*[local-name()="%s"]' % s for s in steps).replace('"', "'") != xp.replace('"', "'"):
        raise ToolError('unsupported xpath %s' % xp)
    cur = [None]
    for i, (desc, name) in enumerate(steps):
        nxt = []
        for c in cur:
            if c is None:
                cands = list(root.iter()) if desc else [root]
            else:
                cands = [x for x in c.iter() if x is not c] if desc else c.elems()
            nxt.extend(x for x in cands if x.tag == name)
        cur = nxt
    if not cur:
        raise ToolError('xpath selects nothing')
    return cur[0]


def do_encrypt(args, info):
    tmpl_data = _read(args.files[-1])
    tmpl = parse(tmpl_data)
    if not (tmpl.ns == XENC and tmpl.tag == 'EncryptedData'):
        raise ToolError('template is not EncryptedData')
    em = tmpl.find(XENC, 'EncryptionMethod')
    alg = em.attrs.get(('', 'Algorithm')) if em is not None else None
    if alg not in BLOCK:
        raise ToolError('unsupported encryption method %s' % alg)
    ciph, klen, blen = BLOCK[alg]
    if args.session_key not in SESSION or SESSION[args.session_key] != klen:
        raise ToolError('session key type %s does not fit %s' % (args.session_key, alg))
    data = _read(args.xml_data)
    root = parse(data)
    if args.node_id is not None:
        reg = Registry(root, args.id_attrs or [('ID', None, t) for t in ('Assertion', 'Response')])
        node = reg.get(args.node_id)
        if node is None:
            raise ToolError('node id not found')
    elif args.node_xpath:
        node = _xpath_select(root, args.node_xpath)
    else:
        node = root
    info['start'] = node.path()
    plain = data[node.start:node.end]
    pub = load_public_key(args.pubcert, args.pubcert_type)
    info['key'] = key_fingerprint(pub)
    session = os.urandom(klen)
    iv = os.urandom(blen)
    pad = blen - (len(plain) % blen)
    padded = plain + os.urandom(pad - 1) + bytes([pad])
    enc = Cipher(ciph(session), modes.CBC(iv)).encryptor()
    body = iv + enc.update(padded) + enc.finalize()
    ki = tmpl.find(DS, 'KeyInfo')
    ek = ki.find(XENC, 'EncryptedKey') if ki is not None else None
    if ek is None:
        raise ToolError('template has no EncryptedKey')
    ekm = ek.find(XENC, 'EncryptionMethod')
    wrapped = pub.encrypt(session, _wrap_padding(ekm.attrs.get(('', 'Algorithm')) if ekm is not None else None))
    cv_key = ek.find(XENC, 'CipherData').find(XENC, 'CipherValue')
    cv_data = tmpl.find(XENC, 'CipherData').find(XENC, 'CipherValue')
    filled = _splice_text(tmpl_data, [
        (cv_key, base64.b64encode(wrapped).decode('ascii')),
        (cv_data, base64.b64encode(body).decode('ascii'))])
    shift_root = parse(filled)
    enc_elem = filled[shift_root.start:shift_root.end]
    return data[:node.start] + enc_elem + data[node.end:]


def do_decrypt(args, info):
    data = _read(args.files[-1])
    root = parse(data)
    ed = None
    for n in root.iter():
        if n.ns == XENC and n.tag == 'EncryptedData':
            ed = n
            break
    if ed is None:
        raise ToolError('no EncryptedData')
    info['start'] = ed.path()
    em = ed.find(XENC, 'EncryptionMethod')
    alg = em.attrs.get(('', 'Algorithm')) if em is not None else None
    if alg not in BLOCK:
        raise ToolError('unsupported encryption method %s' % alg)
    ciph, klen, blen = BLOCK[alg]
    key = load_private_key(args.privkey)
    info['key'] = key_fingerprint(key.public_key())
    ki = ed.find(DS, 'KeyInfo')
    ek = ki.find(XENC, 'EncryptedKey') if ki is not None else None
    if ek is None:
        raise ToolError('no EncryptedKey')
    ekm = ek.find(XENC, 'EncryptionMethod')
    try:
        wrapped = base64.b64decode(ek.find(XENC, 'CipherData').find(XENC, 'CipherValue').text())
        session = key.decrypt(wrapped, _wrap_padding(ekm.attrs.get(('', 'Algorithm')) if ekm is not None else None))
    except ToolError:
        raise
    except Exception as exc:
        raise ToolError('key transport failed: %s' % exc)
    if len(session) != klen:
        raise ToolError('session key has wrong size')
    try:
        body = base64.b64decode(ed.find(XENC, 'CipherData').find(XENC, 'CipherValue').text())
        iv, ct = body[:blen], body[blen:]
        if not ct or len(ct) % blen:
            raise ToolError('bad cipher text length')
        dec = Cipher(ciph(session), modes.CBC(iv)).decryptor()
        padded = dec.update(ct) + dec.finalize()
        pad = padded[-1]
        if pad < 1 or pad > blen:
            raise ToolError('bad padding')
        plain = padded[:-pad]
    except ToolError:
        raise
    except Exception as exc:
        raise ToolError('decryption failed: %s' % exc)
    out = data[:ed.start] + plain + data[ed.end:]
    try:
        parse(out)      # the tool parses the plain text in the context of the parent
    except ToolError:
        raise ToolError('decrypted content is not well-formed in context')
    return out


# ------------------------------------------------------------------ faults / log
PLAN = None       # in-process fault plan: {"plan": [{"mode":.., "nth":.., "kind":..}]}
COUNTS = {}       # invocation counters of the in-process plan (reset by the harness per operation)


def _fault_for(mode, info):
    """Fault plan: in-process (PLAN/COUNTS) or, for the executable, the json file named by
    XMLSEC_STANDIN_FAULTS with a counter file next to it.  Entries: mode (verify/sign/encrypt/
    decrypt/*), nth ("every", "later" = every invocation but the first, or a number), kind."""
    path = os.environ.get('XMLSEC_STANDIN_FAULTS')
    if PLAN is not None:
        plan, counts = PLAN, COUNTS
    elif path and os.path.exists(path):
        with open(path) as f:
            plan = json.load(f)
        try:
            with open(path + '.count') as f:
                counts = json.load(f)
        except Exception:
            counts = {}
    else:
        return None
    counts[mode] = counts.get(mode, 0) + 1
    counts['*'] = counts.get('*', 0) + 1
    if PLAN is None:
        with open(path + '.count', 'w') as f:
            json.dump(counts, f)
    info['nth'] = counts[mode]
    for ent in plan.get('plan', []):
        if ent.get('mode') not in (None, '*', mode):
            continue
        nth = ent.get('nth', 'every')
        if nth == 'every' or nth == counts[mode] or (nth == 'later' and counts[mode] > 1):
            return ent.get('kind')
    return None


SINK = None      # in-process observers set this to a list
GATE = None      # in-process schedulers set this to a callable(info): called before a sign / verify / encrypt / decrypt run,
                 # may block (the deterministic interleaving of concurrent operations uses tool runs as scheduling points)


def _log(info):
    if SINK is not None:
        SINK.append(info)
    path = os.environ.get('XMLSEC_STANDIN_LOG')
    if path:
        info['tid'] = os.environ.get('XMLSEC_STANDIN_TID')
        with open(path, 'a') as f:
            f.write(json.dumps(info, sort_keys=True) + '\n')


FAULT_TEXT = {
    'OkInsideText1': 'NOT OK\n', 'OkInsideText2': 'xOKx\n', 'OkInsideText3': 'OK?\n',
    'OkInsideText4': ' OK\n', 'OkInsideText5': 'OK \n', 'OkInsideText6': 'Error: OK not reached\n',
    'Garbled': '\x00\x01�garbage\x7f O K\n', 'EmptyOutput': '',
    'TruncatedOutput': 'O',
    # bytes that no decoder accepts right around the letters OK (a decoder that drops them leaves exactly "OK")
    'UndecodableAroundOk1': b'\xff\xfeOK\x80\n', 'UndecodableAroundOk2': b'garbage \xe9\n\xe9OK\xe8\nmore\n',
}


def run(argv):
    """-> (returncode, stdout bytes, stderr bytes); returncode < 0 means 'killed by signal'
    (only FakePopen reports that; the executable really kills itself)."""
    info = {'argv': list(argv), 'refs': []}
    try:
        args = Args(argv)
    except ToolError as exc:
        return 1, b'', ('Error: %s\n' % exc).encode()
    info['mode'] = args.mode
    info['nodeName'] = (args.id_attrs[0][2] if args.id_attrs else None)
    info['nodeId'] = args.node_id
    if args.mode == 'version':
        return 0, b'xmlsec1 1.2.99-standin (openssl)\n', b''
    if args.mode == 'list-transforms':
        return 0, ('Registered transform klasses:\n' +
                   ','.join('"%s"' % t for t in TRANSFORM_NAMES) + '\n').encode(), b''
    if GATE is not None:
        GATE(info)
    fault = _fault_for(args.mode, info)
    info['fault'] = fault
    rc, out, err, output = 0, b'', b'', None
    try:
        if fault == 'ExitError':
            raise ToolError('injected failure')
        if fault == 'KilledBySignal':
            info['out'] = 'KILLED'
            _log(info)
            return -9, b'', b''
        if args.mode == 'verify':
            ok = do_verify(args, info)
            info['out'] = 'OK' if ok else 'FAIL'
            if fault in FAULT_TEXT:
                # the run does not genuinely report success
                info['out'] = 'FAULT'
                err = FAULT_TEXT[fault] if isinstance(FAULT_TEXT[fault], bytes) else FAULT_TEXT[fault].encode('utf-8', 'replace')
                rc = 0 if fault.startswith('OkInsideText') or fault == 'UndecodableAroundOk2' else 1
            elif ok:
                err = b'OK\nSignedInfo References (ok/all): 1/1\nManifests References (ok/all): 0/0\n'
            else:
                err = b'FAIL\nSignedInfo References (ok/all): 0/1\nManifests References (ok/all): 0/0\nError: failed to verify file\n'
                rc = 1
        elif args.mode in ('sign', 'encrypt', 'decrypt'):
            if args.mode == 'sign':
                output = with_declaration(do_sign(args, info))
            elif args.mode == 'encrypt':
                output = with_declaration(do_encrypt(args, info))
            else:
                output = with_declaration(do_decrypt(args, info))
            info['out'] = 'DONE'
            if fault in ('NoOutputFile', 'EmptyOutput'):
                output = None
                info['out'] = 'FAULT'
                rc = 1 if fault == 'NoOutputFile' else 0
            elif fault == 'Garbled':
                output = None
                info['out'] = 'FAULT'
                err = FAULT_TEXT['Garbled'].encode('utf-8', 'replace')
                rc = 1
            elif fault and fault.startswith('OkInsideText'):
                output = None
                info['out'] = 'FAULT'
                err = FAULT_TEXT[fault].encode()
        else:
            raise ToolError('no command')
    except ToolError as exc:
        info['out'] = 'ERR'
        info['err'] = str(exc)
        rc, err = 1, ('Error: %s\n' % exc).encode()
        output = None
    except Exception as exc:           # a crash of the model is an error exit, never success
        info['out'] = 'ERR'
        info['err'] = 'internal: %r' % (exc,)
        rc, err = 1, ('Error: internal %r\n' % (exc,)).encode()
        output = None
    if output is not None and args.output:
        with open(args.output, 'wb') as f:
            f.write(output)
    _log(info)
    return rc, out, err


class FakePopen(object):
    """In-process replacement for `subprocess.Popen` as used by saml2_tophat.sigver."""

    def __init__(self, com_list, stderr=None, stdout=None, **kwargs):
        binary = com_list[0]
        if not os.path.exists(binary) or not os.access(binary, os.X_OK):
            raise OSError(2, 'No such file or directory', binary)
        self._res = run(list(com_list[1:]))
        self.returncode = None

    def communicate(self, *a, **kw):
        self.returncode = self._res[0]
        return self._res[1], self._res[2]

    def wait(self):
        self.returncode = self._res[0]
        return self.returncode


def main():
    rc, out, err = run(sys.argv[1:])
    if rc < 0:
        import signal
        os.kill(os.getpid(), signal.SIGKILL)
    sys.stdout.buffer.write(out)
    sys.stderr.buffer.write(err)
    sys.exit(rc)


if __name__ == '__main__':
    main()
