"""Growth beyond the listed properties: NameIDPolicy / ForceAuthn of an AuthnRequest from arguments, configuration and defaults
(SPRequest.tla), built by a real Saml2Client and read back by a real Server."""
import json
import os
import sys
import urllib.parse

sys.path.insert(0, os.path.dirname(os.path.abspath(__file__)))
import env
import framework as fw
import sp_common as spc
import tlc

FMT = {'persistent': 'urn:oasis:names:tc:SAML:2.0:nameid-format:persistent', 'transient': 'urn:oasis:names:tc:SAML:2.0:nameid-format:transient',
       'email': 'urn:oasis:names:tc:SAML:1.1:nameid-format:emailAddress'}
FMT_REV = dict((v, k) for k, v in FMT.items())
_SP = {}


def client(scn):
    key = (scn['cfgFmt'], scn['cfgCreate'], scn['cfgForce'])
    if key not in _SP:
        kw = {}
        if scn['cfgFmt'] != 'unset':
            kw['name_id_format'] = {'persistent': FMT['persistent'], 'list_email_first': [FMT['email'], FMT['persistent']], 'None': 'None'}[scn['cfgFmt']]
        if scn['cfgCreate'] != 'unset':
            kw['name_id_format_allow_create'] = scn['cfgCreate'] == 'true'
        if scn['cfgForce'] != 'unset':
            kw['force_authn'] = scn['cfgForce'] == 'true'
        _SP[key] = env.make_sp(env.sp_config(**kw))
    return _SP[key]


def replay(case):
    scn = case['scn']
    sp = client(scn)
    idp = spc.idp_for()
    kw = {}
    if scn['argFmt'] != 'unset':
        kw['nameid_format'] = '' if scn['argFmt'] == 'empty' else FMT[scn['argFmt']]
    if scn['argCreate'] != 'unset':
        kw['allow_create'] = {'true': 'true', 'false': 'false', 'pyTrue': True, 'pyFalse': False}[scn['argCreate']]
    if scn['argForce'] != 'unset':
        kw['force_authn'] = {'true': 'true', 'false': 'false', 'pyTrue': True, 'pyFalse': False}[scn['argForce']]
    try:
        reqid, req = sp.create_authn_request(env.IDP1_SSO, **kw)
        info = sp.apply_binding(env.BINDING_REDIRECT, str(req), env.IDP1_SSO)
        enc = dict(urllib.parse.parse_qsl(urllib.parse.urlsplit(dict(info['headers'])['Location']).query))['SAMLRequest']
    except Exception as exc:
        return {'built': False, 'exc': '%s: %s' % (type(exc).__name__, str(exc)[:100])}
    out = {'built': True}
    m = req
    pol = m.name_id_policy
    out['written'] = {'policy': 'present' if pol is not None else 'absent',
                      'format': 'absent' if pol is None or pol.format is None else FMT_REV.get(pol.format, pol.format),
                      'create': 'absent' if pol is None or pol.allow_create is None else str(pol.allow_create),
                      'force': 'absent' if m.force_authn is None else str(m.force_authn)}
    try:
        got = idp.parse_authn_request(enc, env.BINDING_REDIRECT)
        gm = got.message
        gp = gm.name_id_policy
        out['read'] = {'policy': 'present' if gp is not None else 'absent',
                       'format': 'absent' if gp is None or gp.format is None else FMT_REV.get(gp.format, gp.format),
                       'create': 'absent' if gp is None or gp.allow_create is None else str(gp.allow_create),
                       'force': 'absent' if gm.force_authn is None else str(gm.force_authn)}
    except Exception as exc:
        out['read'] = 'refused: %s' % type(exc).__name__
    return out


def main():
    t0 = __import__('time').time()
    out = {'spec': 'SPRequest.tla', 'runs': []}
    cases = []
    for cfg, expect in (('SPRequest_holds.cfg', None), ('SPRequest_force.cfg', None), ('SPRequest_create.cfg', 'PythonBooleansWork')):
        r = tlc.run('SPRequest.tla', cfg, timeout=600, coverage=False)
        out['runs'].append({'cfg': cfg, 'states': r.states, 'violated': r.violated, 'expected': expect})
        if r.violated != expect:
            raise fw.Machinery('%s: expected %s, TLC says %s' % (cfg, expect, r.violated))
        if cfg == 'SPRequest_holds.cfg':
            cases = r.cases
    bad = 0
    refused = 0
    for case, res, err in fw.pmap(replay, cases, init=spc.init_worker, chunk=32):
        if err:
            raise fw.Machinery(err)
        problem = None
        if not res['built']:
            if case['model']['policy'] != 'unbuildable':
                problem = 'request not built: %s' % res['exc']
        elif case['model']['policy'] == 'unbuildable':
            problem = 'request built although the model of the code says it cannot be serialised'
        elif res['written'] != case['model']:
            problem = 'written %s, the transcribed procedure gives %s' % (json.dumps(res['written']), json.dumps(case['model']))
        elif isinstance(res['read'], str):
            refused += 1
            problem = 'the IdP refuses a request whose values are all legal: %s' % res['read']
        elif res['read'] != res['written']:
            problem = 'the IdP reads %s, the SP wrote %s' % (json.dumps(res['read']), json.dumps(res['written']))
        if problem:
            bad += 1
            if bad <= 10:
                print('SPREQUEST-DIVERGENCE %s: %s' % (json.dumps(case['scn']), problem))
    out.update(cases=len(cases), divergences=bad, refused_by_idp=refused, wall_s=round(__import__('time').time() - t0, 1))
    env.dump_json(os.path.join(env.WORK, 'growth-SPREQUEST.json'), out)
    print('SPREQUEST (growth, not a listed property): %d cases replayed, %d divergences, %d refused by the IdP; holds=%s, known not to hold=%s'
          % (len(cases), bad, refused, ['ArgumentWins', 'ForceRule'], ['PythonBooleansWork']))
    return 1 if bad else 0


if __name__ == '__main__':
    fw.main_wrapper(main)
