"""Extract the schema class tables of saml2_tophat (current working tree) as JSON for Schema.tla:
every SamlBase subclass exported by a schema module (a module with ELEMENT_FROM_STRING)."""
import importlib
import json
import os
import pkgutil
import sys

sys.path.insert(0, os.path.dirname(os.path.abspath(__file__)))
import env  # noqa: F401
import saml2_tophat
from saml2_tophat import SamlBase


def schema_modules():
    mods = []
    for info in pkgutil.walk_packages(saml2_tophat.__path__, 'saml2_tophat.'):
        name = info.name
        if any(part in name for part in ('s2repoze', 'mongo', 'mdbcache', 'mcache', 'tools', 'userinfo', 'attributemaps',
                                          'entity_category', 'cryptography')):
            continue
        try:
            m = importlib.import_module(name)
        except Exception:
            continue
        if hasattr(m, 'ELEMENT_FROM_STRING') and hasattr(m, 'ELEMENT_BY_TAG'):
            mods.append(m)
    return mods


def class_id(cls):
    return '%s.%s' % (cls.__module__.replace('saml2_tophat.', ''), cls.__name__)


def extract():
    table = {}
    mods = schema_modules()
    for m in mods:
        for name in dir(m):
            cls = getattr(m, name)
            if not (isinstance(cls, type) and issubclass(cls, SamlBase) and cls is not SamlBase):
                continue
            if cls.__module__ != m.__name__:
                continue
            if not getattr(cls, 'c_tag', None) or getattr(cls, 'c_namespace', None) is None:
                continue
            children = []
            for key, val in cls.c_children.items():
                member, target = val
                is_list = isinstance(target, list)
                tcls = target[0] if is_list else target
                card = cls.c_cardinality.get(member, {})
                children.append({'key': key, 'member': member, 'cls': class_id(tcls) if isinstance(tcls, type) else 'None',
                                 'list': is_list, 'min': card.get('min', -1), 'max': card.get('max', -1)})
            attrs = []
            for xmlname, val in cls.c_attributes.items():
                member, typ, required = val
                enum = []
                base = ''
                if isinstance(typ, type):
                    vt = typ.c_value_type or {}
                    enum = [str(x) for x in vt.get('enumeration', [])]
                    base = str(vt.get('base', ''))
                    if base == 'list':
                        base = 'list:' + str(vt.get('member', ''))
                    typ = typ.__name__
                attrs.append({'xml': xmlname, 'member': member, 'type': str(typ), 'required': bool(required),
                              'enum': enum, 'base': base, 'qualified': xmlname.startswith('{')})
            table[class_id(cls)] = {
                'module': m.__name__.replace('saml2_tophat.', ''), 'name': cls.__name__, 'tag': cls.c_tag, 'ns': cls.c_namespace,
                'children': sorted(children, key=lambda c: c['member']), 'attributes': sorted(attrs, key=lambda a: a['xml']),
                'order': list(cls.c_child_order), 'value_type': json.dumps(cls.c_value_type, sort_keys=True, default=str) if cls.c_value_type else 'none',
                'any': cls.c_any is not None, 'any_attribute': cls.c_any_attribute is not None,
                'by_tag': getattr(m, 'ELEMENT_BY_TAG', {}).get(cls.c_tag) is cls,
                'from_string': cls.c_tag in getattr(m, 'ELEMENT_FROM_STRING', {}),
                'custom_verify': cls.verify is not SamlBase.verify,
                'text_enum': [str(x) for x in (cls.c_value_type or {}).get('enumeration', [])],
                'text_base': str((cls.c_value_type or {}).get('base', '')),
            }
    return table


if __name__ == '__main__':
    t = extract()
    out = sys.argv[1] if len(sys.argv) > 1 else os.path.join(env.WORK, 'classes.json')
    os.makedirs(os.path.dirname(out), exist_ok=True)
    with open(out, 'w') as f:
        json.dump(t, f, indent=0, sort_keys=True)
    print(len(t), 'classes from', len(set(v['module'] for v in t.values())), 'modules ->', out)
