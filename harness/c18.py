"""C18 -- name-identifier database: IdentDB.tla bound to saml2_tophat.ident.IdentDB
(dict- and shelve-backed), plus NameIdCode.tla for the storage-key encoding."""
import json
import os
import random
import shutil
import sys

sys.path.insert(0, os.path.dirname(os.path.abspath(__file__)))
import env
import framework as fw
import tlc

WORKDIR = os.path.join(env.WORK, 'C18')
FMT = {'persistent': 'urn:oasis:names:tc:SAML:2.0:nameid-format:persistent',
       'transient': 'urn:oasis:names:tc:SAML:2.0:nameid-format:transient',
       'email': 'urn:oasis:names:tc:SAML:1.1:nameid-format:emailAddress'}
FMT_REV = dict((v, k) for k, v in FMT.items())
SPQ = {'s1': 'urn:verif:sp', 's2': 'urn:verif:sp2', 's3': 'https://sp3.example/md?x=1,y=2 z'}
SPQ_REV = dict((v, k) for k, v in SPQ.items())
SPQ[''] = None
SPQ_REV[None] = ''
USERS = {'u1': 'alice', 'u2': 'bob', 'u3': 'carol@example.org'}
USERS_REV = dict((v, k) for k, v in USERS.items())
NQ = {'q': 'urn:verif:idp1', '': ''}
NQ_REV = {'urn:verif:idp1': 'q', '': '', None: ''}


class Subject(object):
    def __init__(self, backend, tag):
        from saml2_tophat.ident import IdentDB
        self.path = None
        if backend == 'dict':
            self.db = IdentDB({}, domain='verif.example', name_qualifier=NQ['q'])
        else:
            os.makedirs(WORKDIR, exist_ok=True)
            self.path = os.path.join(WORKDIR, 'ident-%s-%d' % (tag, os.getpid()))
            self.cleanup()
            self.db = IdentDB(self.path, domain='verif.example', name_qualifier=NQ['q'])
        self.tok = {}        # text -> token
        self.text = {}       # token -> text
        self.next = 1

    def cleanup(self):
        if self.path:
            for suf in ('', '.dat', '.dir', '.bak', '.db'):
                try:
                    os.unlink(self.path + suf)
                except OSError:
                    pass

    def close(self):
        try:
            self.db.close()
        except Exception:
            pass
        self.cleanup()

    # ---- abstract <-> concrete
    def nameid(self, rec):
        from saml2_tophat.saml import NameID
        if rec['tok'] in self.text:
            text = self.text[rec['tok']]
        else:
            text = 'never-issued-%s' % rec['tok']
        return NameID(text=text, format=FMT[rec['fmt']], sp_name_qualifier=SPQ[rec['sp']],
                      name_qualifier=NQ[rec['nq']] or None, sp_provided_id=rec['spid'] or None)

    def rec(self, nid):
        text = nid.text
        new = text not in self.tok
        if new:
            self.tok[text] = self.next
            self.text[self.next] = text
            self.next += 1
        return {'tok': self.tok[text], 'fmt': FMT_REV.get(nid.format, nid.format),
                'sp': SPQ_REV.get(nid.sp_name_qualifier, nid.sp_name_qualifier or ''),
                'nq': NQ_REV.get(nid.name_qualifier, nid.name_qualifier),
                'spid': nid.sp_provided_id or ''}, new

    def build(self, pre):
        """construct the abstract state `pre` through the public store()"""
        from saml2_tophat.saml import NameID
        self.next = pre['fresh']
        for u in sorted(pre['fwd']):
            for r in pre['fwd'][u]:
                text = 'tok-%d' % r['tok'] + ('@verif.example' if r['fmt'] == 'email' else '')
                self.tok[text] = r['tok']
                self.text[r['tok']] = text
                self.db.store(USERS[u], self.nameid(r))

    def project(self, users):
        from saml2_tophat.saml import NameID
        fwd = {}
        for u in users:
            recs = []
            for nid in self.db.find_nameid(USERS[u]):
                if not nid.text:
                    continue            # ghost entry left by the removal of the last identifier
                recs.append(self.rec(nid)[0])
            fwd[u] = sorted(recs, key=lambda r: json.dumps(r, sort_keys=True))
        rev = {}
        for text, tok in sorted(self.tok.items()):
            owner = self.db.find_local_id(NameID(text=text))
            rev[tok] = USERS_REV.get(owner, owner) if owner is not None else 'nobody'
        return {'fwd': fwd, 'rev': rev}

    # ---- one operation -> observed result
    def do(self, op):
        from saml2_tophat import samlp
        from saml2_tophat.saml import NameID
        from saml2_tophat.s_utils import PolicyError
        name, a = op['op'], op.get('args', {})
        if name in ('RemoveRemote', 'Manage', 'Mapping', 'FindLocalUnknown') and a.get('n', {}).get('tok') == 0:
            nid = self.nameid(a['n'])
            try:
                if name == 'RemoveRemote':
                    self.db.remove_remote(nid)
                elif name == 'Manage':
                    self.db.handle_manage_name_id_request(nid, new_id=samlp.NewID(text='p1'))
                elif name == 'Mapping':
                    self.db.handle_name_id_mapping_request(nid, samlp.NameIDPolicy(
                        format=FMT['persistent'], sp_name_qualifier=SPQ['s1'], allow_create='true'))
                else:
                    self.db.find_local_id(nid)
            except Exception:
                pass
            return {'r': 'any'}
        if name == 'Persistent':
            n, new = self.rec(self.db.persistent_nameid(USERS[a['u']], SPQ[a['sp']], NQ[a['nq']]))
            return {'r': 'nameid', 'n': n, 'new': new}
        if name == 'Transient':
            n, new = self.rec(self.db.transient_nameid(USERS[a['u']], SPQ[a['sp']], NQ[a['nq']]))
            return {'r': 'nameid', 'n': n, 'new': new}
        if name == 'Construct':
            pol = samlp.NameIDPolicy(format=FMT[a['fmt']], sp_name_qualifier=SPQ[a['sp']])
            n, new = self.rec(self.db.construct_nameid(USERS[a['u']], None, SPQ[a['sp']], pol))
            return {'r': 'nameid', 'n': n, 'new': new}
        if name == 'FindLocal':
            text = self.text.get(a['tok'], 'never-issued-%s' % a['tok'])
            owner = self.db.find_local_id(NameID(text=text))
            return {'r': 'user', 'u': USERS_REV.get(owner, owner) if owner is not None else 'nobody'}
        if name == 'FindNameid':
            kw = {}
            if a['sp']:
                kw['sp_name_qualifier'] = SPQ[a['sp']]
            if a['fmt']:
                kw['format'] = FMT[a['fmt']]
            ns = [self.rec(x)[0] for x in self.db.find_nameid(USERS[a['u']], **kw) if x.text]
            return {'r': 'nameids', 'ns': ns}
        if name == 'RemoveRemote':
            self.db.remove_remote(self.nameid(a['n']))
            return {'r': 'ok'}
        if name == 'RemoveRemoteStale':
            try:
                self.db.remove_remote(self.nameid(a['n']))
            except Exception:
                pass
            return {'r': 'any'}
        if name == 'Manage':
            nid = self.nameid(a['n'])
            if a['spid']:
                out = self.db.handle_manage_name_id_request(nid, new_id=samlp.NewID(text=a['spid']))
            else:
                out = self.db.handle_manage_name_id_request(nid, terminate=samlp.Terminate())
            n, new = self.rec(out)
            return {'r': 'nameid', 'n': n, 'new': new}
        if name == 'Mapping':
            pol = samlp.NameIDPolicy(format=FMT[a['fmt']], sp_name_qualifier=SPQ[a['sp']],
                                     allow_create='true' if a['allow'] else 'false')
            try:
                n, new = self.rec(self.db.handle_name_id_mapping_request(self.nameid(a['n']), pol))
            except PolicyError:
                return {'r': 'PolicyError'}
            return {'r': 'nameid', 'n': n, 'new': new}
        if name == 'RemoveLocal':
            try:
                self.db.remove_local(USERS[a['u']])
            except Exception:
                return {'r': 'failed'}
            return {'r': 'ok'}
        raise fw.Machinery('unknown op %r' % (op,))


def norm_ret(r):
    r = dict(r)
    r.pop('amb', None)
    if 'ns' in r:
        r['ns'] = sorted(r['ns'], key=lambda x: json.dumps(x, sort_keys=True))
    return r


def norm_state(st, users):
    fwd = dict((u, sorted(st['fwd'][u], key=lambda r: json.dumps(r, sort_keys=True))) for u in users)
    rev = st['rev']
    if isinstance(rev, list):
        rev = dict((k + 1, v) for k, v in enumerate(rev))
    return {'fwd': fwd, 'rev': dict((int(k), v) for k, v in rev.items())}


BACKENDS = ('dict', 'shelve')


def replay_group(group):
    """all TLC transitions with the same pre-state, operation and arguments: the observed
    (result, state after) must be one of the outcomes the specification allows"""
    problems = []
    pre, op, outcomes = group['pre'], group['op'], group['outcomes']
    users = sorted(pre['fwd'])
    for backend in group.get('backends', BACKENDS):
        sub = Subject(backend, 'e')
        try:
            sub.build(pre)
            try:
                got = sub.do(op)
            except Exception as exc:
                got = {'r': 'exception', 'type': type(exc).__name__, 'text': str(exc)[:200]}
            post = sub.project(users)
            ok = False
            for o in outcomes:
                exp_post = norm_state(o['post'], users)
                toks = set(exp_post['rev']) | set(post['rev'])
                same_state = (post['fwd'] == exp_post['fwd'] and
                              all(post['rev'].get(t, 'nobody') == exp_post['rev'].get(t, 'nobody') for t in toks))
                same_ret = o['ret']['r'] == 'any' or norm_ret(o['ret']) == norm_ret(got)
                if same_state and same_ret:
                    ok = True
            if not ok:
                problems.append({'backend': backend, 'observed_ret': got, 'observed_state': post,
                                 'allowed': outcomes})
        finally:
            sub.close()
    return problems


def replay_behaviour(case):
    problems = []
    for backend in BACKENDS:
        sub = Subject(backend, 'b')
        try:
            for k, op in enumerate(case['hist']):
                if op['op'] == 'End':
                    break
                try:
                    got = sub.do(op)
                except Exception as exc:
                    got = {'r': 'exception', 'type': type(exc).__name__, 'text': str(exc)[:200]}
                if op['ret']['r'] != 'any' and norm_ret(got) != norm_ret(op['ret']):
                    if op['ret'].get('amb'):
                        break       # the specification allows several outcomes here: end of the comparable prefix
                    problems.append({'backend': backend, 'step': k, 'op': op, 'observed': got})
                    break
        finally:
            sub.close()
    return problems


def record_trace(args):
    seed, length, backend = args
    rng = random.Random(seed)
    sub = Subject(backend, 't')
    users, sps, fmts = ['u1', 'u2', 'u3'], ['s1', 's2', 's3'], ['persistent', 'transient', 'email']
    events = []
    issued = []          # records seen (possibly withdrawn / superseded)
    try:
        for _ in range(length):
            x = rng.random()
            u, s, f = rng.choice(users), rng.choice(sps), rng.choice(fmts)
            cur = []
            for uu in users:
                cur.extend(self_rec for self_rec in sub.project([uu])['fwd'][uu])
            if x < 0.2:
                op = {'op': 'Persistent', 'args': {'u': u, 'sp': s, 'nq': rng.choice(['q', 'q', ''])}}
            elif x < 0.3:
                op = {'op': 'Transient', 'args': {'u': u, 'sp': s, 'nq': rng.choice(['q', ''])}}
            elif x < 0.4:
                op = {'op': 'Construct', 'args': {'u': u, 'sp': s, 'fmt': f}}
            elif x < 0.5:
                op = {'op': 'FindLocal', 'args': {'tok': rng.randint(0, max(1, sub.next - 1))}}
            elif x < 0.6:
                op = {'op': 'FindNameid', 'args': {'u': u, 'sp': rng.choice([s, '']), 'fmt': rng.choice([f, ''])}}
            elif x < 0.66 and cur:
                op = {'op': 'RemoveRemote', 'args': {'n': rng.choice(cur)}}
            elif x < 0.7 and cur:
                n0 = dict(rng.choice(cur))
                other = [p for p in ('', 'p1', 'p2') if p != n0['spid']]
                n0['spid'] = rng.choice(other)
                op = {'op': 'RemoveRemoteStale', 'args': {'n': n0}}
            elif x < 0.8 and cur:
                op = {'op': 'Manage', 'args': {'n': rng.choice(cur), 'spid': rng.choice(['p1', 'p2', ''])}}
            elif x < 0.9 and cur:
                op = {'op': 'Mapping', 'args': {'n': rng.choice(cur), 'fmt': f, 'sp': rng.choice([s, s, '']), 'allow': rng.random() < 0.6}}
            elif x < 0.94:
                op = {'op': 'RemoveLocal', 'args': {'u': u}}
            else:
                op = {'op': rng.choice(['RemoveRemote', 'Manage', 'Mapping', 'FindLocalUnknown']),
                      'args': {'n': {'tok': 0, 'fmt': 'persistent', 'sp': 's1', 'nq': 'q', 'spid': ''}}}
            try:
                ret = sub.do(op)
            except Exception as exc:
                ret = {'r': 'exception:%s' % type(exc).__name__}
            op['ret'] = ret
            # full observable state after the call: lets TLC compare states, not only results
            st = sub.project(users)
            op['fwd'] = st['fwd']
            op['rev'] = [[t, st['rev'][t]] for t in sorted(st['rev'])]
            events.append(op)
    finally:
        sub.close()
    return events


def _init():
    pass


def main():
    chk = fw.Check('C18', 'model_checking')
    thorough = chk.tier == 'thorough'
    shutil.rmtree(WORKDIR, ignore_errors=True)
    os.makedirs(WORKDIR, exist_ok=True)

    # 0. deeper exhaustive run of the design (no emission)
    if thorough:
        res = tlc.run('IdentDBMC.tla', 'IdentDB_deep.cfg', timeout=3000)
        chk.add_tlc(res, 'IdentDB_deep.cfg')
        if res.violated:
            raise fw.Machinery('IdentDB.tla violates its own contract: %s\n%s' % (res.violated, res.text[-2000:]))

    # 1. exhaustive + transitions
    res = tlc.run('IdentDBMC.tla', 'IdentDB_quick.cfg', timeout=3000)
    chk.add_tlc(res, 'IdentDB_quick.cfg')
    if res.violated:
        raise fw.Machinery('IdentDB.tla violates its own contract: %s\n%s' % (res.violated, res.text[-2000:]))
    groups = {}
    for e in res.cases:
        key = json.dumps([e['pre'], e['op']['op'], e['op'].get('args')], sort_keys=True)
        g = groups.setdefault(key, {'pre': e['pre'], 'op': {'op': e['op']['op'], 'args': e['op'].get('args', {})},
                                    'outcomes': []})
        g['outcomes'].append({'ret': e['op']['ret'], 'post': e['post']})
    jobs = list(groups.values())
    if not thorough:
        for k, g in enumerate(jobs):
            if k % 4:
                g['backends'] = ('dict',)
    chk.sample({'kind': 'transition group', 'case': jobs[len(jobs) // 3]})
    for case, problems, err in fw.pmap(replay_group, jobs, init=_init, chunk=64):
        if err:
            raise fw.Machinery(err)
        chk.count({'pre': case['pre'], 'op': case['op']})
        for p in problems:
            chk.violation({'kind': 'edge', 'op': case['op']['op'], 'args': case['op']['args'], 'pre': case['pre']},
                          'IdentDB (%s): %s from a constructed state gives a result/state the specification does not allow'
                          % (p['backend'], case['op']['op']), {'group': case, 'problem': p})

    # 2. simulator behaviours
    num = 300 if thorough else 40
    res = tlc.run('IdentDBSim.tla', 'IdentDB_sim.cfg', simulate='num=%d' % num, depth=60, seed=chk.seed + 1,
                  timeout=1800)
    chk.add_tlc(res, 'IdentDB_sim.cfg (simulate)')
    chk.sample({'kind': 'behaviour', 'first_steps': res.cases[0][:3]})
    for case, problems, err in fw.pmap(replay_behaviour, [{'hist': h} for h in res.cases[:num * 16]], init=_init, chunk=8):
        if err:
            raise fw.Machinery(err)
        chk.count({'hist': case['hist']})
        for p in problems:
            chk.violation({'kind': 'behaviour', 'op': p['op']['op'], 'step': p['step']},
                          'IdentDB (%s): behaviour step %d (%s) differs from the specification'
                          % (p['backend'], p['step'], p['op']['op']), {'case': case, 'problem': p})

    # 3. recorded executions -> TLC
    ntr, length = (1200, 80) if thorough else (120, 50)
    jobs = [(chk.seed * 100000 + k, length, BACKENDS[k % 2]) for k in range(ntr)]
    traces = []
    for case, events, err in fw.pmap(record_trace, jobs, init=_init, chunk=8):
        if err:
            raise fw.Machinery(err)
        traces.append((case, events))
    traces.sort(key=lambda x: x[0][0])
    tfile = os.path.join(WORKDIR, 'traces.json')
    with open(tfile, 'w') as f:
        json.dump([t[1] for t in traces], f)
    res = tlc.run('IdentDBTrace.tla', 'IdentDBTrace.cfg', workers=1, env={'TRACE_FILE': tfile}, timeout=3000,
                  coverage=False)
    chk.add_tlc(res, 'IdentDBTrace.cfg')
    chk.sample({'kind': 'recorded trace', 'first_events': [dict((k, v) for k, v in e.items() if k not in ('fwd', 'rev'))
                                                           for e in traces[0][1][:4]]})
    rejected = {}
    for tag, payload in res.prints:
        if tag == 'REJECTED':
            j = json.loads(payload)
            rejected[j['trace']] = j
    for case, events in traces:
        chk.count({'trace': [(e['op'], e.get('args')) for e in events]})
    if res.violated and not rejected and res.violated != 'postcondition':
        chk.violation({'kind': 'trace-invariant', 'invariant': res.violated},
                      'recorded execution violates %s' % res.violated, {'tlc': res.text[-4000:]})
    for t, j in sorted(rejected.items()):
        case, events = traces[t - 1]
        nxt = j['next']
        chk.violation({'kind': 'trace', 'op': nxt.get('op'), 'backend': case[2]},
                      'recorded execution of IdentDB (%s) is not a behaviour of the specification: event %d (%s %s) observed %s'
                      % (case[2], j['matched'] + 1, nxt.get('op'), json.dumps(nxt.get('args')), json.dumps(nxt.get('ret'))),
                      {'seed': case[0], 'backend': case[2], 'events': events, 'first_unmatched': j['matched'] + 1})

    # 4. storage-key encoding
    import c18_code
    c18_code.run(chk, thorough)

    chk.cov['rule'] = ('transitions of the exhaustive TLC run grouped by (pre-state, operation, arguments) and executed on '
                      'the real IdentDB (dict and shelve) from a constructed state; simulator behaviours; recorded random '
                      'executions validated by TLC (result and full projected state after every call); code/decode '
                      'cases enumerated by TLC over a separator alphabet')
    chk.cov['exhaustive'] = True
    chk.assumptions = ['random identifier texts are mapped to tokens by first appearance (isomorphism, not equality)',
                       'entries without text (the empty string left after the last identifier of a user was removed) '
                       'are not name identifiers and are dropped by the projection']
    shutil.rmtree(WORKDIR, ignore_errors=True)
    return chk.finish()


def replay(path):
    j = json.load(open(path))
    d = j['detail']
    if 'group' in d:
        print(json.dumps(replay_group(d['group']), indent=1))
    elif 'case' in d:
        print(json.dumps(replay_behaviour(d['case']), indent=1))
    else:
        print(json.dumps(d, indent=1)[:6000])
    return 0


if __name__ == '__main__':
    if len(sys.argv) > 2 and sys.argv[1] == '--replay':
        fw.main_wrapper(lambda: replay(sys.argv[2]))
    fw.main_wrapper(main)
