"""Growth beyond the listed properties: the IdP's record of issued assertions (sdb.SessionStorage behind the Server)
against IdPSessions.tla -- every transition TLC explored is executed on a real Server from a constructed pre-state."""
import json
import os
import sys
import xml.etree.ElementTree as ET

sys.path.insert(0, os.path.dirname(os.path.abspath(__file__)))
import env
import framework as fw
import samlbuild as sb
import sp_common as spc
import tlc


class World(object):
    def __init__(self):
        from saml2_tophat.saml import NameID, NAMEID_FORMAT_PERSISTENT
        self.idp = env.make_idp(env.idp_config())
        self.nid = dict((u, NameID(format=NAMEID_FORMAT_PERSISTENT, text='subject-' + u, sp_name_qualifier=env.SP,
                                   name_qualifier=env.IDP1)) for u in ('u1', 'u2'))
        for u, n in self.nid.items():
            self.idp.ident.store(u, n)
        self.logins = []         # (assertion id, session index) per login number

    def login(self, u):
        resp = self.idp.create_authn_response({'givenName': ['given-' + u]}, 'id-%d' % (len(self.logins) + 1), env.SP_ACS_POST, env.SP,
                                              name_id=self.nid[u], authn={'class_ref': sb.PASSWORD, 'authn_auth': 'x'})
        root = ET.fromstring(str(resp).encode('utf-8'))
        a = root.find('{%s}Assertion' % sb.NS_SAML)
        st = a.find('{%s}AuthnStatement' % sb.NS_SAML)
        self.logins.append((a.get('ID'), st.get('SessionIndex')))

    def clean_out(self, u):
        self.idp.clean_out_user(self.nid[u])

    def by_id(self, n):
        from saml2_tophat.s_utils import Unknown
        aid = self.logins[n - 1][0] if n <= len(self.logins) else 'id-never-issued'
        try:
            a = self.idp.create_assertion_id_request_response(aid)
        except Unknown:
            return {'r': 'Unknown'}
        text = a.subject.name_id.text
        return {'r': 'assertion', 'user': text.replace('subject-', ''), 'n': [k + 1 for k, (i, _) in enumerate(self.logins) if i == a.id][0]}

    def query(self, u, by):
        from saml2_tophat.saml import Subject
        si = None
        if by:
            si = self.logins[by - 1][1] if by <= len(self.logins) else 'session-never-issued'
        try:
            resp = self.idp.create_authn_query_response(Subject(name_id=self.nid[u]), session_index=si)
        except AttributeError:
            return {'r': 'error'}
        root = ET.fromstring(str(resp).encode('utf-8'))
        found = [st.get('SessionIndex') for st in root.iter('{%s}AuthnStatement' % sb.NS_SAML)]
        back = dict((s, k + 1) for k, (_, s) in enumerate(self.logins))
        return {'r': 'statements', 'v': [back.get(s, 0) for s in found]}


def replay(case):
    w = World()
    issued, authn = case['issued'], case['authn']
    for i, rec in enumerate(issued, 1):
        u = rec['user']
        w.login(u)
        later = [j for j in range(i + 1, len(issued) + 1) if issued[j - 1]['user'] == u]
        if i not in authn[u] and (not later or later[0] in authn[u]):
            w.clean_out(u)
    step = case['step']
    op = step['op']
    try:
        if op == 'Login':
            w.login(step['user'])
            got = w.query(step['user'], 0)
            want = {'r': 'statements', 'v': list(authn[step['user']]) + [step['n']]}
            return {'ok': got == want, 'observed': got, 'expected': want}
        if op == 'CleanOut':
            w.clean_out(step['user'])
            got = w.query(step['user'], 0)
            return {'ok': got == {'r': 'statements', 'v': []}, 'observed': got, 'expected': 'nothing left'}
        if op == 'ById':
            got = w.by_id(step['n'])
        else:
            got = w.query(step['user'], step['by'])
        return {'ok': got == step['ret'], 'observed': got, 'expected': step['ret']}
    except Exception as exc:
        return {'ok': False, 'observed': 'exception %s: %s' % (type(exc).__name__, str(exc)[:120]), 'expected': step.get('ret')}


def main():
    t0 = __import__('time').time()
    out = {'spec': 'IdPSessions.tla', 'runs': []}
    for cfg, expect in (('IdPSessions_holds.cfg', None), ('IdPSessions_narrows.cfg', 'QueryNarrows'), ('IdPSessions_forgotten.cfg', 'ForgottenWithUser')):
        r = tlc.run('IdPSessions.tla', cfg, timeout=600, coverage=False)
        out['runs'].append({'cfg': cfg, 'states': r.states, 'violated': r.violated, 'expected': expect})
        if r.violated != expect:
            raise fw.Machinery('%s: expected %s, TLC says %s' % (cfg, expect, r.violated))
    r = tlc.run('IdPSessions.tla', 'IdPSessions_emit.cfg', timeout=600, coverage=False)
    seen, cases = set(), []
    for c in r.cases:
        k = json.dumps(c, sort_keys=True)
        if k not in seen:
            seen.add(k)
            cases.append(c)
    bad = 0
    for case, res, err in fw.pmap(replay, cases, init=spc.init_worker, chunk=16):
        if err:
            raise fw.Machinery(err)
        if not res['ok']:
            bad += 1
            if bad <= 10:
                print('IDPSESSIONS-DIVERGENCE after %s / kept %s, %s: observed %s, expected %s'
                      % (json.dumps([x['user'] for x in case['issued']]), json.dumps(case['authn']), json.dumps(case['step']),
                         json.dumps(res['observed']), json.dumps(res['expected'])))
    out['transitions'] = len(cases)
    out['divergences'] = bad
    out['wall_s'] = round(__import__('time').time() - t0, 1)
    env.dump_json(os.path.join(env.WORK, 'growth-IDPSESSIONS.json'), out)
    print('IDPSESSIONS (growth, not a listed property): %d transitions replayed, %d divergences; holds=%s, known not to hold=%s'
          % (len(cases), bad, ['ByIdExact', 'QueryIsolated', 'CleanOutComplete'], ['QueryNarrows', 'ForgottenWithUser']))
    return 1 if bad else 0


if __name__ == '__main__':
    fw.main_wrapper(main)
