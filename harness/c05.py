"""C05 -- addressing and solicitation: SPAddress.tla replayed into the real SP."""
import json
import os
import sys

sys.path.insert(0, os.path.dirname(os.path.abspath(__file__)))
import env
import framework as fw
import samlbuild as sb
import sp_common as spc
import tlc

REGEX = r'^https://sp\.verif\.example/acs/'
OUTSTANDING = {'id1': '/came/from/1', 'id2': '/came/from/2'}
AUD = {'me': env.SP, 'other': env.SP2, 'other2': 'urn:verif:sp3', 'meSlash': env.SP + '/', 'meUpper': env.SP.upper()}
RESTR = {'none': [], 'me': [['me']], 'other': [['other']], 'me_me': [['me'], ['me']], 'me_other': [['me'], ['other']],
         'other_other': [['other'], ['other2']], 'meAndOther': [['other', 'me']], 'meSlash': [['meSlash']], 'meUpper': [['meUpper']]}


SP_ACS_ART = 'https://sp.verif.example/acs/artifact'
BINDING_ART = 'urn:oasis:names:tc:SAML:2.0:bindings:HTTP-Artifact'


def urls(binding):
    own = {'post': env.SP_ACS_POST, 'redirect': env.SP_ACS_REDIRECT, 'artifact': SP_ACS_ART}[binding]
    other = env.SP_ACS_REDIRECT if binding == 'post' else env.SP_ACS_POST
    return {'own': own, 'url': own, 'otherBinding': other, 'patternOnly': 'https://sp.verif.example/acs/other',
            'foreign': 'https://evil.example/acs', 'entityid': env.SP, 'none': None}


def build(scn):
    u = urls(scn['binding'])
    a = spc.default_assertion(irt=None if scn['sirt'] == 'none' else scn['sirt'], recipient=u[scn['recip']],
                              audiences=[[AUD[x] for x in r] for r in RESTR[scn['aud']]])
    if scn.get('conf2', 'absent') != 'absent':
        second = dict(a['conf'][0], recipient=u['foreign'] if scn['conf2'] == 'foreign' else u['url'])
        if scn['conf2'] == 'otherIrt':
            second['irt'] = 'id2'
        a['conf'] = [second, a['conf'][0]] if scn['conf2first'] else [a['conf'][0], second]
    if scn.get('mtype') == 'attribute':
        a['authn'] = None
    w = scn.get('window', 'both')
    if w in ('none', 'nooaOnly'):
        a['cond']['nb'] = None
    if w in ('none', 'nbOnly'):
        a['cond']['nooa'] = None
    a_xml = sb.assertion(a)
    body = '<saml:EncryptedAssertion>%s</saml:EncryptedAssertion>' % a_xml if scn['enc'] else a_xml
    r = spc.default_response(irt=None if scn['irt'] == 'none' else scn['irt'], destination=u[scn['dest']])
    doc = sb.response(r, body)
    if scn['enc']:
        doc = sb.encrypt_element(doc, sb.xp('Response', 'EncryptedAssertion', 'Assertion'), 'kSpEnc1')
    return doc


def observe_attribute(sp, doc):
    """the answer to an attribute query, delivered in a SOAP envelope"""
    envl = ('<soapenv:Envelope xmlns:soapenv="http://schemas.xmlsoap.org/soap/envelope/"><soapenv:Body>%s</soapenv:Body>'
            '</soapenv:Envelope>' % doc)
    obs = {'verdict': 'reject', 'exc': None, 'calls': []}
    try:
        r = sp.parse_attribute_query_response(envl, env.BINDING_SOAP)
        if r is not None and getattr(r, 'ava', None):
            obs['verdict'] = 'accept'
            obs['ava'] = dict((k, list(v)) for k, v in r.ava.items())
    except Exception as exc:
        obs['exc'] = type(exc).__name__
        obs['msg'] = str(exc)[:200]
    return obs


def replay(case):
    scn = case['scn']
    kw = dict(want_response_signed=False, want_assertions_signed=False, want_assertions_or_response_signed=False,
              allow_unsolicited=scn['allow'])
    if scn['regex']:
        kw['valid_destination_regex'] = REGEX
    if scn.get('endpoint') == 'otherBindingOnly':
        other = (env.SP_ACS_REDIRECT, env.BINDING_REDIRECT) if scn['binding'] == 'post' else (env.SP_ACS_POST, env.BINDING_POST)
        kw['endpoints'] = {'assertion_consumer_service': [other]}
    if scn.get('endpoint') == 'triples':
        kw['endpoints'] = {'assertion_consumer_service': [(env.SP_ACS_POST, env.BINDING_POST, 1), (env.SP_ACS_REDIRECT, env.BINDING_REDIRECT, 2)]}
    if scn['binding'] == 'artifact':
        kw['endpoints'] = {'assertion_consumer_service': [(env.SP_ACS_POST, env.BINDING_POST), (env.SP_ACS_REDIRECT, env.BINDING_REDIRECT),
                                                          (SP_ACS_ART, BINDING_ART)]}
    sp = spc.sp_for(**kw)
    doc = build(scn)
    conv = {'entity_id': env.SP, 'remote_addr': '0.0.0.0', 'request_uri': '/acs'} if scn['conv'] else None
    if conv and scn.get('convKind') == 'noEntity':
        del conv['entity_id']
    binding = {'post': env.BINDING_POST, 'redirect': env.BINDING_REDIRECT, 'artifact': BINDING_ART}[scn['binding']]
    outstanding = dict((k, '/came/from/same') for k in OUTSTANDING) if scn.get('sameFrom') else dict(OUTSTANDING)
    if scn.get('mtype') == 'attribute':
        obs = observe_attribute(sp, doc)
    else:
        obs = spc.observe(sp, doc, binding, outstanding, conv_info=conv)
    obs['doc'] = doc
    return obs


def main():
    chk = fw.Check('C05', 'model_checking')
    thorough = chk.tier == 'thorough'
    res = tlc.run('SPAddress.tla', 'SPAddress_fixed.cfg', timeout=1200)
    chk.add_tlc(res, 'SPAddress_fixed.cfg')
    if res.violated:
        raise fw.Machinery('SPAddress.tla (repaired design) violates the contract: %s' % res.violated)
    pinned = tlc.run('SPAddress.tla', 'SPAddress_pinned.cfg', timeout=1200, coverage=False)
    chk.add_tlc(pinned, 'SPAddress_pinned.cfg (design as pinned: expected counterexample)')
    if pinned.violated != 'PipelineMeetsContract':
        raise fw.Machinery('vacuity control failed: the pinned design should violate the contract')
    cases = sorted(res.cases, key=lambda c: json.dumps(c['scn'], sort_keys=True))
    if not thorough:
        # every scenario of the plain/POST slice that the contract decides, a seeded sample of the rest
        keep = []
        for c in cases:
            s = c['scn']
            special = s['endpoint'] != 'configured' or s['binding'] == 'artifact' or s['conf2'] != 'absent' or s['sameFrom'] or s['mtype'] == 'attribute' or s['window'] != 'both' or s.get('convKind') == 'noEntity' or (s['aud'] in ('meSlash', 'meUpper') and not s['enc'] and s['binding'] == 'post')
            core = not s['enc'] and s['binding'] == 'post'
            decided = c['mustAccept'] or c['mustReject']
            # the small special slices entirely, half of the decided plain/POST product, a seeded sample of the rest
            if (special and decided) or (core and decided and chk.rng.random() < 0.5) or chk.rng.random() < 0.06:
                keep.append(c)
        cases = keep
    nacc = 0
    for case, obs, err in fw.pmap(replay, cases, init=spc.init_worker, chunk=32):
        if err:
            raise fw.Machinery(err)
        scn = case['scn']
        chk.count(scn, nontrivial=case['mustAccept'] or case['mustReject'])
        accepted = obs['verdict'] == 'accept'
        detail = {'case': case, 'observed': dict((k, v) for k, v in obs.items() if k not in ('doc', 'calls')), 'document': obs['doc']}
        if case['mustReject'] and accepted:
            chk.violation(scn, 'response accepted although not addressed to this SP / not solicited: %s' % json.dumps(scn, sort_keys=True), detail)
        elif case['mustAccept'] and not accepted:
            chk.violation(scn, 'conformant response rejected (%s %s): %s' % (obs.get('exc'), obs.get('msg', ''), json.dumps(scn, sort_keys=True)), detail)
        elif accepted and case['cameFrom'] != 'unspecified' and obs.get('came_from') != ('/came/from/same' if scn.get('sameFrom') else OUTSTANDING[case['cameFrom']]):
            chk.violation(scn, 'accepted response attributed to request %r instead of %r' % (obs.get('came_from'), OUTSTANDING[case['cameFrom']]), detail)
        elif (obs['verdict'] == 'accept') != (case['model']['verdict'] == 'accept'):
            chk.note('drift: SP says %s, pipeline model says %s for %s' % (obs['verdict'], case['model']['verdict'], json.dumps(scn, sort_keys=True)))
        nacc += accepted
        chk.sample({'scn': scn, 'expected': 'accept' if case['mustAccept'] else ('reject' if case['mustReject'] else 'open'),
                    'observed': obs['verdict'], 'exc': obs.get('exc')}, limit=5)
    if nacc == 0 and not chk.violations:
        raise fw.Machinery('no scenario was accepted: templates broken')
    chk.cov['exhaustive'] = thorough
    chk.cov['rule'] = ('scenarios of SPAddress.tla (InResponseTo x second bearer confirmation (own / foreign Recipient, either order) x InResponseTo x confirmation InResponseTo x Destination x audience '
                      'restrictions x Recipient x allow_unsolicited x conversation info x destination pattern x binding x '
                      'plain/encrypted); thorough replays all, quick half of the decided plain/POST slice plus a seeded 6% sample; '
                      'non-trivial = the contract demands acceptance or rejection')
    chk.assumptions = list(fw.TOOL_ASSUMPTIONS[:2]) + ['responses are unsigned (signature options off): addressing checks only']
    sb.cleanup()
    return chk.finish()


def do_replay(path):
    spc.init_worker()
    j = json.load(open(path))
    obs = replay(j['detail']['case'])
    print(json.dumps(dict((k, v) for k, v in obs.items() if k != 'doc'), indent=1))
    return 0


if __name__ == '__main__':
    if len(sys.argv) > 2 and sys.argv[1] == '--replay':
        fw.main_wrapper(lambda: do_replay(sys.argv[2]))
    fw.main_wrapper(main)
