"""C13 -- schema validation: Schema.tla (mode validate) variants -- every declared constraint of
every class violated in isolation inside an otherwise valid instance, at the root and nested
under each possible parent -- executed through validate.valid_instance."""
import json
import os
import sys

sys.path.insert(0, os.path.dirname(os.path.abspath(__file__)))
import env
import framework as fw
import tlc
import c12
from c12 import table, get_class, attr_value, CLASSES

WRONG = {
    ('dateTime', 'text'): 'yesterday', ('dateTime', 'badfields'): '2020-13-45T25:61:61Z',
    ('dateTime', 'trailing'): '2020-01-02T03:04:05Z and then some', ('dateTime', 'dateonly'): '2020-01-02',
    ('boolean', 'text'): 'maybe', ('integer', 'text'): 'seven', ('integer', 'fraction'): '1.5',
    ('nonNegativeInteger', 'text'): 'x', ('nonNegativeInteger', 'negative'): '-1',
    ('positiveInteger', 'text'): 'x', ('positiveInteger', 'zero'): '0',
    ('unsignedShort', 'text'): 'x', ('unsignedShort', 'negative'): '-1', ('unsignedShort', 'toobig'): '70000',
    ('unsignedByte', 'text'): 'x', ('unsignedByte', 'negative'): '-1', ('unsignedByte', 'toobig'): '256',
    ('unsignedInt', 'text'): 'x', ('unsignedInt', 'negative'): '-1', ('unsignedInt', 'toobig'): '4294967296',
    ('unsignedLong', 'text'): 'x', ('unsignedLong', 'negative'): '-1', ('unsignedLong', 'toobig'): '18446744073709551616',
    ('duration', 'text'): 'one hour',
}
WRONG.update({('duration', 'designator_only'): 'P', ('duration', 'designator_only_neg'): '-P'})
WRONG.update({('boolean', 'prefix'): 'tru', ('boolean', 'inner'): 'als', ('boolean', 'concat'): 'truefalse', ('boolean', 'digits'): '01'})
for _t in ('integer', 'nonNegativeInteger', 'positiveInteger', 'unsignedShort', 'unsignedByte', 'unsignedInt', 'unsignedLong'):
    WRONG[(_t, 'multisign')] = '+-12'
    WRONG[(_t, 'underscore')] = '1_0'
    WRONG[(_t, 'otherdigits')] = u'\u0661\u0662'          # ARABIC-INDIC DIGIT ONE, TWO
TEXT = {'string': 'text', 'anyURI': 'urn:verif:text', 'base64Binary': 'YWJj', 'integer': '1', 'boolean': 'true', 'NCName': 'n',
        'QName': 'xs:string', 'datetime': '2020-01-02T03:04:05Z', 'NMTOKEN': 'tok', 'unsignedLong': '1', 'unsignedInt': '1',
        'anyType': 'x', 'list': 'urn:a'}


def minimal(cid, depth=0, seen=()):
    """otherwise valid instance: required attributes at the canonical valid value of their type,
    children at their declared minimum (recursively), text of enumerated classes valid"""
    t = table()[cid]
    inst = get_class(cid)()
    for a in t['attributes']:
        if a['required']:
            setattr(inst, a['member'], attr_value(a))
    for ch in t['children']:
        if ch['min'] >= 1 and ch['cls'] in table() and depth < 6 and ch['cls'] not in seen:
            kids = [minimal(ch['cls'], depth + 1, seen + (cid,)) for _ in range(ch['min'])]
            setattr(inst, ch['member'], kids if ch['list'] else kids[0])
    if t['text_enum']:
        inst.text = t['text_enum'][0]
    return inst


def uses_custom_verify(cid, depth=0, seen=()):
    t = table()[cid]
    if t['custom_verify']:
        return True
    for ch in t['children']:
        if ch['min'] >= 1 and ch['cls'] in table() and depth < 6 and ch['cls'] not in seen:
            if uses_custom_verify(ch['cls'], depth + 1, seen + (cid,)):
                return True
    return False


def swapcase_literal(enum):
    """a literal of the enumeration in another letter case that is not itself a literal"""
    for lit in enum:
        for cand in (lit.swapcase(), lit.upper(), lit.lower(), lit.capitalize()):
            if cand not in enum:
                return cand
    return 'not-in-the-enumeration'


def build(v):
    t = table()[v['cls']]
    inst = minimal(v['cls'])
    kind = v['kind']
    if kind == 'reqattr_missing':
        setattr(inst, v['which'], None)
    elif kind == 'reqattr_empty':
        setattr(inst, v['which'], '')
    elif kind in ('child_below_min', 'child_above_max'):
        ch = [c for c in t['children'] if c['member'] == v['which']][0]
        n = ch['min'] - 1 if kind == 'child_below_min' else ch['max'] + 1
        kids = [minimal(ch['cls'], 1, (v['cls'],)) for _ in range(n)]
        setattr(inst, v['which'], kids if ch['list'] else (kids[0] if kids else None))
    elif kind == 'badtype':
        a = [x for x in t['attributes'] if x['member'] == v['which']][0]
        setattr(inst, v['which'], WRONG[(a['type'], v['how'])])
    elif kind == 'goodtype':
        setattr(inst, v['which'], v['how'])
    elif kind == 'good_text':
        inst.text = v['how']
    elif kind == 'bad_enum':
        a = [x for x in t['attributes'] if x['member'] == v['which']][0]
        setattr(inst, v['which'], swapcase_literal(a['enum']) if v.get('how') == 'case' else 'not-in-the-enumeration')
    elif kind == 'bad_text':
        base = 'dateTime' if t['text_base'] == 'datetime' else t['text_base']
        inst.text = WRONG[(base, v['how'])]
    elif kind == 'bad_text_enum':
        inst.text = swapcase_literal(t['text_enum']) if v.get('how') == 'case' else 'not-in-the-enumeration'
    return inst


def parents_of(cid):
    out = []
    for pid, t in table().items():
        for ch in t['children']:
            if ch['cls'] == cid:
                out.append((pid, ch))
    return out


def run(inst):
    from saml2_tophat.validate import valid_instance
    try:
        valid_instance(inst)
        return 'valid', None
    except Exception as exc:
        return 'rejected', '%s: %s' % (type(exc).__name__, str(exc)[:160])


def replay(case):
    v = case['v']
    out = {'root': None, 'nested': []}
    try:
        inst = build(v)
    except Exception as exc:
        out['build_error'] = '%s: %s' % (type(exc).__name__, str(exc)[:160])
        return out
    out['root'] = run(inst)
    # the same instance nested under each possible parent (the parent otherwise valid)
    for pid, ch in parents_of(v['cls'])[:case.get('max_parents', 3)]:
        if table()[pid]['custom_verify'] or uses_custom_verify(pid):
            continue
        try:
            parent = minimal(pid, 1)
            cur = getattr(parent, ch['member'])
            if ch['list']:
                setattr(parent, ch['member'], [inst] + (list(cur)[1:] if cur else []))
            else:
                setattr(parent, ch['member'], inst)
            out['nested'].append([pid, ch['member'], run(parent)])
            # ... and as the last of two siblings, after an otherwise valid one (where the parent may hold two)
            if ch['list']:
                probe = minimal(pid, 1)
                setattr(probe, ch['member'], [minimal(v['cls'], 1), minimal(v['cls'], 1)])
                if run(probe)[0] == 'valid':
                    parent = minimal(pid, 1)
                    setattr(parent, ch['member'], [minimal(v['cls'], 1), inst])
                    out['nested'].append([pid, ch['member'] + '[2nd]', run(parent)])
        except Exception as exc:
            out['nested'].append([pid, ch['member'], ('build_error', str(exc)[:100])])
    return out


def main():
    chk = fw.Check('C13', 'model_checking')
    import extract_schema
    with open(CLASSES, 'w') as f:
        json.dump(extract_schema.extract(), f, sort_keys=True)
    res = tlc.run('Schema.tla', 'Schema_validate.cfg', env={'CLASSES_FILE': CLASSES}, timeout=1800)
    chk.add_tlc(res, 'Schema_validate.cfg')
    cases = sorted(res.cases, key=lambda c: json.dumps(c['v'], sort_keys=True))
    for c in cases:
        c['max_parents'] = 40 if chk.tier == 'thorough' else 3
    nvalid = 0
    for case, out, err in fw.pmap(replay, cases, chunk=64):
        if err:
            raise fw.Machinery(err)
        v = case['v']
        key = {'cls': v['cls'], 'kind': v['kind'], 'which': v['which'], 'how': v['how']}
        if 'build_error' in out:
            chk.note('cannot build %s: %s' % (json.dumps(v, sort_keys=True), out['build_error']))
            continue
        chk.count(v, nontrivial=True)
        custom = uses_custom_verify(v['cls'])
        verdict, why = out['root']
        if case['mustBeValid']:
            if verdict == 'valid':
                nvalid += 1
            elif not custom:
                chk.violation(key, 'instance of %s that satisfies every declared constraint is rejected: %s' % (v['cls'], why),
                              {'case': case, 'observed': out})
        else:
            if verdict == 'valid':
                chk.violation(key, '%s: %s on %s %s passes validation' % (v['cls'], v['kind'], v['which'], v['how']),
                              {'case': case, 'observed': out})
            for pid, member, (nv, nwhy) in out['nested']:
                if nv == 'valid':
                    chk.violation(dict(key, parent=pid), '%s: %s on %s %s passes validation when nested in %s.%s'
                                  % (v['cls'], v['kind'], v['which'], v['how'], pid, member), {'case': case, 'observed': out})
                    break
        if case['mustBeValid'] and not custom:
            for pid, member, (nv, nwhy) in out['nested']:
                chk.count({'v': v, 'parent': pid})
                if nv == 'rejected':
                    chk.violation(dict(key, parent=pid), 'valid %s nested in an otherwise valid %s.%s is rejected: %s' % (v['cls'], pid, member, nwhy),
                                  {'case': case, 'observed': out})
                    break
        chk.sample({'variant': v, 'root': out['root'], 'nested': out['nested'][:2]}, limit=5)
    if nvalid == 0 and not chk.violations:
        raise fw.Machinery('no instance was ever valid: generator broken')
    chk.cov['exhaustive'] = True
    chk.cov['rule'] = ('variants of Schema.tla (validate): per class the minimal valid instance, every required attribute missing / empty, '
                      'every child with a declared minimum one below it, every list child with a declared maximum one above it, every '
                      'attribute of a checked simple type with each class of wrong value, every enumerated attribute / text with a '
                      'value outside the enumeration, every duration-typed attribute / text with each of the 63 component layouts of a valid duration (and two negative ones); each also nested under up to %d possible parents' % (40 if chk.tier == 'thorough' else 3))
    chk.cov['classes'] = len(table())
    chk.assumptions = ['the otherwise-valid instance is generated from the tables (required attributes, children at their minimum)',
                       'classes whose verify() is overridden are exempt from the must-be-valid clause']
    return chk.finish()


def do_replay(path):
    j = json.load(open(path))
    if not os.path.exists(CLASSES):
        import extract_schema
        json.dump(extract_schema.extract(), open(CLASSES, 'w'))
    print(json.dumps(replay(j['detail']['case']), indent=1))
    return 0


if __name__ == '__main__':
    if len(sys.argv) > 2 and sys.argv[1] == '--replay':
        fw.main_wrapper(lambda: do_replay(sys.argv[2]))
    fw.main_wrapper(main)
