"""Shared replay machinery of the SP-side properties (C01-C06, C17, C20): cached SP instances,
default valid documents, observation of Saml2Client.parse_authn_request_response."""
import json

import env
import samlbuild as sb
import xmlsec_model

_SP = {}
CLOCK = None


def init_worker():
    global CLOCK
    env.ensure_keys()
    env.install_fake_popen()
    CLOCK = env.Clock().install()


def sp_for(metadata=None, **overrides):
    key = json.dumps([metadata, overrides], sort_keys=True, default=str)
    if key not in _SP:
        _SP[key] = env.make_sp(env.sp_config(metadata_xml=metadata, **overrides))
    return _SP[key]


def now():
    return CLOCK.now


def default_assertion(aid='a1', subject='user-a1', irt='id1', issuer=env.IDP1, recipient=env.SP_ACS_POST,
                      audiences=((env.SP,),), attrs=None, t=None):
    t = now() if t is None else t
    return {
        'id': aid, 'issue_instant': env.ts(t - 5), 'issuer': issuer, 'subject': subject,
        'conf': [{'recipient': recipient, 'nooa': env.ts(t + 600), 'irt': irt}],
        'cond': {'nb': env.ts(t - 600), 'nooa': env.ts(t + 600), 'audiences': [list(a) for a in audiences]},
        'authn': {'instant': env.ts(t - 10)},
        'attrs': attrs if attrs is not None else [(sb.OID['givenName'], ['val-%s-given' % aid]),
                                                  (sb.OID['sn'], ['val-%s-sn' % aid])],
    }


def default_response(rid='r1', irt='id1', issuer=env.IDP1, destination=env.SP_ACS_POST, t=None):
    t = now() if t is None else t
    return {'id': rid, 'issue_instant': env.ts(t - 5), 'destination': destination, 'irt': irt, 'issuer': issuer}


def observe(sp, xml, binding=env.BINDING_POST, outstanding=None, conv_info=None, encoded=None, outstanding_certs=None):
    """-> observation dict; identity is reported with provenance markers"""
    log = []
    xmlsec_model.SINK = log
    obs = {'verdict': 'reject', 'exc': None}
    try:
        if encoded is None:
            encoded = sb.deflate_b64(xml) if binding == env.BINDING_REDIRECT else sb.b64(xml)      # POST and Artifact: base64 only
        try:
            resp = sp.parse_authn_request_response(encoded, binding, outstanding, conv_info=conv_info,
                                                   **({'outstanding_certs': outstanding_certs} if outstanding_certs else {}))
        except Exception as exc:
            obs['exc'] = type(exc).__name__
            obs['msg'] = str(exc)[:200]
            resp = None
            obs['verdict'] = 'reject'
        else:
            if resp is None:
                obs['verdict'] = 'reject'
                obs['exc'] = 'None'
            else:
                name_id = getattr(resp, 'name_id', None)
                ava = getattr(resp, 'ava', None)
                obs['name_id'] = name_id.text if name_id is not None else None
                obs['ava'] = dict((k, list(v)) for k, v in ava.items()) if ava else {}
                obs['verdict'] = 'accept' if (obs['name_id'] or obs['ava']) else 'noid'
                obs['came_from'] = getattr(resp, 'came_from', None)
                obs['in_response_to'] = getattr(resp, 'in_response_to', None)
                try:
                    obs['authn_info'] = [[a, list(b)] for a, b, _ in resp.authn_info()]
                except Exception as exc:
                    obs['authn_info_exc'] = type(exc).__name__
                try:
                    si = resp.session_info()
                    obs['nooa'] = si.get('not_on_or_after')
                    obs['issuer'] = si.get('issuer')
                except Exception as exc:
                    obs['session_info_exc'] = type(exc).__name__
    finally:
        xmlsec_model.SINK = None
    obs['calls'] = [{'mode': c.get('mode'), 'node': c.get('nodeName'), 'out': c.get('out'),
                     'key': env.fingerprint_to_name(c.get('key')), 'start': c.get('start'), 'sig': c.get('sig'),
                     'refs': c.get('refs'), 'nodeId': c.get('nodeId')} for c in log]
    return obs


_IDP = {}


def idp_for(metadata=None, **overrides):
    key = json.dumps([metadata, overrides], sort_keys=True, default=str)
    if key not in _IDP:
        _IDP[key] = env.make_idp(env.idp_config(metadata_xml=metadata, **overrides))
    return _IDP[key]
