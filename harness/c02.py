"""C02 -- SP signature requirements: SPSigReq.tla (pipeline of Entity._parse_response vs the
documented acceptance table) replayed into the real SP with really signed / encrypted
documents; tool-call traces validated by SPSigReqTrace.tla."""
import json
import os
import sys

sys.path.insert(0, os.path.dirname(os.path.abspath(__file__)))
import env
import framework as fw
import samlbuild as sb
import sp_common as spc
import sp_history
import tlc

KINDS = ('digest', 'sigvalue', 'wrongkey', 'emptyvalue')     # concretisations of an "invalid" signature


def build(scn, kind_resp, kind_assert, alg):
    a = spc.default_assertion()
    if scn['assertSig'] != 'absent':
        a['sig'] = sb.signature_template('a1', alg)
    a_xml = sb.assertion(a)
    if scn['enc']:
        body = '<saml:EncryptedAssertion>%s</saml:EncryptedAssertion>' % a_xml
    else:
        body = a_xml
    r = spc.default_response()
    if scn['respSig'] != 'absent':
        r['sig'] = sb.signature_template('r1', alg)
    doc = sb.response(r, body)
    if scn['assertSig'] != 'absent':
        key = 'kAttacker' if (scn['assertSig'] == 'invalid' and kind_assert == 'wrongkey') else 'kIdp1'
        doc = sb.sign(doc, sb.NS_SAML, 'Assertion', 'a1', key)
        if scn['assertSig'] == 'invalid' and kind_assert == 'digest':
            doc = sb.tamper_text(doc, 'val-a1-given', 'val-a1-GIVEN')
        elif scn['assertSig'] == 'invalid' and kind_assert == 'sigvalue':
            doc = sb.tamper_sigvalue(doc, 0)
        elif scn['assertSig'] == 'invalid' and kind_assert == 'emptyvalue':
            doc = sb.empty_sigvalue(doc, 0)
    if scn['enc']:
        doc = sb.encrypt_element(doc, sb.xp('Response', 'EncryptedAssertion', 'Assertion'), 'kSpEnc1')
    if scn['respSig'] != 'absent':
        key = 'kAttacker' if (scn['respSig'] == 'invalid' and kind_resp == 'wrongkey') else 'kIdp1'
        doc = sb.sign(doc, sb.NS_SAMLP, 'Response', 'r1', key)
        if scn['respSig'] == 'invalid' and kind_resp == 'digest':
            doc = sb.tamper_text(doc, '<samlp:StatusCode', '<!-- x --><samlp:StatusCode').replace(
                '</samlp:Status>', '<samlp:StatusMessage>edited</samlp:StatusMessage></samlp:Status>', 1)
        elif scn['respSig'] == 'invalid' and kind_resp == 'sigvalue':
            doc = sb.tamper_sigvalue(doc, 0)
        elif scn['respSig'] == 'invalid' and kind_resp == 'emptyvalue':
            doc = sb.empty_sigvalue(doc, 0)
    return doc


def replay(case):
    scn = case['scn']
    sp = spc.sp_for(want_response_signed=scn['wantResp'], want_assertions_signed=scn['wantAssert'],
                    want_assertions_or_response_signed=scn['wantEither'])
    doc = build(scn, case['kind_resp'], case['kind_assert'], case['alg'])
    obs = spc.observe(sp, doc, env.BINDING_POST, {'id1': '/'})
    obs['doc'] = doc
    return obs


def main():
    chk = fw.Check('C02', 'model_checking')
    thorough = chk.tier == 'thorough'
    res = tlc.run('SPSigReq.tla', 'SPSigReq.cfg', timeout=600)
    chk.add_tlc(res, 'SPSigReq.cfg')
    if res.violated:
        raise fw.Machinery('SPSigReq.tla: pipeline model violates the contract (%s)\n%s' % (res.violated, res.text[-2500:]))
    if len(res.cases) != 144:
        raise fw.Machinery('expected 144 scenarios, TLC emitted %d' % len(res.cases))
    jobs = []
    for k, c in enumerate(sorted(res.cases, key=lambda c: json.dumps(c['scn'], sort_keys=True))):
        if thorough:
            combos = [(kr, ka, alg) for kr in KINDS for ka in KINDS for alg in sorted(sb.SIGALG)
                      if (c['scn']['respSig'] == 'invalid' or kr == 'digest') and (c['scn']['assertSig'] == 'invalid' or ka == 'digest')]
        else:
            combos = [(KINDS[(k + chk.seed) % 4], KINDS[(k // 4 + chk.seed) % 4], sorted(sb.SIGALG)[(k + chk.seed) % 5])]
            # every way of being invalid, for each signature that is
            if c['scn']['respSig'] == 'invalid':
                combos += [(kr, 'digest', 'sha256') for kr in KINDS]
            if c['scn']['assertSig'] == 'invalid':
                combos += [('digest', ka, 'sha256') for ka in KINDS]
            combos = sorted(set(combos))
        for kr, ka, alg in combos:
            j = dict(c)
            j.update(kind_resp=kr, kind_assert=ka, alg=alg)
            jobs.append(j)
    traces = []
    controls_ok = 0
    for case, obs, err in fw.pmap(replay, jobs, init=spc.init_worker, chunk=4):
        if err:
            raise fw.Machinery(err)
        scn = case['scn']
        chk.count(dict(scn, kr=case['kind_resp'], ka=case['kind_assert'], alg=case['alg']))
        accepted = obs['verdict'] == 'accept'
        detail = {'case': dict((k, v) for k, v in case.items()), 'observed': dict((k, v) for k, v in obs.items() if k != 'doc'),
                  'document': obs['doc']}
        key = dict(scn, kind_resp=case['kind_resp'], kind_assert=case['kind_assert'])
        if case['mustReject'] and accepted:
            chk.violation(key, 'response accepted although the signature requirements are not met: %s' % json.dumps(scn, sort_keys=True), detail)
        elif case['mustAccept'] and not accepted:
            chk.violation(key, 'valid response meeting all signature requirements rejected (%s %s): %s'
                          % (obs.get('exc'), obs.get('msg', ''), json.dumps(scn, sort_keys=True)), detail)
        else:
            if case['mustAccept']:
                controls_ok += 1
            got = [(c['mode'], 'EncryptedData' if c['mode'] == 'decrypt' else c['node'], 'OK' if c['out'] == 'OK' else ('DONE' if c['out'] == 'DONE' else 'FAIL')) for c in obs['calls']]
            want = [(c['mode'], c['node'], c['out']) for c in case['model']['calls']]
            if got != want:
                chk.note('drift: tool invocations %s differ from the pipeline model %s for %s' % (got, want, json.dumps(scn, sort_keys=True)))
        traces.append({'scn': scn, 'calls': [{'mode': c['mode'], 'node': c['node'] or '', 'out': c['out'] or ''} for c in obs['calls']],
                       'verdict': obs['verdict']})
        chk.sample({'scn': scn, 'kinds': [case['kind_resp'], case['kind_assert'], case['alg']],
                    'expected': 'accept' if case['mustAccept'] else 'reject', 'observed': obs['verdict'], 'exc': obs.get('exc')}, limit=5)
    if controls_ok == 0 and not chk.violations:
        raise fw.Machinery('no must-accept scenario was accepted: templates broken')

    # code -> spec: the recorded tool invocations and verdicts against the contract monitor
    os.makedirs(os.path.join(env.WORK, 'C02'), exist_ok=True)
    tfile = os.path.join(env.WORK, 'C02', 'traces.json')
    with open(tfile, 'w') as f:
        json.dump(traces, f)
    res = tlc.run('SPSigReqTrace.tla', 'SPSigReqTrace.cfg', workers=1, env={'TRACE_FILE': tfile}, timeout=1200, coverage=False)
    chk.add_tlc(res, 'SPSigReqTrace.cfg')
    os.unlink(tfile)
    for tag, payload in res.prints:
        if tag == 'REJECTED':
            j = json.loads(payload)
            t = traces[j['trace'] - 1]
            chk.violation(dict(t['scn'], kind='monitor'), 'tool-call trace violates the contract monitor: %s' % j.get('why'),
                          {'trace': t, 'monitor': j})
    if res.violated and not any(t == 'REJECTED' for t, _ in res.prints):
        raise fw.Machinery('trace validation failed without a verdict: %s' % res.text[-2000:])
    chk.cov['exhaustive'] = True
    chk.cov['rule'] = ('all 144 scenarios of SPSigReq.tla (8 option settings x response signature absent/valid/invalid x assertion '
                      'signature absent/valid/invalid x plain/encrypted), each rendered with real signatures; "invalid" concretised '
                      'as broken digest, altered SignatureValue or foreign key; every scenario is non-trivial (the table is total)')
    chk.assumptions = list(fw.TOOL_ASSUMPTIONS)
    # the same receiver over time: SPHistory.tla
    sp_history.run(chk, 'C02')
    sb.cleanup()
    return chk.finish()


def do_replay(path):
    spc.init_worker()
    j = json.load(open(path))
    if 'hist' in j['detail']['case']:
        return sp_history.do_replay(j)
    obs = replay(j['detail']['case'])
    print(json.dumps(dict((k, v) for k, v in obs.items() if k != 'doc'), indent=1))
    return 0


if __name__ == '__main__':
    if len(sys.argv) > 2 and sys.argv[1] == '--replay':
        fw.main_wrapper(lambda: do_replay(sys.argv[2]))
    fw.main_wrapper(main)
