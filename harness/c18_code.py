"""C18 storage-key encoding: cases enumerated by TLC (NameIdCode.tla) executed on
saml2_tophat.ident.code / decode."""
import framework as fw
import tlc

CH = {'a': 'a', 'comma': ',', 'equals': '=', 'space': ' ', '%': '%', '2': '2', 'C': 'C',
      'eacute': u'é', 'newline': '\n', 'slash': '/'}
ATTR = ['name_qualifier', 'sp_name_qualifier', 'format', 'sp_provided_id', 'text']


def conc(v):
    if v == ['absent']:
        return None
    return ''.join(CH[c] for c in v)


def one(case):
    from saml2_tophat.ident import code, decode
    from saml2_tophat.saml import NameID
    n = NameID(**dict((ATTR[i], conc(v)) for i, v in enumerate(case['n'])))
    key = code(n)
    back = decode(key)
    got = [getattr(back, a) for a in ATTR]
    exp = [conc(v) for v in case['expect']]
    # the key is stored inside a space separated string: structure as the specification predicts
    parts = len(key.split(',')) if key else 0
    return {'key': key, 'got': got, 'exp': exp, 'parts': parts, 'space': ' ' in key}


def run(chk, thorough):
    cfg = 'NameIdCode_thorough.cfg' if thorough else 'NameIdCode_quick.cfg'
    res = tlc.run('NameIdCode.tla', cfg, timeout=3000)
    chk.add_tlc(res, cfg)
    if res.violated:
        raise fw.Machinery('NameIdCode.tla violates its own contract: %s' % res.violated)
    keys = {}
    chk.sample({'kind': 'code/decode', 'case': res.cases[len(res.cases) // 2]})
    for case, r, err in fw.pmap(one, res.cases, chunk=256):
        if err:
            raise fw.Machinery(err)
        chk.count({'n': case['n']})
        scn = {'kind': 'code', 'n': case['n']}
        if r['got'] != r['exp']:
            chk.violation(scn, 'decode(code(n)) differs from n: %r -> %r -> %r' % (r['exp'], r['key'], r['got']),
                          {'case': case, 'observed': r})
        elif r['parts'] != case['parts'] or r['space']:
            chk.violation(scn, 'storage key %r has a raw separator (parts %d, expected %d)' % (r['key'], r['parts'], case['parts']),
                          {'case': case, 'observed': r})
        prev = keys.setdefault(r['key'], r['exp'])
        if prev != r['exp']:
            chk.violation(scn, 'storage key collision: %r encodes both %r and %r' % (r['key'], prev, r['exp']),
                          {'case': case, 'observed': r, 'other': prev})
