"""Growth beyond the listed properties: authn_context.AuthnBroker against AuthnBroker.tla
(every registry of up to three entries x every request replayed into the real object)."""
import json
import os
import sys

sys.path.insert(0, os.path.dirname(os.path.abspath(__file__)))
import env
import framework as fw
import tlc

CLS = {'c1': 'urn:oasis:names:tc:SAML:2.0:ac:classes:Password', 'c2': 'urn:oasis:names:tc:SAML:2.0:ac:classes:TLSClient',
       'c3': 'urn:oasis:names:tc:SAML:2.0:ac:classes:TimeSyncToken'}


def replay(case):
    from saml2_tophat.authn_context import AuthnBroker, authn_context_class_ref, requested_authn_context
    b = AuthnBroker()
    for i, e in enumerate(case['reg']):
        b.add(authn_context_class_ref(CLS[e['cls']]), 'm%d' % (i + 1), e['level'])
    try:
        res = b.pick(requested_authn_context(CLS[case['req']['cls']], comparison=case['req']['cmp']))
    except Exception as exc:
        return {'exc': '%s: %s' % (type(exc).__name__, str(exc)[:120])}
    return {'picked': [int(m[1:]) for m, _ in res]}


def main():
    t0 = __import__('time').time()
    out = {'spec': 'AuthnBroker.tla', 'runs': []}
    cases = []
    for cfg, expect in (('AuthnBroker_holds.cfg', None), ('AuthnBroker_dup.cfg', 'MeansComparisonAlways'), ('AuthnBroker_order.cfg', 'OrderedByLevel')):
        r = tlc.run('AuthnBroker.tla', cfg, timeout=600, coverage=False)
        out['runs'].append({'cfg': cfg, 'states': r.states, 'violated': r.violated, 'expected': expect})
        if r.violated != expect:
            raise fw.Machinery('%s: expected %s, TLC says %s' % (cfg, expect, r.violated))
        if expect is None:
            cases = r.cases
    bad = 0
    for case, obs, err in fw.pmap(replay, cases, chunk=256):
        if err:
            raise fw.Machinery(err)
        want = list(case['op'])
        problem = None
        if 'exc' in obs:
            problem = 'exception %s' % obs['exc']
        elif obs['picked'] != want:
            problem = 'picked %s, the transcribed procedure gives %s' % (obs['picked'], want)
        elif case['unique'] and sorted(set(obs['picked'])) != sorted(case['set']):
            problem = 'picked %s, the comparison means %s' % (obs['picked'], sorted(case['set']))
        if problem:
            bad += 1
            if bad <= 10:
                print('BROKER-DIVERGENCE registry %s request %s: %s' % (json.dumps(case['reg']), json.dumps(case['req']), problem))
    out['cases'] = len(cases)
    out['divergences'] = bad
    out['wall_s'] = round(__import__('time').time() - t0, 1)
    env.dump_json(os.path.join(env.WORK, 'growth-BROKER.json'), out)
    print('BROKER (growth, not a listed property): %d (registry, request) pairs replayed, %d divergences; holds=%s, known not to hold=%s'
          % (len(cases), bad, ['MeansComparison (one method per class)'], ['MeansComparisonAlways', 'OrderedByLevel']))
    return 1 if bad else 0


if __name__ == '__main__':
    fw.main_wrapper(main)
