"""Growth beyond the listed properties: the HTTP-Artifact exchange against Artifact.tla -- every transition TLC explored
is executed on a real IdP (issuer of the artifact) and SP (resolver) from a constructed pre-state."""
import base64
import json
import os
import sys

sys.path.insert(0, os.path.dirname(os.path.abspath(__file__)))
import env
import framework as fw
import samlbuild as sb
import sp_common as spc
import tlc

PUBLISHED = [1, 9, 10, 16]
ARS = 'https://idp1.verif.example/ars/%d'
SP_ARS = 'https://sp.verif.example/ars'


def parties():
    ars = ''.join('<md:ArtifactResolutionService Binding="%s" Location="%s" index="%d"/>' % (env.BINDING_SOAP, ARS % i, i) for i in PUBLISHED)
    idp_md = env.idp_metadata().replace('<md:SingleSignOnService', ars + '<md:SingleSignOnService', 1)
    sp = env.make_sp(env.sp_config(metadata_xml=[idp_md]))
    idp = env.make_idp(env.idp_config())
    return idp, sp


def message(idp, name):
    from saml2_tophat.saml import NameID, NAMEID_FORMAT_TRANSIENT
    return idp.create_authn_response({'givenName': ['given-' + name]}, 'id1', env.SP_ACS_POST, env.SP,
                                     name_id=NameID(format=NAMEID_FORMAT_TRANSIENT, text='subject-' + name),
                                     authn={'class_ref': sb.PASSWORD, 'authn_auth': 'x'})


def replay(case):
    from saml2_tophat.soap import make_soap_enveloped_saml_thingy
    idp, sp = parties()
    arts = {}
    for e in sorted(case['store'], key=lambda e: e['handle']):
        arts[e['handle']] = idp.use_artifact(message(idp, e['msg']), e['idx'])
    step = case['step']
    out = {}
    if step['op'] == 'Use':
        art = idp.use_artifact(message(idp, step['msg']), step['idx'])
        raw = base64.b64decode(art)
        out = {'wire': [chr(raw[2]), chr(raw[3])], 'fresh': art not in arts.values(), 'stored': 'subject-' + step['msg'] in str(idp.artifact.get(art)),
               'len': len(raw)}
        ok = out['wire'] == list(step['wire']) and out['fresh'] and out['stored'] and out['len'] == 44
        return {'ok': ok, 'observed': out}
    if step['op'] == 'ResolveUnknown':
        art = base64.b64encode(b'\x00\x04' + b'01' + base64.b64decode(list(arts.values())[0])[4:24] + b'U' * 20).decode('ascii') if arts else \
            base64.b64encode(b'\x00\x0401' + b'S' * 20 + b'U' * 20).decode('ascii')
        try:
            idp.create_artifact_response(None, art)
            return {'ok': False, 'observed': 'an unknown artifact was answered'}
        except Exception as exc:
            return {'ok': True, 'observed': type(exc).__name__}
    art = arts[step['handle']]
    try:
        dest = sp.artifact2destination(art, 'idpsso')
    except Exception as exc:
        dest = 'exception %s' % type(exc).__name__
    want = None if step['dest'] == 999 else ARS % step['dest']
    out['dest'] = dest
    if dest != want:
        return {'ok': False, 'observed': out, 'what': 'ArtifactResolve would go to %r, the model says %r' % (dest, want)}
    # the exchange itself (the SOAP hop is a function call here)
    mid, req = sp.create_artifact_resolve(art, dest or ARS % 1, 'sid-1')
    parsed = idp.parse_artifact_resolve(make_soap_enveloped_saml_thingy(req))
    if parsed.artifact.text != art:
        return {'ok': False, 'observed': out, 'what': 'the artifact in the parsed ArtifactResolve differs'}
    resp = idp.create_artifact_response(parsed, parsed.artifact.text)
    got = sp.parse_artifact_resolve_response(make_soap_enveloped_saml_thingy(resp))
    out['msg'] = 'mA' if 'subject-mA' in str(got) else ('mB' if 'subject-mB' in str(got) else '?')
    out['type'] = type(got).__name__
    return {'ok': out['msg'] == step['msg'] and out['type'] == 'Response', 'observed': out,
            'what': 'message that comes back through ArtifactResolve / ArtifactResponse'}


def main():
    t0 = __import__('time').time()
    out = {'spec': 'Artifact.tla', 'runs': []}
    for cfg, expect in (('Artifact_low.cfg', None), ('Artifact_high.cfg', 'IndexRoundTrip'), ('Artifact_once.cfg', 'OneTimeUse')):
        r = tlc.run('Artifact.tla', cfg, timeout=600, coverage=False)
        out['runs'].append({'cfg': cfg, 'states': r.states, 'violated': r.violated, 'expected': expect})
        if r.violated != expect:
            raise fw.Machinery('%s: expected %s, TLC says %s' % (cfg, expect, r.violated))
    r = tlc.run('Artifact.tla', 'Artifact_emit.cfg', timeout=600, coverage=False)
    seen, cases = set(), []
    for c in r.cases:
        k = json.dumps(c, sort_keys=True)
        if k not in seen:
            seen.add(k)
            cases.append(c)
    bad = 0
    for case, res, err in fw.pmap(replay, cases, init=spc.init_worker, chunk=16):
        if err:
            raise fw.Machinery(err)
        if not res['ok']:
            bad += 1
            if bad <= 10:
                print('ARTIFACT-DIVERGENCE %s: %s %s' % (json.dumps(case['step']), res.get('what', ''), json.dumps(res['observed'], default=str)))
    out['transitions'] = len(cases)
    out['divergences'] = bad
    out['wall_s'] = round(__import__('time').time() - t0, 1)
    env.dump_json(os.path.join(env.WORK, 'growth-ARTIFACT.json'), out)
    print('ARTIFACT (growth, not a listed property): %d transitions replayed, %d divergences; holds=%s, known not to hold=%s'
          % (len(cases), bad, ['ReturnsStored', 'HandlesFresh', 'IndexRoundTrip for indexes 0..9'], ['IndexRoundTrip above 9', 'OneTimeUse']))
    return 1 if bad else 0


if __name__ == '__main__':
    fw.main_wrapper(main)
