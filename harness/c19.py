"""C19 -- SP session cache: SessionCache.tla bound to saml2_tophat.cache.Cache /
population.Population.

1. TLC exhaustive (invariants + action properties); every explored transition is emitted and
   executed on the real object from a constructed pre-state (memory- and file-backed).
2. `tlc -simulate` behaviours replayed step by step into both backends.
3. seeded random executions of the real objects validated by TLC (SessionCacheTrace).
"""
import json
import os
import random
import shutil
import sys

sys.path.insert(0, os.path.dirname(os.path.abspath(__file__)))
import env
import framework as fw
import tlc

UNIT = 10            # seconds per abstract time unit
WORKDIR = os.path.join(env.WORK, 'C19')

NID_FIELDS = {
    'n1': dict(text='subject-1', format='urn:oasis:names:tc:SAML:2.0:nameid-format:persistent',
               sp_name_qualifier='urn:verif:sp', name_qualifier='urn:verif:idp1'),
    # differs from n1 in exactly one field
    'n2': dict(text='subject-1', format='urn:oasis:names:tc:SAML:2.0:nameid-format:persistent',
               sp_name_qualifier='urn:verif:sp2', name_qualifier='urn:verif:idp1'),
    'n3': dict(text='subject-2', format='urn:oasis:names:tc:SAML:2.0:nameid-format:persistent',
               sp_name_qualifier='urn:verif:sp', name_qualifier='urn:verif:idp1'),
}
NID_VARIANTS = [        # other "exactly one field differs" pairs, used by the thorough tier
    ('text', 'subject-1 '), ('format', 'urn:oasis:names:tc:SAML:2.0:nameid-format:transient'),
    ('name_qualifier', 'urn:verif:idp2'), ('sp_provided_id', 'x'), ('text', 'subject-1,x=y'),
    ('text', 'Subject-1'),
    # the field is absent in one of the two identifiers
    ('sp_name_qualifier', None), ('name_qualifier', None), ('format', None),
    # two e-mail-format identifiers that differ in letter case only
    ('email_case', None),
]
ABSENT_VARIANTS = NID_VARIANTS[-4:]
EMAIL = 'urn:oasis:names:tc:SAML:1.1:nameid-format:emailAddress'
SRC = {'i1': 'urn:verif:idp1', 'i2': 'urn:verif:idp2', 'i3': 'urn:verif:aa'}
SRC_REV = dict((v, k) for k, v in SRC.items())


def nid(name, variant=None):
    from saml2_tophat.saml import NameID
    f = dict(NID_FIELDS[name])
    if variant is not None and variant[0] == 'email_case':
        if name in ('n1', 'n2'):
            f = dict(NID_FIELDS['n1'], format=EMAIL, text='User.One@Example.org' if name == 'n1' else 'user.one@example.org')
    elif variant is not None and name == 'n2':
        f = dict(NID_FIELDS['n1'])
        f[variant[0]] = variant[1]
    return NameID(**f)


def nid_name(obj, variant=None):
    for name in NID_FIELDS:
        ref = nid(name, variant)
        if all(getattr(obj, k, None) == getattr(ref, k, None)
               for k in ('text', 'format', 'sp_name_qualifier', 'name_qualifier', 'sp_provided_id')):
            return name
    return 'unknown:%r' % (obj,)


def ava_to_real(ava):
    return dict((a, ['v%s' % v for v in vals]) for a, vals in ava.items() if vals)


def ava_from_real(ava):
    out = {'a': [], 'b': []}
    for k, vals in ava.items():
        try:
            out[k] = sorted(int(v[1:]) for v in vals)
        except (ValueError, TypeError):
            out['foreign:%s' % k] = sorted(str(v) for v in vals)      # something nobody stored: reported, not a crash
    return out


def norm_ava(ava):
    d = dict((k, sorted(ava.get(k, []))) for k in ('a', 'b'))
    d.update((k, v) for k, v in ava.items() if k.startswith('foreign:'))
    return d


class Subject(object):
    """the real object under one of its backends + the virtual clock"""

    def __init__(self, backend, clock, tag, variant=None):
        from saml2_tophat.cache import Cache
        from saml2_tophat.population import Population
        self.backend, self.clock, self.variant = backend, clock, variant
        self.path = None
        if backend in ('memory', 'memory-direct'):
            self.cache = Cache()
        else:
            os.makedirs(WORKDIR, exist_ok=True)
            self.path = os.path.join(WORKDIR, 'shelf-%s-%d' % (tag, os.getpid()))
            self.cleanup()
            self.cache = Cache(self.path)
        self.pop = Population(self.cache) if not backend.endswith('-direct') else None

    def cleanup(self):
        if self.path:
            for suf in ('', '.dat', '.dir', '.bak', '.db'):
                try:
                    os.unlink(self.path + suf)
                except OSError:
                    pass

    def reopen(self):
        """a new Cache object over the same file (process restart); nothing to do for the in-memory cache"""
        if self.path is None:
            return
        from saml2_tophat.cache import Cache
        from saml2_tophat.population import Population
        try:
            self.cache._db.close()
        except Exception:
            pass
        self.cache = Cache(self.path)
        self.pop = Population(self.cache) if not self.backend.endswith('-direct') else None

    def close(self):
        try:
            self.cache._db.close()
        except Exception:
            pass
        self.cleanup()

    def t(self, abstract):
        return env.BASE_NOW + abstract * UNIT if abstract else 0

    def set_now(self, abstract):
        self.clock.now = env.BASE_NOW + abstract * UNIT

    # ---- one operation; returns the observed result in the trace/JSON shape
    def do(self, op):
        from saml2_tophat.cache import ToOld
        name = op['op']
        n = nid(op['s'], self.variant) if 's' in op else None
        try:
            if name == 'Set':
                info = {'ava': ava_to_real(op['ava']), 'name_id': n, 'not_on_or_after': self.t(op['exp']),
                        'came_from': 'x'}
                if self.pop is not None:
                    si = dict(info)
                    si['issuer'] = SRC[op['i']]
                    self.pop.add_information_about_person(si)
                else:
                    # the caller re-uses one dictionary for every call and goes on using it afterwards (Set stores a copy);
                    # every other call hands the subject over in its coded (text) form
                    from saml2_tophat.ident import code as _code
                    tmpl = self.__dict__.setdefault('_template', {})
                    tmpl.clear()
                    tmpl.update(info)
                    if str(op['i'])[-1] in '13579b':
                        tmpl['name_id'] = _code(n)
                    self.cache.set(n, SRC[op['i']], tmpl, self.t(op['exp']))
                    tmpl['ava'] = {'written-after-the-call': ['x']}
                    tmpl['not_on_or_after'] = 1
                return {'r': 'ok'}
            if name == 'Reset':
                self.cache.reset(n, SRC[op['i']])
                return {'r': 'ok'}
            if name == 'Delete':
                if self.pop is not None:
                    self.pop.remove_person(n)
                else:
                    self.cache.delete(n)
                return {'r': 'ok'}
            if name == 'Get':
                if self.pop is not None:
                    info = self.pop.get_info_from(n, SRC[op['i']], op['check'])
                else:
                    info = self.cache.get(n, SRC[op['i']], op['check'])
                if info is None:
                    return {'r': 'none'}
                exp = info.get('not_on_or_after', 0)
                r = {'r': 'info', 'ava': ava_from_real(info['ava']),
                     'exp': (exp - env.BASE_NOW) // UNIT if exp else 0}
                # the name identifier stored with the information is the subject's own
                got = info.get('name_id')
                if got is not None and nid_name(got, self.variant) != op['s']:
                    r['r'] = 'info-of-other-subject:%s' % nid_name(got, self.variant)
                return r
            if name == 'GetIdentity':
                ents = [SRC[i] for i in op['ents']] or None
                holder = self.pop if self.pop is not None else self.cache
                ava, old = holder.get_identity(n, ents, op['check'])
                return {'r': 'ok', 'ava': ava_from_real(ava), 'old': sorted(SRC_REV.get(o, o) for o in old)}
            if name == 'Active':
                return {'r': 'bool', 'v': bool(self.cache.active(n, SRC[op['i']]))}
            if name == 'Entities':
                ents = self.pop.issuers_of_info(n) if self.pop is not None else self.cache.entities(n)
                return {'r': 'set', 'v': sorted(SRC_REV.get(o, o) for o in ents)}
            if name == 'Stale':
                pop = self.pop
                if pop is None:
                    from saml2_tophat.population import Population
                    pop = Population(self.cache)
                return {'r': 'set', 'v': sorted(SRC_REV.get(o, o) for o in pop.stale_sources_for_person(n))}
            if name == 'Subjects':
                subs = self.pop.subjects() if self.pop is not None else self.cache.subjects()
                return {'r': 'set', 'v': sorted(nid_name(x, self.variant) for x in subs)}
            if name == 'Tick':
                self.clock.now += UNIT
                return {'r': 'ok'}
            if name == 'Reopen':
                self.reopen()
                return {'r': 'ok'}
        except KeyError:
            return {'r': 'KeyError'}
        except ToOld:
            return {'r': 'ToOld'}
        raise fw.Machinery('unknown op %r' % (op,))

    # ---- projection of the whole state through the public API (clock probing for expiry)
    def project(self, subjects, sources, maxt):
        saved = self.clock.now
        out = {}
        present = set(self.do({'op': 'Subjects'})['v'])
        for s in subjects:
            out[s] = {}
            ents = self.do({'op': 'Entities', 's': s})
            known = set(ents.get('v', []))
            if (s in present) != (ents['r'] == 'set'):
                out[s]['!'] = 'subjects() and entities() disagree'
            for i in sources:
                if i not in known:
                    out[s][i] = {'kind': 'absent'}
                    continue
                g = self.do({'op': 'Get', 's': s, 'i': i, 'check': False})
                if g['r'] == 'none':
                    out[s][i] = {'kind': 'reset'}
                elif g['r'] == 'info':
                    exp = 0
                    for t in range(0, maxt + 2):
                        self.set_now(t)
                        if self.do({'op': 'Active', 's': s, 'i': i})['v']:
                            exp = t
                    self.clock.now = saved
                    out[s][i] = {'kind': 'info', 'ava': norm_ava(g['ava']), 'exp': exp, 'exp_info': g['exp']}
                else:
                    out[s][i] = {'kind': g['r']}
        self.clock.now = saved
        return out


def abstract_state(st):
    out = {}
    for s, cells in st.items():
        out[s] = {}
        for i, c in cells.items():
            if c['kind'] == 'info':
                out[s][i] = {'kind': 'info', 'ava': norm_ava(c['ava']), 'exp': c['exp'], 'exp_info': c['exp']}
            else:
                out[s][i] = {'kind': c['kind']}
    return out


def norm_ret(r):
    r = dict(r)
    if 'ava' in r:
        r['ava'] = norm_ava(r['ava'])
    if 'old' in r:
        r['old'] = sorted(r['old'])
    if 'v' in r and isinstance(r['v'], list):
        r['v'] = sorted(r['v'])
    return r


_CLOCK = None


def _init():
    global _CLOCK
    _CLOCK = env.Clock().install()


BACKENDS = ('memory', 'file', 'file-direct', 'memory-direct')


def replay_edge(case):
    """one TLC transition: build `pre`, perform `op`, compare result and `post`"""
    problems = []
    subjects = sorted(case['pre'])
    sources = sorted(case['pre'][subjects[0]])
    for backend in case.get('backends', BACKENDS):
        sub = Subject(backend, _CLOCK, 'e', case.get('variant'))
        try:
            sub.set_now(0)
            for s in subjects:
                for i in sources:
                    c = case['pre'][s][i]
                    if c['kind'] == 'info':
                        sub.do({'op': 'Set', 's': s, 'i': i, 'ava': c['ava'], 'exp': c['exp']})
                    elif c['kind'] == 'reset':
                        sub.do({'op': 'Reset', 's': s, 'i': i})
            sub.set_now(case['now'])
            op = case['op']
            if case.get('restart'):
                sub.reopen()            # the pre-state was written by an earlier process
            got = sub.do(op)
            if norm_ret(got) != norm_ret(op['ret']):
                problems.append({'backend': backend, 'where': 'result', 'expected': op['ret'], 'observed': got})
            post = sub.project(subjects, sources, case.get('maxt', 3))
            if post != abstract_state(case['post']):
                problems.append({'backend': backend, 'where': 'state after', 'expected': abstract_state(case['post']),
                                 'observed': post})
        finally:
            sub.close()
    return problems


def replay_behaviour(case):
    problems = []
    hist = case['hist']
    for backend in case.get('backends', BACKENDS):
        sub = Subject(backend, _CLOCK, 'b', case.get('variant'))
        try:
            sub.set_now(0)
            for k, step in enumerate(hist):
                op = step['op']
                if op['op'] == 'End':
                    break
                got = sub.do(op)
                if norm_ret(got) != norm_ret(op['ret']):
                    problems.append({'backend': backend, 'step': k, 'op': op, 'observed': got})
                    break
        finally:
            sub.close()
    return problems


# ------------------------------------------------------------------ code -> spec traces
def record_trace(args):
    """seeded random execution of the real object; every call and its observed result"""
    seed, length, backend, variant = args
    rng = random.Random(seed)
    sub = Subject(backend, _CLOCK, 't', variant)
    subjects, sources = ['n1', 'n2', 'n3'], ['i1', 'i2', 'i3']
    avas = [{'a': [1], 'b': []}, {'a': [2], 'b': [1]}, {'a': [1, 2], 'b': [3]}, {'a': [], 'b': []},
            {'a': [3], 'b': [1, 2, 3]}]
    now = 0
    sub.set_now(0)
    events = []
    try:
        for _ in range(length):
            x = rng.random()
            s, i = rng.choice(subjects), rng.choice(sources)
            if x < 0.25:
                op = {'op': 'Set', 's': s, 'i': i, 'ava': rng.choice(avas), 'exp': now + rng.randint(-1, 4) or 1}
                if op['exp'] <= 0:
                    op['exp'] = 1
            elif x < 0.32:
                op = {'op': 'Reset', 's': s, 'i': i}
            elif x < 0.38:
                op = {'op': 'Delete', 's': s}
            elif x < 0.50:
                now += rng.randint(1, 2)
                sub.set_now(now)
                events.append({'op': 'Tick', 'to': now, 'ret': {'r': 'ok'}})
                continue
            elif x < 0.53:
                sub.reopen()
                events.append({'op': 'Reopen', 'ret': {'r': 'ok'}})
                continue
            elif x < 0.62:
                op = {'op': 'Get', 's': s, 'i': i, 'check': rng.random() < 0.7}
            elif x < 0.80:
                ents = [e for e in sources if rng.random() < 0.3] if rng.random() < 0.5 else []
                op = {'op': 'GetIdentity', 's': s, 'ents': ents, 'check': rng.random() < 0.7}
            elif x < 0.87:
                op = {'op': 'Active', 's': s, 'i': i}
            elif x < 0.92:
                op = {'op': 'Entities', 's': s}
            elif x < 0.96:
                op = {'op': 'Stale', 's': s}
            else:
                op = {'op': 'Subjects'}
            ret = sub.do(op)
            if ret['r'].startswith('info-of-other'):
                ret = {'r': ret['r']}
            op = dict(op)
            op['ret'] = ret
            events.append(op)
    finally:
        sub.close()
    return events


def main():
    chk = fw.Check('C19', 'model_checking')
    thorough = chk.tier == 'thorough'
    env.ensure_keys()
    shutil.rmtree(WORKDIR, ignore_errors=True)
    os.makedirs(WORKDIR, exist_ok=True)

    # 1. exhaustive model checking + edge replay
    cfg = 'SessionCache_thorough.cfg' if thorough else 'SessionCache_quick.cfg'
    res = tlc.run('SessionCacheMC.tla', cfg, timeout=3000)
    chk.add_tlc(res, cfg)
    if res.violated:
        raise fw.Machinery('the specification violates its own contract: %s\n%s' % (res.violated, res.text[-2000:]))
    edges = res.cases
    maxt = 3 if thorough else 2
    variants = [None] + (NID_VARIANTS if thorough else NID_VARIANTS[:1] + ABSENT_VARIANTS)
    jobs = []
    for k, e in enumerate(edges):
        e['maxt'] = maxt
        e['variant'] = variants[k % len(variants)]
        e['restart'] = (k // len(variants)) % 2 == 1          # every other transition: the pre-state was written by an earlier process
        if not thorough and k % 3:
            e['backends'] = ('memory',)
        jobs.append(e)
    chk.sample({'kind': 'transition', 'case': edges[0]})
    chk.sample({'kind': 'transition', 'case': edges[len(edges) // 2]})
    for case, problems, err in fw.pmap(replay_edge, jobs, init=_init, chunk=64):
        if err:
            raise fw.Machinery(err)
        chk.count({'pre': case['pre'], 'now': case['now'], 'op': case['op']})
        for p in problems:
            chk.violation({'kind': 'edge', 'op': case['op']['op'], 'pre': case['pre'], 'now': case['now'],
                           'args': case['op']},
                          'cache %s: %s of %s differs from the specification' % (p['backend'], p['where'], case['op']['op']),
                          {'case': case, 'problem': p})

    # 2. behaviours from the simulator
    num = 400 if thorough else 40
    res = tlc.run('SessionCacheSim.tla', 'SessionCache_sim.cfg', simulate='num=%d' % num, depth=40,
                  seed=chk.seed + 1, timeout=1800)
    chk.add_tlc(res, 'SessionCache_sim.cfg (simulate)')
    jobs = [{'hist': h, 'variant': variants[k % len(variants)]} for k, h in enumerate(res.cases)]
    chk.sample({'kind': 'behaviour', 'first_steps': res.cases[0][:4]})
    for case, problems, err in fw.pmap(replay_behaviour, jobs, init=_init, chunk=8):
        if err:
            raise fw.Machinery(err)
        chk.count({'hist': case['hist']})
        for p in problems:
            chk.violation({'kind': 'behaviour', 'op': p['op']['op'], 'step': p['step']},
                          'cache %s: behaviour step %d (%s) differs from the specification' % (p['backend'], p['step'], p['op']['op']),
                          {'case': case, 'problem': p})

    # 3. recorded executions validated by TLC
    ntr, length = (1500, 120) if thorough else (150, 60)
    jobs = [(chk.seed * 100000 + k, length, BACKENDS[k % len(BACKENDS)], variants[k % len(variants)]) for k in range(ntr)]
    traces = []
    for case, events, err in fw.pmap(record_trace, jobs, init=_init, chunk=8):
        if err:
            raise fw.Machinery(err)
        traces.append((case, events))
    traces.sort(key=lambda x: x[0][0])
    tfile = os.path.join(WORKDIR, 'traces.json')
    with open(tfile, 'w') as f:
        json.dump([t[1] for t in traces], f)
    res = tlc.run('SessionCacheTrace.tla', 'SessionCacheTrace.cfg', workers=1, env={'TRACE_FILE': tfile},
                  timeout=3000, coverage=False)
    chk.add_tlc(res, 'SessionCacheTrace.cfg')
    chk.sample({'kind': 'recorded trace', 'first_events': traces[0][1][:4]})
    rejected = {}
    for tag, payload in res.prints:
        if tag == 'REJECTED':
            j = json.loads(payload)
            rejected[j['trace']] = j
    for k, (case, events) in enumerate(traces):
        chk.count({'trace': events})
    if res.violated and not rejected and res.violated != 'postcondition':
        # a contract invariant failed on a recorded execution
        chk.violation({'kind': 'trace-invariant', 'invariant': res.violated},
                      'recorded execution violates %s' % res.violated, {'tlc': res.text[-4000:]})
    for t, j in sorted(rejected.items()):
        case, events = traces[t - 1]
        chk.violation({'kind': 'trace', 'op': j['next'].get('op'), 'backend': case[2]},
                      'recorded execution of the %s cache is not a behaviour of the specification: event %d (%s) observed %s'
                      % (case[2], j['matched'] + 1, j['next'].get('op'), json.dumps(j['next'].get('ret'))),
                      {'seed': case[0], 'backend': case[2], 'variant': case[3], 'events': events,
                       'first_unmatched': j['matched'] + 1})
    chk.cov['rule'] = ('every transition of the exhaustive TLC run executed from a constructed pre-state on the real '
                      'Cache/Population (distinct = distinct (pre-state, clock, operation)); simulator behaviours; '
                      'recorded random executions validated by TLC')
    chk.cov['exhaustive'] = True
    chk.assumptions = ['virtual clock installed by rebinding saml2_tophat.time_util.time/datetime',
                       'expiry value 0 with non-empty information is left unspecified (not generated)',
                       'state projection through the public API only (clock probing for expiry)']
    shutil.rmtree(WORKDIR, ignore_errors=True)
    return chk.finish()


def replay(path):
    _init()
    j = json.load(open(path))
    d = j['detail']
    if 'case' in d and 'pre' in d['case']:
        print(json.dumps(replay_edge(d['case']), indent=1))
    elif 'case' in d:
        print(json.dumps(replay_behaviour(d['case']), indent=1))
    else:
        print(json.dumps(d, indent=1)[:4000])
    return 0


if __name__ == '__main__':
    if len(sys.argv) > 2 and sys.argv[1] == '--replay':
        fw.main_wrapper(lambda: replay(sys.argv[2]))
    fw.main_wrapper(main)
