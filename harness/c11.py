"""C11 -- XML entry points: hostile documents of XmlEntry.tla fed to every entry point of a table
extracted from the code; static inventory of XML-parsing call sites; audit-hook canaries for file
and network access."""
import ast
import base64
import importlib
import json
import os
import sys

sys.path.insert(0, os.path.dirname(os.path.abspath(__file__)))
import env
import framework as fw
import samlbuild as sb
import sp_common as spc
import tlc

WORKDIR = os.path.join(env.WORK, 'C11')
CANARY_FILE = os.path.join(WORKDIR, 'canary-file.txt')
CANARY_HOST = 'canary-host.verif.invalid'
SECRET = 'CANARY-SECRET-CONTENT'
_EVENTS = []
_ARMED = [False]


def _audit(event, args):
    if not _ARMED[0]:
        return
    if event in ('open', 'socket.connect', 'socket.getaddrinfo', 'urllib.Request', 'subprocess.Popen', 'os.system',
                 'socket.gethostbyname', 'http.client.connect'):
        text = repr(args)
        if 'canary-' in text:
            _EVENTS.append((event, text[:200]))


def init_worker():
    spc.init_worker()
    os.makedirs(WORKDIR, exist_ok=True)
    with open(CANARY_FILE, 'w') as f:
        f.write(SECRET)
    sys.addaudithook(_audit)


# ------------------------------------------------------------------ static inventory
PARSE_NAMES = {'fromstring', 'XML', 'parse', 'iterparse', 'XMLParser', 'XMLPullParser', 'parseString', 'fromstringlist',
               'ParserCreate', 'make_parser'}
XML_ROOTS = {'ElementTree', 'etree', 'cElementTree', 'minidom', 'sax', 'expat', 'lxml', 'pulldom', 'defusedxml', 'ET'}


def inventory():
    sites = []
    root = os.path.join(env.REPO, 'src', 'saml2_tophat')
    for dirpath, _, files in os.walk(root):
        for fn in files:
            if not fn.endswith('.py'):
                continue
            path = os.path.join(dirpath, fn)
            try:
                tree = ast.parse(open(path, encoding='utf-8').read())
            except SyntaxError:
                continue
            for node in ast.walk(tree):
                if isinstance(node, ast.Call) and isinstance(node.func, ast.Attribute) and node.func.attr in PARSE_NAMES:
                    chain = []
                    cur = node.func.value
                    while isinstance(cur, ast.Attribute):
                        chain.append(cur.attr)
                        cur = cur.value
                    if isinstance(cur, ast.Name):
                        chain.append(cur.id)
                    chain = list(reversed(chain))
                    if not (set(chain) & XML_ROOTS):
                        continue
                    sites.append({'file': os.path.relpath(path, env.REPO), 'line': node.lineno,
                                  'call': '.'.join(chain + [node.func.attr]), 'defused': chain[0] == 'defusedxml'})
    return sorted(sites, key=lambda s: (s['file'], s['line']))


# ------------------------------------------------------------------ entry points
def base_response():
    return sb.response(spc.default_response(), sb.assertion(spc.default_assertion()))


def base_request():
    return sb.authn_request(issuer=env.SP, destination=env.IDP1_SSO, acs_url=env.SP_ACS_POST, binding=env.BINDING_POST,
                            issue_instant=env.ts(spc.now() - 5))


SOAP = '<soapenv:Envelope xmlns:soapenv="http://schemas.xmlsoap.org/soap/envelope/"><soapenv:Body>%s</soapenv:Body></soapenv:Envelope>'


def entry_points():
    """name -> (base document builder, callable taking the document text)"""
    import saml2_tophat
    from saml2_tophat import saml, samlp, md, soap, pack
    import saml2_tophat.xmldsig as ds
    import saml2_tophat.xmlenc as xenc
    eps = {}

    def fs(name, func, base):
        eps[name] = (base, func)
    fs('samlp.response_from_string', samlp.response_from_string, base_response)
    fs('samlp.authn_request_from_string', samlp.authn_request_from_string, base_request)
    fs('samlp.any_response_from_string', samlp.any_response_from_string, base_response)
    fs('saml.assertion_from_string', saml.assertion_from_string, lambda: sb.assertion(spc.default_assertion()))
    fs('md.entity_descriptor_from_string', md.entity_descriptor_from_string, lambda: env.idp_metadata())
    fs('md.entities_descriptor_from_string', md.entities_descriptor_from_string, lambda: env.entities_descriptor(env.idp_metadata()))
    fs('xmldsig.signature_from_string', ds.signature_from_string, lambda: sb.signature_template('x'))
    fs('xmlenc.encrypted_data_from_string', xenc.encrypted_data_from_string, lambda: sb.ENC_TEMPLATE % (sb.NS_XENC, sb.NS_DS, sb.NS_XENC + 'aes128-cbc'))
    fs('create_class_from_xml_string', lambda t: saml2_tophat.create_class_from_xml_string(samlp.Response, t), base_response)
    fs('extension_element_from_string', saml2_tophat.extension_element_from_string, base_request)
    # one generated *_from_string function per schema module (they share one implementation)
    import extract_schema
    for m in extract_schema.schema_modules():
        table = getattr(m, 'ELEMENT_FROM_STRING', {})
        for tag in sorted(table)[:1]:
            cls = getattr(m, 'ELEMENT_BY_TAG', {}).get(tag)
            if cls is None:
                continue
            doc = '<x:%s xmlns:x="%s">t</x:%s>' % (cls.c_tag, cls.c_namespace, cls.c_tag)
            fs('%s.%s' % (m.__name__.replace('saml2_tophat.', ''), table[tag].__name__), table[tag], (lambda d=doc: d))
    fs('soap.parse_soap_enveloped_saml_thingy', lambda t: soap.parse_soap_enveloped_saml_thingy(t, ['{%s}AuthnRequest' % sb.NS_SAMLP]),
       lambda: SOAP % base_request())
    fs('soap.parse_soap_enveloped_saml_authn_request', lambda t: soap.parse_soap_enveloped_saml_authn_request(t), lambda: SOAP % base_request())
    fs('soap.open_soap_envelope', soap.open_soap_envelope, lambda: SOAP % base_request())
    fs('soap.class_instances_from_soap_enveloped_saml_thingies',
       lambda t: soap.class_instances_from_soap_enveloped_saml_thingies(t, [samlp]), lambda: SOAP % base_request())
    fs('pack.parse_soap_enveloped_saml', lambda t: pack.parse_soap_enveloped_saml(t, samlp.AuthnRequest), lambda: SOAP % base_request())
    sp = spc.sp_for(want_response_signed=False, want_assertions_signed=False, want_assertions_or_response_signed=False)
    idp = spc.idp_for()

    def sp_post(t):
        r = sp.parse_authn_request_response(base64.b64encode(t if isinstance(t, bytes) else t.encode('utf-8')).decode('ascii'),
                                            env.BINDING_POST, {'id1': '/'})
        return r if r is not None and (getattr(r, 'name_id', None) or getattr(r, 'ava', None)) else None

    def sp_redirect(t):
        import zlib
        raw = t if isinstance(t, bytes) else t.encode('utf-8')
        r = sp.parse_authn_request_response(base64.b64encode(zlib.compress(raw)[2:-4]).decode('ascii'), env.BINDING_REDIRECT, {'id1': '/'})
        return r if r is not None and (getattr(r, 'name_id', None) or getattr(r, 'ava', None)) else None

    def idp_redirect(t):
        import zlib
        raw = t if isinstance(t, bytes) else t.encode('utf-8')
        r = idp.parse_authn_request(base64.b64encode(zlib.compress(raw)[2:-4]).decode('ascii'), env.BINDING_REDIRECT)
        return r if r is not None and r.message is not None else None

    def idp_soap_logout(t):
        r = idp.parse_logout_request(t, env.BINDING_SOAP)
        return r if r is not None and r.message is not None else None
    fs('Saml2Client.parse_authn_request_response[POST]', sp_post, base_response)
    fs('Saml2Client.parse_authn_request_response[Redirect]', sp_redirect, lambda: base_response().replace(env.SP_ACS_POST, env.SP_ACS_REDIRECT))
    fs('Server.parse_authn_request[Redirect]', idp_redirect, base_request)
    fs('Server.parse_logout_request[SOAP]', idp_soap_logout,
       lambda: SOAP % ('<samlp:LogoutRequest xmlns:samlp="%s" xmlns:saml="%s" ID="lr1" Version="2.0" IssueInstant="%s" Destination="%s">'
                       '<saml:Issuer>%s</saml:Issuer><saml:NameID>s</saml:NameID></samlp:LogoutRequest>'
                       % (sb.NS_SAMLP, sb.NS_SAML, env.ts(spc.now() - 5), env.IDP1_SLO, env.SP)))

    def md_dump(mds):
        # everything the store took from the document, as text (so that an expanded entity shows)
        keys = list(mds.keys())
        return repr(dict((k, mds[k]) for k in keys)) if keys else None

    def md_store():
        from saml2_tophat.mdstore import MetadataStore
        return MetadataStore(sp.config.attribute_converters, sp.config)

    def md_file(t):
        path = os.path.join(WORKDIR, 'md-%d.xml' % os.getpid())
        with open(path, 'wb') as f:
            f.write(t if isinstance(t, bytes) else t.encode('utf-8'))
        return path

    class FakeHttp(object):
        def __init__(self, content):
            self.content = content

        def send(self, url, **kw):
            class R(object):
                status_code = 200
            if url != 'https://md.verif.example/fed.xml' and _ARMED[0]:
                _EVENTS.append(('http-fetch', str(url)[:200]))          # fetched because the document says so
            r = R()
            r.content = self.content
            r.text = self.content if not isinstance(self.content, bytes) else self.content.decode('utf-8', 'replace')
            return r

    def md_load(t):
        mds = md_store()
        mds.load('inline', t)
        return md_dump(mds)

    def md_load_local(t):
        mds = md_store()
        mds.load('local', md_file(t))
        return md_dump(mds)

    def md_imp_file(t):
        mds = md_store()
        mds.imp([{'class': 'saml2_tophat.mdstore.MetaDataFile', 'metadata': [(md_file(t),)]}])
        return md_dump(mds)

    def md_load_remote(t):
        mds = md_store()
        mds.http = FakeHttp(t if isinstance(t, bytes) else t.encode('utf-8'))
        mds.load('remote', url='https://md.verif.example/fed.xml')
        return md_dump(mds)

    def md_config_local(t):
        conf = env.sp_config(top_metadata={'local': [md_file(t)]})
        c = env.make_sp(conf)
        return md_dump(c.metadata)
    fs('MetadataStore.load[inline]', md_load, lambda: env.idp_metadata())
    fs('MetadataStore.load[local]', md_load_local, lambda: env.idp_metadata())
    fs('MetadataStore.imp[MetaDataFile]', md_imp_file, lambda: env.idp_metadata())
    fs('MetadataStore.load[remote]', md_load_remote, lambda: env.idp_metadata())
    fs('Saml2Client(config metadata local)', md_config_local, lambda: env.idp_metadata())

    def check_signed(t):
        from saml2_tophat import samlp as _samlp
        item = _samlp.Response(id='r1')
        sp.sec._check_signed_element(t, item)
        return item
    fs('SecurityContext._check_signed_element', check_signed,
       lambda: sb.response(dict(spc.default_response(), sig=sb.signature_template('r1')), sb.assertion(spc.default_assertion())))
    return eps


# ------------------------------------------------------------------ hostile documents
def hostile(base, word):
    """wrap / damage the base document as the word says"""
    word = set(word)
    if 'not_xml' in word:
        return b'this is not XML at all {"json": true}'
    if 'empty' in word:
        return b''
    doc = base
    doctype = ''
    ref = ''
    if 'doctype_plain' in word:
        doctype = '<!DOCTYPE x>'
    if 'external_dtd' in word:
        doctype = '<!DOCTYPE x SYSTEM "http://%s/evil.dtd">' % CANARY_HOST
    if 'entity_internal' in word:
        doctype = '<!DOCTYPE x [<!ENTITY e "EXPANDED-ENTITY">]>'
        ref = '&e;'
    if 'entity_external_file' in word:
        doctype = '<!DOCTYPE x [<!ENTITY e SYSTEM "file://%s">]>' % CANARY_FILE
        ref = '&e;'
    if 'entity_external_http' in word:
        doctype = '<!DOCTYPE x [<!ENTITY e SYSTEM "http://%s/secret">]>' % CANARY_HOST
        ref = '&e;'
    if 'entity_parameter' in word:
        doctype = '<!DOCTYPE x [<!ENTITY %% p SYSTEM "http://%s/p.dtd"> %%p;]>' % CANARY_HOST
    if 'entity_chain' in word:
        doctype = ('<!DOCTYPE x [<!ENTITY a "aaaaaaaaaa"><!ENTITY b "&a;&a;&a;&a;&a;&a;&a;&a;"><!ENTITY c "&b;&b;&b;&b;&b;&b;&b;&b;">'
                   '<!ENTITY e "&c;&c;&c;&c;&c;&c;&c;&c;">]>')
        ref = '&e;'
    # place the entity reference inside the first text node we can find (or right after the root start tag)
    if ref:
        i = doc.find('>')
        j = doc.find('</')
        k = doc.find('>', 0)
        pos = doc.find('>', doc.find('<saml:Issuer')) if '<saml:Issuer' in doc else i
        if pos < 0:
            pos = i
        doc = doc[:pos + 1] + ref + doc[pos + 1:]
    if 'xinclude' in word:
        i = doc.find('>')
        doc = doc[:i + 1] + '<xi:include xmlns:xi="http://www.w3.org/2001/XInclude" href="file://%s" parse="text"/>' % CANARY_FILE + doc[i + 1:]
    if 'additional_location' in word and ('<md:EntityDescriptor' in doc or '<md:EntitiesDescriptor' in doc):
        j = doc.rfind('</md:EntityDescriptor>')
        if j >= 0:
            doc = (doc[:j] + '<md:AdditionalMetadataLocation namespace="urn:verif:more">http://%s/more-metadata.xml'
                   '</md:AdditionalMetadataLocation>' % CANARY_HOST + doc[j:])
    pi = '<?xml-stylesheet type="text/xsl" href="http://%s/evil.xsl"?>' % CANARY_HOST if 'stylesheet_pi' in word else ''
    doc = pi + doctype + doc
    if 'truncate_open_tag' in word:
        doc = doc[:doc.rfind('<', 0, len(doc) // 2) + 3]
    elif 'truncate_mid_text' in word:
        doc = doc[:len(doc) // 2]
    elif 'truncate_before_close' in word:
        doc = doc[:doc.rfind('</')]
    if 'leading_text' in word:
        doc = 'SAMLResponse=' + doc
    elif 'leading_headers' in word:
        doc = 'HTTP/1.1 200 OK\r\nContent-Type: text/xml\r\n\r\n' + doc
    elif 'trailing_text' in word:
        doc = doc + '\n-- \nsent by the gateway'
    bad = [w for w in word if w.startswith('bad_')]
    if bad:
        i = doc.find('>', doc.find('<saml:Issuer')) if '<saml:Issuer' in doc else doc.find('>')
        head, tail = doc[:i + 1], doc[i + 1:]
        if bad[0] == 'bad_utf16_surrogate':
            return b'\xff\xfe' + head.encode('utf-16-le') + b'\x00\xdc' + tail.encode('utf-16-le')
        junk = {'bad_utf8_byte': b'\xff', 'bad_utf8_overlong': b'\xc0\xaf', 'bad_utf8_cut': b'\xe4\xb8'}[bad[0]]
        return head.encode('utf-8') + junk + tail.encode('utf-8')
    if 'decl_latin1' in word:
        return u'<?xml version="1.0" encoding="ISO-8859-1"?>' + doc          # handed over as text
    if 'decl_utf16text' in word:
        return u'<?xml version="1.0" encoding="UTF-16"?>' + doc             # text that claims to be UTF-16
    if 'utf16' in word:
        return ('<?xml version="1.0" encoding="UTF-16"?>' + doc).encode('utf-16')
    if 'bom' in word:
        return b'\xef\xbb\xbf' + doc.encode('utf-8')
    return doc.encode('utf-8')


_EPS = {}


def replay(case):
    if not _EPS:
        _EPS.update(entry_points())
    base, func = _EPS[case['entry']]
    data = hostile(base(), case['word'])
    out = {'events': [], 'outcome': None}
    arg = data
    if isinstance(data, bytes):
        try:
            arg = data.decode('utf-8')
        except UnicodeDecodeError:
            pass
    del _EVENTS[:]
    _ARMED[0] = True
    try:
        try:
            res = func(arg)
            if res is None or res == '' or res == {}:
                out['outcome'] = 'refused'
                out['how'] = 'None'
            else:
                out['outcome'] = 'object'
                try:
                    text = str(res)
                except Exception:
                    text = ''
                out['leak'] = SECRET in text
                out['expanded'] = 'EXPANDED-ENTITY' in text or 'aaaaaaaaaaaaaaaaaaaa' in text
        except BaseException as exc:
            out['outcome'] = 'refused'
            out['how'] = type(exc).__name__
    finally:
        _ARMED[0] = False
    out['events'] = list(_EVENTS)
    out['doc'] = data[:400].decode('utf-8', 'replace') if isinstance(data, bytes) else data[:400]
    return out


def main():
    chk = fw.Check('C11', 'exploration')
    thorough = chk.tier == 'thorough'
    os.makedirs(WORKDIR, exist_ok=True)
    # static inventory: every XML-parsing call site of the package goes through the defusing parser
    sites = inventory()
    chk.cov['parse_call_sites'] = sites
    for s in sites:
        chk.count({'site': '%s:%d' % (s['file'], s['line'])})
        if not s['defused'] and 'lxml' not in s['call']:
            chk.violation({'kind': 'static', 'file': s['file'], 'call': s['call']},
                          'XML parsed without the defusing parser at %s:%d (%s)' % (s['file'], s['line'], s['call']), {'site': s})
    if not sites:
        raise fw.Machinery('static inventory found no XML parsing call site at all')
    spc.init_worker()
    names = sorted(entry_points().keys())
    cfg = os.path.join(WORKDIR, 'XmlEntry_gen.cfg')

    def write_cfg(defused):
        with open(cfg, 'w') as f:
            f.write('SPECIFICATION Spec\nCONSTANTS\n  EntryPoints = {%s}\n  Defused = %s\n  MaxConstructs = %d\n'
                    'INVARIANT Contract\nCHECK_DEADLOCK FALSE\n' % (', '.join('"%s"' % n for n in names), defused, 3 if thorough else 2))
    write_cfg('TRUE')
    res = tlc.run('XmlEntry.tla', cfg, timeout=1800)
    chk.add_tlc(res, 'XmlEntry (generated entry-point table, %d entry points)' % len(names))
    if res.violated:
        raise fw.Machinery('XmlEntry.tla: defusing pipeline violates the contract')
    write_cfg('FALSE')
    plain = tlc.run('XmlEntry.tla', cfg, timeout=600, coverage=False)
    chk.add_tlc(plain, 'XmlEntry (plain parser: expected counterexample)')
    if plain.violated != 'Contract':
        raise fw.Machinery('vacuity control failed: a plain parser should violate the contract')
    cases = sorted(res.cases, key=lambda c: (c['entry'], sorted(c['word'])))
    reached = set()
    for case, out, err in fw.pmap(replay, cases, init=init_worker, chunk=32):
        if err:
            raise fw.Machinery(err)
        scn = {'entry': case['entry'], 'word': sorted(case['word'])}
        chk.count(scn, nontrivial=True)
        detail = {'case': case, 'observed': out}
        if out['events']:
            chk.violation(scn, '%s touched %s while parsing %s' % (case['entry'], out['events'][:2], scn['word']), detail)
        elif out['outcome'] == 'object' and (out.get('leak') or out.get('expanded')):
            chk.violation(scn, '%s expanded an entity of the document (%s)' % (case['entry'], scn['word']), detail)
        elif case['mustRefuse'] and out['outcome'] == 'object':
            chk.violation(scn, '%s returns an object for a document with %s' % (case['entry'], scn['word']), detail)
        if out['outcome'] == 'object':
            reached.add(case['entry'])
        chk.sample({'entry': case['entry'], 'word': scn['word'], 'outcome': out['outcome'], 'how': out.get('how')}, limit=6)
    silent = [n for n in names if n not in reached]
    if silent and not chk.violations:
        # an entry point that never returns an object, even for harmless documents, is not really exercised
        raise fw.Machinery('entry points that never accepted their own base document: %s' % silent)
    chk.cov['entry_points'] = names
    chk.cov['rule'] = ('static inventory of XML-parsing call sites (AST) + words of up to %d hostile constructs (20 constructs: entity '
                      'declarations of five kinds, external DTD, XInclude, stylesheet PI, UTF-16, BOM, three truncations, four kinds of encoding-invalid bytes, non-XML, empty) '
                      'x %d entry points extracted from the code (generated *_from_string functions of every schema module, SOAP '
                      'parsers, SP / IdP parse functions per binding, metadata load, the signature pre-check); audit-hook canaries for '
                      'file and network access' % (3 if thorough else 2, len(names)))
    chk.assumptions = ['file / network access is observed through sys.addaudithook events that mention the per-run canary path or host',
                       'the lxml-based optional backend (pyXMLSecurity) is not installed and not exercised']
    import shutil
    shutil.rmtree(WORKDIR, ignore_errors=True)
    sb.cleanup()
    return chk.finish()


def do_replay(path):
    init_worker()
    j = json.load(open(path))
    print(json.dumps(replay(j['detail']['case']), indent=1, default=str))
    return 0


if __name__ == '__main__':
    if len(sys.argv) > 2 and sys.argv[1] == '--replay':
        fw.main_wrapper(lambda: do_replay(sys.argv[2]))
    fw.main_wrapper(main)
