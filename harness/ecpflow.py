"""Growth beyond the listed properties: the ECP conversation (ecp_client.Client between a real SP and a real IdP over a
scripted network) against ECP.tla -- every scenario's history of what the client sent, its outcome and error class."""
import json
import os
import sys

sys.path.insert(0, os.path.dirname(os.path.abspath(__file__)))
import env
import framework as fw
import samlbuild as sb
import sp_common as spc
import tlc

IDP_SOAP = 'https://idp1.verif.example/sso/soap'
FOREIGN = 'https://evil.example/paos'
_W = {}


SP_PAOS_OWN = 'https://sp.verif.example/acs/paos'


def world(layout='shared'):
    """SP (PAOS endpoint on the URL of its POST endpoint: the only layout handle_ecp_authn_response accepts, see
    DESIGN 15.8), IdP with a SOAP single-sign-on endpoint, metadata file for the client"""
    if layout in _W:
        return _W[layout]
    paos_url = env.SP_ACS_POST if layout == 'shared' else SP_PAOS_OWN
    w = _W.setdefault(layout, {'paos': paos_url})
    from saml2_tophat import BINDING_PAOS, BINDING_SOAP, BINDING_HTTP_POST
    idp_md = env.idp_metadata().replace('</md:IDPSSODescriptor>', '<md:SingleSignOnService Binding="%s" Location="%s"/></md:IDPSSODescriptor>'
                                        % (BINDING_SOAP, IDP_SOAP))
    sp_md = env.sp_metadata(acs=((BINDING_HTTP_POST, env.SP_ACS_POST, 1, True), (BINDING_PAOS, paos_url, 2, False)))
    w['sp'] = env.make_sp(env.sp_config(metadata_xml=[idp_md], endpoints={'assertion_consumer_service': [(env.SP_ACS_POST, BINDING_HTTP_POST),
                                                                                                       (paos_url, BINDING_PAOS)]},
                                         want_response_signed=False, want_assertions_signed=False, want_assertions_or_response_signed=False))
    w['idp'] = env.make_idp(env.idp_config(metadata_xml=[sp_md], endpoints={'single_sign_on_service': [(env.IDP1_SSO, env.BINDING_REDIRECT),
                                                                                                     (IDP_SOAP, BINDING_SOAP)]}))
    path = os.path.join(sb.tmpdir(), 'ecp-md-%s-%d.xml' % (layout, os.getpid()))
    with open(path, 'w') as f:
        f.write(idp_md)
    w['mdfile'] = path
    return w


class Reply(object):
    def __init__(self, code, text, headers=None):
        self.status_code, self.text, self.content, self.headers = code, text, text, headers or {}


def replay(case):
    from saml2_tophat import BINDING_PAOS, BINDING_SOAP, ecp
    from saml2_tophat.ecp_client import Client
    from saml2_tophat.saml import NameID, NAMEID_FORMAT_TRANSIENT
    scn = case['scn']
    w = world(scn.get('paosLayout', 'shared'))
    paos_url = w['paos']
    sp, idp = w['sp'], w['idp']
    rid, envelope = ecp.ecp_auth_request(sp, env.IDP1, relay_state='rs-%s' % ('1' if scn['relay'] else ''))
    # what the SP's envelope names (a dishonest or misconfigured SP names somebody else's URL, or sends no paos:Request)
    if scn['spRc'] == 'foreign':
        envelope = envelope.replace('responseConsumerURL="%s"' % paos_url, 'responseConsumerURL="%s"' % FOREIGN)
    elif scn['spRc'] == 'missing':
        import re
        envelope, n = re.subn(r'<(\w+):Request responseConsumerURL=[^>]*?/>', '', envelope, count=1)
        if n != 1:
            raise fw.Machinery('paos:Request header block not found in the SP envelope')
    if not scn['relay']:
        import re
        envelope, n = re.subn(r'<(\w+):RelayState [^>]*>[^<]*</\1:RelayState>', '', envelope, count=1)
        if n != 1:
            raise fw.Machinery('ecp:RelayState header block not found in the SP envelope')
    client = Client('alice', 'secret', sp='https://sp.verif.example/page', metadata_file=w['mdfile'], xmlsec_binary=env.STANDIN)
    sent = []
    accepted = []
    sp_errors = []

    def send(url, method='GET', **kw):
        data = kw.get('data') or ''
        text = data.decode('utf-8') if isinstance(data, bytes) else data
        to = {IDP_SOAP: 'idp', paos_url: 'spPaos', FOREIGN: 'foreign'}.get(url, url)
        kind = 'fault' if 'Fault>' in text else ('authnRequest' if 'AuthnRequest' in text else ('idpResponse' if ':Response' in text else 'other'))
        sent.append({'to': to, 'kind': kind, 'auth': bool(client.user and client.passwd),
                     'relay': kind == 'idpResponse' and 'rs-1' in text})
        if to == 'idp':
            if scn['idpReply'] == 'http500':
                return Reply(500, 'internal error')
            if scn['idpReply'] == 'notsoap':
                return Reply(200, 'welcome to the login page')
            req = idp.parse_authn_request(data, BINDING_SOAP)
            args = idp.response_args(req.message, [BINDING_PAOS])
            resp = idp.create_authn_response({'givenName': ['Al']}, name_id=NameID(format=NAMEID_FORMAT_TRANSIENT, text='subject-ecp'),
                                             authn={'class_ref': sb.PASSWORD, 'authn_auth': 'x'}, **args)
            target = args['destination'] if scn['idpAcs'] == 'registered' else FOREIGN
            reply = ecp.ecp_response(target, resp)
            if scn['idpReply'] == 'noEcpHeader':
                import re
                reply, n = re.subn(r'<(\w+):Header>.*?</\1:Header>', '', reply, count=1, flags=re.S)
                if n != 1:
                    raise fw.Machinery('SOAP header not found in the IdP reply')
            return Reply(200, reply)
        if kind == 'idpResponse' and to == 'spPaos':
            if scn['spFinal'] != '302':
                return Reply(int(scn['spFinal']), 'no')
            try:
                r, rs = ecp.handle_ecp_authn_response(sp, data, {rid: '/page'})
            except Exception as exc:
                sp_errors.append('%s: %s' % (type(exc).__name__, str(exc)[:100]))
                return Reply(500, 'error')
            accepted.append([r.name_id.text if r.name_id is not None else None, rs.text if rs is not None else None])
            return Reply(302, '')
        return Reply(int(scn['spFinal']) if kind == 'idpResponse' else 200, '')
    client.send = send
    out = {'sent': sent, 'done': False, 'err': 'none', 'accepted': accepted, 'sp_errors': sp_errors}
    try:
        client.ecp_conversation(client.parse_soap_message(envelope), env.IDP1)
    except fw.Machinery:
        raise
    except Exception as exc:
        out['err'] = type(exc).__name__
        out['msg'] = str(exc)[:160]
    out['done'] = bool(client.done_ecp)
    return out


def main():
    t0 = __import__('time').time()
    out = {'spec': 'ECP.tla', 'runs': []}
    for cfg, expect in (('ECP.cfg', None), ('ECP_intended.cfg', None), ('ECP_fault.cfg', 'FaultOnMismatch'), ('ECP_norelay.cfg', 'Completes'),
                        ('ECP_credentials.cfg', 'CredentialsOnlyToIdp')):
        r = tlc.run('ECP.tla', cfg, timeout=600, coverage=False)
        out['runs'].append({'cfg': cfg, 'states': r.states, 'violated': r.violated, 'expected': expect})
        if r.violated != expect:
            raise fw.Machinery('%s: expected %s, TLC says %s' % (cfg, expect, r.violated))
        if cfg == 'ECP.cfg':
            cases = r.cases
    bad = leaked = delivered = 0
    for case, res, err in fw.pmap(replay, sorted(cases, key=lambda c: json.dumps(c['scn'], sort_keys=True)), init=spc.init_worker, chunk=8):
        if err:
            raise fw.Machinery(err)
        scn = case['scn']
        got = {'sent': res['sent'], 'done': res['done'], 'err': res['err']}
        want = {'sent': case['sent'], 'done': case['done'], 'err': case['err']}
        leaked += any(m['auth'] and m['to'] != 'idp' for m in res['sent'])
        delivered += bool(res['accepted'])
        if res['done'] and res['accepted'] and res['accepted'][0] != ['subject-ecp', 'rs-1' if scn['relay'] else None]:
            bad += 1
            print('ECP-DIVERGENCE %s: the SP accepted %s' % (json.dumps(scn, sort_keys=True), res['accepted']))
        elif got != want:
            bad += 1
            if bad <= 10:
                print('ECP-DIVERGENCE %s: the client did %s (%s), the model says %s' % (json.dumps(scn, sort_keys=True), json.dumps(got), res.get('msg'), json.dumps(want)))
    out.update(cases=len(cases), divergences=bad, conversations_completed=delivered, credentials_sent_elsewhere=leaked,
               wall_s=round(__import__('time').time() - t0, 1))
    env.dump_json(os.path.join(env.WORK, 'growth-ECP.json'), out)
    print('ECP (growth, not a listed property): %d conversations replayed through ecp_client.Client, a real SP and a real IdP; %d divergences '
          'from the model; %d completed with the identity the IdP asserted; holds=%s, known not to hold=%s (%d conversations sent the '
          'credentials to another party than the IdP)'
          % (len(cases), bad, delivered, ['DeliverOnlyWhereBothAgree', 'NeverToUnnamedUrl', 'NoDeliveryOnMismatch', 'DoneOnlyAfter302', 'RelayReturned', 'IdpFirst'],
             ['FaultOnMismatch (TypeError while building the fault)', 'Completes (no relay state: AttributeError; PAOS endpoint with a URL of its own: the SP refuses the Destination)', 'CredentialsOnlyToIdp'], leaked))
    sb.cleanup()
    return 1 if bad else 0


if __name__ == '__main__':
    fw.main_wrapper(main)
