"""C10 -- incoming requests validated before the application sees them: IdPRequest.tla replayed
through Server.parse_authn_request / parse_attribute_query and Entity.parse_logout_request
(IdP and SP as receivers)."""
import base64
import json
import os
import sys

sys.path.insert(0, os.path.dirname(os.path.abspath(__file__)))
import env
import framework as fw
import samlbuild as sb
import sp_common as spc
import sp_history
import tlc

B = {'redirect': env.BINDING_REDIRECT, 'post': env.BINDING_POST, 'soap': env.BINDING_SOAP}
IDP_SSO = {'redirect': env.IDP1_SSO, 'post': env.IDP1_SSO + '/post'}
IDP_SLO = {'redirect': env.IDP1_SLO, 'post': env.IDP1_SLO + '/post', 'soap': env.IDP1_SLO + '/soap'}
SP_SLO = {'redirect': env.SP_SLO, 'post': env.SP_SLO + '/post', 'soap': env.SP_SLO + '/soap'}
AA_ATTR = 'https://idp1.verif.example/attr'
# the other SOAP queries: parse function, endpoint key, location, element name, schema-valid body
QUERIES = {
    'authnquery': ('parse_authn_query', 'authn_query_service', 'https://idp1.verif.example/authnquery', 'AuthnQuery', '',
                   '<saml:Subject><saml:NameID>subject-1</saml:NameID></saml:Subject>'),
    'authzquery': ('parse_authz_decision_query', 'authz_service', 'https://idp1.verif.example/authz', 'AuthzDecisionQuery',
                   ' Resource="urn:verif:resource"',
                   '<saml:Subject><saml:NameID>subject-1</saml:NameID></saml:Subject>'
                   '<saml:Action Namespace="urn:oasis:names:tc:SAML:1.0:action:rwedc">Read</saml:Action>'),
    'assertionid': ('parse_assertion_id_request', 'assertion_id_request_service', 'https://idp1.verif.example/aidr', 'AssertionIDRequest', '',
                    '<saml:AssertionIDRef>_assertion1</saml:AssertionIDRef>'),
    'nameidmapping': ('parse_name_id_mapping_request', 'name_id_mapping_service', 'https://idp1.verif.example/nim', 'NameIDMappingRequest', '',
                      '<saml:NameID>subject-1</saml:NameID><samlp:NameIDPolicy Format="urn:oasis:names:tc:SAML:2.0:nameid-format:persistent"/>'),
    'managenameid': ('parse_manage_name_id_request', 'manage_name_id_service', 'https://idp1.verif.example/mni', 'ManageNameIDRequest', '',
                     '<saml:NameID>subject-1</saml:NameID><samlp:Terminate/>'),
}
EVIL = 'https://evil.example/endpoint'
_RCV = {}


def receiver(rtype, endpoint, want, issuer_key='known', cert_only=False):
    key = (rtype, endpoint, want, issuer_key, cert_only)
    if key in _RCV:
        return _RCV[key]
    only = endpoint == 'otherBindingOnly'
    nokey = issuer_key == 'nokey'
    spmd = [env.sp_metadata(keys=())] if nokey else None
    extra = {'want_authn_requests_only_with_valid_cert': True} if cert_only else {}
    if rtype in ('authn', 'logout_idp'):
        eps = {'single_sign_on_service': [(IDP_SSO['redirect'], B['redirect'])] + ([] if only else [(IDP_SSO['post'], B['post'])]),
               'single_logout_service': [(IDP_SLO['redirect'], B['redirect'])] + ([] if only else [(IDP_SLO['post'], B['post']), (IDP_SLO['soap'], B['soap'])])}
        r = env.make_idp(env.idp_config(metadata_xml=spmd, endpoints=eps, want_authn_requests_signed=want, **extra))
    elif rtype in QUERIES:
        eps = {'single_sign_on_service': [(IDP_SSO['redirect'], B['redirect'])]}
        for _, service, url, _, _, _ in QUERIES.values():
            eps[service] = [(url, B['soap'])]
        r = env.make_idp(env.idp_config(metadata_xml=spmd, endpoints=eps, want_authn_requests_signed=want))
    elif rtype == 'attrquery':
        # an entity that is IdP and attribute authority; the option is read from the IdP part
        conf = env.idp_config(metadata_xml=spmd, want_authn_requests_signed=want, **extra)
        conf['service']['aa'] = {'endpoints': {'attribute_service': [(AA_ATTR, B['soap'])]},
                                 'policy': conf['service']['idp']['policy']}
        r = env.make_idp(conf)
    else:
        eps = {'assertion_consumer_service': [(env.SP_ACS_POST, B['post'])],
               'single_logout_service': [(SP_SLO['redirect'], B['redirect'])] + ([] if only else [(SP_SLO['post'], B['post']), (SP_SLO['soap'], B['soap'])])}
        r = env.make_sp(env.sp_config(metadata_xml=[env.idp_metadata(slo=env.IDP1_SLO, keys=() if nokey else (('kIdp1', 'signing'),))], endpoints=eps))
    _RCV[key] = r
    return r


def own_urls(rtype):
    if rtype in QUERIES:
        return {'soap': QUERIES[rtype][2]}
    return {'authn': IDP_SSO, 'logout_idp': IDP_SLO, 'logout_sp': SP_SLO, 'attrquery': {'soap': AA_ATTR}}[rtype]


def request_xml(rtype, rid, destination, issue_instant, sig='', marker='genuine', inner=''):
    issuer = env.IDP1 if rtype == 'logout_sp' else env.SP
    dest = ' Destination="%s"' % destination if destination is not None else ''
    ii = ' IssueInstant="%s"' % issue_instant if issue_instant is not None else ''
    if rtype == 'authn':
        return ('<samlp:AuthnRequest xmlns:samlp="%s" xmlns:saml="%s" ID="%s" Version="2.0"%s%s AssertionConsumerServiceURL="%s" '
                'ProtocolBinding="%s" ProviderName="%s"><saml:Issuer>%s</saml:Issuer>%s%s'
                '<samlp:NameIDPolicy AllowCreate="true" Format="urn:oasis:names:tc:SAML:2.0:nameid-format:transient"/>'
                '</samlp:AuthnRequest>' % (sb.NS_SAMLP, sb.NS_SAML, rid, ii, dest, env.SP_ACS_POST, B['post'], marker, issuer, sig, inner))
    if rtype in ('logout_idp', 'logout_sp'):
        return ('<samlp:LogoutRequest xmlns:samlp="%s" xmlns:saml="%s" ID="%s" Version="2.0"%s%s Reason="%s">'
                '<saml:Issuer>%s</saml:Issuer>%s%s<saml:NameID>subject-1</saml:NameID></samlp:LogoutRequest>'
                % (sb.NS_SAMLP, sb.NS_SAML, rid, ii, dest, marker, issuer, sig, inner))
    if rtype in QUERIES:
        _, _, _, tag, attrs, body = QUERIES[rtype]
        return ('<samlp:%s xmlns:samlp="%s" xmlns:saml="%s" ID="%s" Version="2.0"%s%s Consent="urn:%s"%s>'
                '<saml:Issuer>%s</saml:Issuer>%s%s%s</samlp:%s>'
                % (tag, sb.NS_SAMLP, sb.NS_SAML, rid, ii, dest, marker, attrs, issuer, sig, inner, body, tag))
    return ('<samlp:AttributeQuery xmlns:samlp="%s" xmlns:saml="%s" ID="%s" Version="2.0"%s%s Consent="urn:%s">'
            '<saml:Issuer>%s</saml:Issuer>%s%s<saml:Subject><saml:NameID>subject-1</saml:NameID></saml:Subject>'
            '</samlp:AttributeQuery>' % (sb.NS_SAMLP, sb.NS_SAML, rid, ii, dest, marker, issuer, sig, inner))


TAG = {'authn': 'AuthnRequest', 'logout_idp': 'LogoutRequest', 'logout_sp': 'LogoutRequest', 'attrquery': 'AttributeQuery'}
TAG.update((k, v[3]) for k, v in QUERIES.items())


def build(scn):
    rtype, mut = scn['rtype'], scn['mut']
    now = spc.now()
    urls = own_urls(rtype)
    dest = urls.get(scn['binding'], list(urls.values())[0])
    if scn['endpoint'] == 'otherBindingOnly':
        dest = urls['redirect']          # the only endpoint the receiver publishes
    if mut == 'dest_foreign':
        dest = EVIL
    elif mut == 'dest_absent':
        dest = None
    elif mut == 'dest_extends_path':
        dest = dest + '/../../admin'
    elif mut == 'dest_extends_host':
        dest = dest + '.attacker.example.net/'
    elif mut == 'dest_other_binding':
        dest = [u for b, u in sorted(urls.items()) if b != scn['binding']][0]
    ii = env.ts(now - 5)
    if mut == 'stale':
        ii = env.ts(now - 2 * 86400 - 100)
    elif mut == 'future':
        ii = env.ts(now + 2 * 86400 + 100)
    elif mut == 'stale26h':
        ii = env.ts(now - 26 * 3600)
    elif mut == 'future26h':
        ii = env.ts(now + 26 * 3600)
    elif mut == 'stale_offset':
        ii = env.ts(now - 30 * 3600 + 14 * 3600, 'noZ') + '+14:00'
    elif mut == 'future_offset':
        ii = env.ts(now + 30 * 3600 - 12 * 3600, 'noZ') + '-12:00'
    elif mut == 'schema':
        ii = None
    key = 'kIdp1' if rtype == 'logout_sp' else 'kSp'
    sig = sb.signature_template('req1', 'sha256') if scn['sig'] != 'none' else ''
    doc = request_xml(rtype, 'req1', dest, ii, sig)
    if mut == 'schema_reqattr':
        before = doc
        if rtype == 'authn':
            doc = doc.replace('</samlp:AuthnRequest>', '<samlp:Scoping><samlp:IDPList><samlp:IDPEntry Name="somewhere"/></samlp:IDPList>'
                              '</samlp:Scoping></samlp:AuthnRequest>')
        else:
            doc = doc.replace('</samlp:AttributeQuery>', '<saml:Attribute NameFormat="urn:oasis:names:tc:SAML:2.0:attrname-format:uri"/>'
                              '</samlp:AttributeQuery>')
        if doc == before:
            raise fw.Machinery('schema_reqattr: end tag not found in %s' % rtype)
    if mut == 'bad_enum':
        before = doc
        doc = doc.replace('</samlp:AuthnRequest>', '<samlp:RequestedAuthnContext Comparison="strongest"><saml:AuthnContextClassRef>%s'
                          '</saml:AuthnContextClassRef></samlp:RequestedAuthnContext></samlp:AuthnRequest>' % sb.PASSWORD)
        if doc == before:
            raise fw.Machinery('bad_enum: AuthnRequest end tag not found')
    if mut == 'schema_child':
        import re
        before = doc
        if rtype == 'authn':        # an IDPList must hold at least one IDPEntry
            doc = doc.replace('</samlp:AuthnRequest>', '<samlp:Scoping><samlp:IDPList/></samlp:Scoping></samlp:AuthnRequest>')
        else:                       # an AssertionIDRequest must hold at least one AssertionIDRef
            doc = re.sub(r'<saml:AssertionIDRef>.*?</saml:AssertionIDRef>', '', doc)
        if doc == before:
            raise fw.Machinery('schema_child: nothing to remove in %s' % rtype)
    if scn['sig'] != 'none':
        doc = sb.sign(doc, sb.NS_SAMLP, TAG[rtype], 'req1', key)
        if scn['sig'] == 'invalid':
            doc = doc.replace('genuine', 'edited!', 1)
        elif scn['sig'] in ('wrapped', 'wrapped_prefix'):
            import re
            genuine_sig = re.search(r'<ds:Signature .*?</ds:Signature>', doc, re.S).group(0)
            inner_genuine = request_xml(rtype, 'req1', dest, ii, '')          # the signed content, signature-less
            doc = request_xml(rtype, 'evil1' if scn['sig'] == 'wrapped' else 'req1-2', dest, ii, genuine_sig, marker='forged',
                              inner='<samlp:Extensions>%s</samlp:Extensions>' % inner_genuine)
        elif scn['sig'] == 'wrapped_ownref':
            import re
            genuine_sig = re.search(r'<ds:Signature .*?</ds:Signature>', doc, re.S).group(0)
            own_sig = genuine_sig.replace('URI="#req1"', 'URI="#evil1"', 1)
            if own_sig == genuine_sig:
                raise fw.Machinery('reference of the genuine signature not found')
            doc = request_xml(rtype, 'evil1', dest, ii, '', marker='forged',
                              inner='<samlp:Extensions>%s</samlp:Extensions>%s' % (doc, own_sig))
    if mut in ('version_11', 'version_2'):
        doc = doc.replace(' Version="2.0"', ' Version="%s"' % ('1.1' if mut == 'version_11' else '2'), 1)
    if mut == 'wrong_root':
        other = 'logout_idp' if rtype != 'logout_idp' and rtype != 'logout_sp' else 'authn'
        doc = request_xml(other, 'req1', dest, ii, '')
    elif mut == 'truncated_xml':
        doc = doc[:len(doc) // 2]
    elif mut == 'not_xml':
        doc = 'SAMLRequest is not XML at all'
    if scn['binding'] == 'soap':
        body = doc
        if mut == 'body_first_other':
            body = ('<samlp:LogoutResponse xmlns:samlp="%s" ID="lr0" Version="2.0" IssueInstant="%s"><samlp:Status><samlp:StatusCode '
                    'Value="urn:oasis:names:tc:SAML:2.0:status:Success"/></samlp:Status></samlp:LogoutResponse>' % (sb.NS_SAMLP, env.ts(now - 5))) + doc
        elif mut == 'body_two':
            body = doc + doc.replace('ID="req1"', 'ID="req2"', 1)
        enc = ('<soapenv:Envelope xmlns:soapenv="http://schemas.xmlsoap.org/soap/envelope/"><soapenv:Body>%s</soapenv:Body>'
               '</soapenv:Envelope>' % body)
    elif scn['binding'] == 'post':
        enc = sb.b64(doc)
        if mut == 'garbled_base64':
            enc = '!!' + enc[:len(enc) // 2] + '%%'
    else:
        enc = sb.deflate_b64(doc)
        if mut == 'garbled_base64':
            enc = '!!' + enc[:len(enc) // 2] + '%%'
        elif mut == 'garbled_deflate':
            enc = base64.b64encode(b'this is not a deflate stream at all').decode('ascii')
    return doc, enc


TZ = {'UTC': 'UTC0', 'east9': 'JST-9', 'west8': 'PST8'}


def replay(case):
    import time as _time
    saved = os.environ.get('TZ')
    os.environ['TZ'] = TZ[case['scn'].get('tz', 'UTC')]
    _time.tzset()
    try:
        return replay_in_zone(case)
    finally:
        if saved is None:
            os.environ.pop('TZ', None)
        else:
            os.environ['TZ'] = saved
        _time.tzset()


def replay_in_zone(case):
    scn = case['scn']
    rcv = receiver(scn['rtype'], scn['endpoint'], scn['want'], scn.get('issuerKey', 'known'), scn.get('certOnly', False))
    doc, enc = build(scn)
    obs = {'doc': doc, 'exc': None}
    try:
        if scn['rtype'] == 'authn':
            res = rcv.parse_authn_request(enc, B[scn['binding']])
        elif scn['rtype'] == 'attrquery':
            res = rcv.parse_attribute_query(enc, B[scn['binding']])
        elif scn['rtype'] in QUERIES:
            res = getattr(rcv, QUERIES[scn['rtype']][0])(enc, B[scn['binding']])
        else:
            res = rcv.parse_logout_request(enc, B[scn['binding']])
        handed = res is not None and getattr(res, 'message', None) is not None
        obs['verdict'] = 'hand' if handed else 'refuse'
        if handed:
            obs['marker'] = 'forged' if 'forged' in str(res.message) else 'genuine'
            obs['id'] = res.message.id
    except Exception as exc:
        obs['verdict'] = 'refuse'
        obs['exc'] = type(exc).__name__
        obs['msg'] = str(exc)[:160]
    return obs


def main():
    chk = fw.Check('C10', 'model_checking')
    res = tlc.run('IdPRequest.tla', 'IdPRequest_fixed.cfg', timeout=600)
    chk.add_tlc(res, 'IdPRequest_fixed.cfg')
    if res.violated:
        raise fw.Machinery('IdPRequest.tla (repaired design) violates the contract: %s' % res.violated)
    pinned = tlc.run('IdPRequest.tla', 'IdPRequest_pinned.cfg', timeout=600, coverage=False)
    chk.add_tlc(pinned, 'IdPRequest_pinned.cfg (design as pinned: expected counterexample)')
    if pinned.violated != 'PipelineMeetsContract':
        raise fw.Machinery('vacuity control failed: the pinned design should violate the contract')
    cases = sorted(res.cases, key=lambda c: json.dumps(c['scn'], sort_keys=True))
    handed = 0
    for case, obs, err in fw.pmap(replay, cases, init=spc.init_worker, chunk=8):
        if err:
            raise fw.Machinery(err)
        scn = case['scn']
        chk.count(scn, nontrivial=case['mustRefuse'] or case['mustHand'])
        h = obs['verdict'] == 'hand'
        handed += h
        detail = {'case': case, 'observed': dict((k, v) for k, v in obs.items() if k != 'doc'), 'document': obs['doc']}
        if case['mustRefuse'] and h:
            chk.violation(scn, 'request handed to the application although it must be refused: %s' % json.dumps(scn, sort_keys=True), detail)
        elif case['mustHand'] and not h:
            chk.violation(scn, 'valid request refused (%s %s): %s' % (obs.get('exc'), obs.get('msg'), json.dumps(scn, sort_keys=True)), detail)
        elif h and obs.get('marker') == 'forged':
            chk.violation(scn, 'forged request content handed to the application: %s' % json.dumps(scn, sort_keys=True), detail)
        elif h != (case['model'] == 'hand'):
            chk.note('drift: receiver says %s, pipeline model %s for %s' % (obs['verdict'], case['model'], json.dumps(scn, sort_keys=True)))
        chk.sample({'scn': scn, 'expected': 'hand' if case['mustHand'] else ('refuse' if case['mustRefuse'] else 'open'),
                    'observed': obs['verdict'], 'exc': obs.get('exc')}, limit=5)
    if handed == 0 and not chk.violations:
        raise fw.Machinery('no request was handed over: templates broken')
    chk.cov['exhaustive'] = True
    chk.cov['rule'] = ('all scenarios of IdPRequest.tla: request type (AuthnRequest, LogoutRequest to IdP and to SP, AttributeQuery, AuthnQuery, AuthzDecisionQuery, AssertionIDRequest, NameIDMappingRequest, ManageNameIDRequest) x '
                      'binding x signature (none, valid, invalid, wrapped) x want_authn_requests_signed x want_authn_requests_only_with_valid_cert x twelve mutations x endpoint '
                      'configured for the arrival binding or not')
    chk.assumptions = list(fw.TOOL_ASSUMPTIONS)
    # the receiver over time: SPHistory.tla with the IdP as receiver of signed requests
    sp_history.run(chk, 'C10')
    sb.cleanup()
    return chk.finish()


def do_replay(path):
    spc.init_worker()
    j = json.load(open(path))
    if 'hist' in j['detail']['case']:
        return sp_history.do_replay(j)
    obs = replay(j['detail']['case'])
    print(json.dumps(dict((k, v) for k, v in obs.items() if k != 'doc'), indent=1))
    return 0


if __name__ == '__main__':
    if len(sys.argv) > 2 and sys.argv[1] == '--replay':
        fw.main_wrapper(lambda: do_replay(sys.argv[2]))
    fw.main_wrapper(main)
