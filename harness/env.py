"""Shared environment of all replay / trace harnesses (DESIGN.md section 3).

* imports `saml2_tophat` from the working tree of /repo (never an installed copy),
* key pool (real RSA keys + self-signed certificates) under /verif/work/keys,
* the xmlsec1 stand-in, as subprocess (`STANDIN`) or in-process (`install_fake_popen`),
* virtual clock (`Clock`),
* template-built metadata and configurations of an SP and an IdP.

No decision logic of any property lives here.
"""
import datetime as _dt
import json
import os
import sys
import time as _time

VERIF = os.path.dirname(os.path.dirname(os.path.abspath(__file__)))
REPO = os.environ.get('VERIF_REPO', '/repo')
WORK = os.path.join(VERIF, 'work')
STANDIN = os.path.join(VERIF, 'harness', 'standin', 'xmlsec1')
GUARD = 'SAML2_TOPHAT_VERIF'

os.environ.setdefault('PYTHONHASHSEED', '0')
os.environ[GUARD] = '1'

sys.path.insert(0, os.path.join(REPO, 'src'))
sys.path.insert(0, os.path.join(VERIF, 'harness', 'standin'))
sys.path.insert(0, os.path.join(VERIF, 'harness'))

import logging
logging.disable(logging.CRITICAL)

import saml2_tophat  # noqa: E402

if not os.path.realpath(saml2_tophat.__file__).startswith(os.path.realpath(os.path.join(REPO, 'src'))):
    sys.stderr.write('MACHINERY: saml2_tophat imported from %s, not from %s/src\n'
                     % (saml2_tophat.__file__, REPO))
    sys.exit(2)

import xmlsec_model  # noqa: E402

KEYNAMES = ['kIdp1', 'kIdp1b', 'kIdp2', 'kSp', 'kSpEnc1', 'kSpEnc2', 'kAttacker', 'kMd',
            'kA', 'kB', 'kC', 'kA2', 'kB2', 'kC2',
            'kBexp']        # the key of kB under a certificate that expired in 2016
KEYDIR = os.path.join(WORK, 'keys')


def ensure_keys():
    from cryptography import x509
    from cryptography.hazmat.primitives import hashes, serialization
    from cryptography.hazmat.primitives.asymmetric import rsa
    from cryptography.x509.oid import NameOID
    os.makedirs(KEYDIR, exist_ok=True)
    for name in KEYNAMES:
        kf, cf = keyfile(name), certfile(name)
        if os.path.exists(kf) and os.path.exists(cf):
            continue
        expired = name.endswith('exp')
        if expired:
            with open(keyfile(name[:-3]), 'rb') as f:
                key = serialization.load_pem_private_key(f.read(), None)
        else:
            key = rsa.generate_private_key(public_exponent=65537, key_size=2048)
        subj = x509.Name([x509.NameAttribute(NameOID.COMMON_NAME, name)])
        cert = (x509.CertificateBuilder().subject_name(subj).issuer_name(subj)
                .public_key(key.public_key()).serial_number(KEYNAMES.index(name) + 1)
                .not_valid_before(_dt.datetime(2015, 1, 1))
                .not_valid_after(_dt.datetime(2016, 1, 1) if expired else _dt.datetime(2045, 1, 1))
                .sign(key, hashes.SHA256()))
        tmp = kf + '.tmp%d' % os.getpid()
        with open(tmp, 'wb') as f:
            f.write(key.private_bytes(serialization.Encoding.PEM,
                                      serialization.PrivateFormat.TraditionalOpenSSL,
                                      serialization.NoEncryption()))
        os.rename(tmp, kf)
        tmp = cf + '.tmp%d' % os.getpid()
        with open(tmp, 'wb') as f:
            f.write(cert.public_bytes(serialization.Encoding.PEM))
        os.rename(tmp, cf)


def keyfile(name):
    return os.path.join(KEYDIR, name + '.key')


def certfile(name):
    return os.path.join(KEYDIR, name + '.crt')


def cert_b64(name):
    """base64 body of the certificate (what goes into ds:X509Certificate)"""
    with open(certfile(name)) as f:
        lines = f.read().strip().splitlines()
    return ''.join(l for l in lines if not l.startswith('-----'))


_FPR = {}


def fingerprint_to_name(fpr):
    if not _FPR:
        for n in KEYNAMES:
            if os.path.exists(certfile(n)):
                _FPR[xmlsec_model.key_fingerprint(
                    xmlsec_model.load_public_key(certfile(n)))] = n
    return _FPR.get(fpr, fpr)


# ------------------------------------------------------------------ tool
def install_fake_popen():
    """run the stand-in in-process: sigver.Popen -> FakePopen (same argv protocol)"""
    import saml2_tophat.sigver as sigver
    sigver.Popen = xmlsec_model.FakePopen


def uninstall_fake_popen():
    import subprocess
    import saml2_tophat.sigver as sigver
    sigver.Popen = subprocess.Popen


# ------------------------------------------------------------------ clock
BASE_NOW = 1700000000      # 2023-11-14T22:13:20Z, virtual "now" of all scenario replays


class _TimeProxy(object):
    def __init__(self, clock):
        self._c = clock

    def __getattr__(self, name):
        return getattr(_time, name)

    def time(self):
        return float(self._c.now)

    def gmtime(self, secs=None):
        return _time.gmtime(self._c.now if secs is None else secs)

    def localtime(self, secs=None):
        return _time.localtime(self._c.now if secs is None else secs)


class Clock(object):
    """virtual clock: rebinds `time` and `datetime` inside saml2_tophat.time_util (and the
    `time` name in modules that read the clock directly on checked paths)"""

    def __init__(self, now=BASE_NOW):
        self.now = now
        self._saved = []

    def install(self):
        import saml2_tophat.time_util as tu
        clock = self

        class VDatetime(_dt.datetime):
            @classmethod
            def utcnow(cls):
                return cls.utcfromtimestamp(clock.now)

            @classmethod
            def now(cls, tz=None):
                return cls.fromtimestamp(clock.now, tz)

        self._saved = [(tu, 'time', tu.time), (tu, 'datetime', tu.datetime)]
        tu.time = _TimeProxy(self)
        tu.datetime = VDatetime
        for modname in ('saml2_tophat.cache', 'saml2_tophat.mdstore', 'saml2_tophat.response',
                        'saml2_tophat.validate'):
            try:
                mod = __import__(modname, fromlist=['x'])
            except Exception:
                continue
            if getattr(mod, 'time', None) is _time:
                self._saved.append((mod, 'time', mod.time))
                mod.time = tu.time
        return self

    def uninstall(self):
        for mod, name, val in self._saved:
            setattr(mod, name, val)
        self._saved = []


def ts(epoch, spelling='Z'):
    """render epoch seconds as xs:dateTime in one of the spellings of C04"""
    if spelling in ('offPlus', 'offMinus'):
        # the same instant written as local time with a numeric offset: local = UTC + offset
        off, txt = (7200, '+02:00') if spelling == 'offPlus' else (-18000, '-05:00')
        return _time.strftime('%Y-%m-%dT%H:%M:%S', _time.gmtime(epoch + off)) + txt
    base = _time.strftime('%Y-%m-%dT%H:%M:%S', _time.gmtime(epoch))
    return {'Z': base + 'Z', 'fracZ': base + '.250Z', 'noZ': base, 'frac': base + '.250',
            # a fraction above one half: the instant lies within the second that starts at `epoch` (rounding would move it)
            'fracHighZ': base + '.900Z'}[spelling]


# ------------------------------------------------------------------ entities
IDP1 = 'urn:verif:idp1'
IDP2 = 'urn:verif:idp2'
SP = 'urn:verif:sp'
SP2 = 'urn:verif:sp2'
SP_ACS_POST = 'https://sp.verif.example/acs/post'
SP_ACS_REDIRECT = 'https://sp.verif.example/acs/redirect'
SP_SLO = 'https://sp.verif.example/slo'
IDP1_SSO = 'https://idp1.verif.example/sso'
IDP1_SLO = 'https://idp1.verif.example/slo'
IDP2_SSO = 'https://idp2.verif.example/sso'

BINDING_POST = 'urn:oasis:names:tc:SAML:2.0:bindings:HTTP-POST'
BINDING_REDIRECT = 'urn:oasis:names:tc:SAML:2.0:bindings:HTTP-Redirect'
BINDING_SOAP = 'urn:oasis:names:tc:SAML:2.0:bindings:SOAP'

MD_NS = ('xmlns:md="urn:oasis:names:tc:SAML:2.0:metadata" '
         'xmlns:ds="http://www.w3.org/2000/09/xmldsig#"')


def key_descriptor(keyname, use):
    u = ' use="%s"' % use if use else ''
    return ('<md:KeyDescriptor%s><ds:KeyInfo><ds:X509Data><ds:X509Certificate>%s'
            '</ds:X509Certificate></ds:X509Data></ds:KeyInfo></md:KeyDescriptor>'
            % (u, cert_b64(keyname)))


def idp_metadata(entity_id=IDP1, keys=(('kIdp1', 'signing'),), sso=IDP1_SSO, slo=None,
                 valid_until=None, extra=''):
    vu = ' validUntil="%s"' % valid_until if valid_until else ''
    kd = ''.join(key_descriptor(k, u) for k, u in keys)
    slo_x = ''
    if slo:
        slo_x = ('<md:SingleLogoutService Binding="%s" Location="%s"/>' % (BINDING_SOAP, slo) +
                 '<md:SingleLogoutService Binding="%s" Location="%s"/>' % (BINDING_REDIRECT, slo))
    return ('<md:EntityDescriptor %s entityID="%s"%s>'
            '<md:IDPSSODescriptor protocolSupportEnumeration="urn:oasis:names:tc:SAML:2.0:protocol">'
            '%s%s<md:SingleSignOnService Binding="%s" Location="%s"/>'
            '<md:SingleSignOnService Binding="%s" Location="%s"/>'
            '</md:IDPSSODescriptor>%s</md:EntityDescriptor>'
            % (MD_NS, entity_id, vu, kd, slo_x, BINDING_REDIRECT, sso, BINDING_POST, sso, extra))


def sp_metadata(entity_id=SP, keys=(('kSp', 'signing'), ('kSpEnc1', 'encryption')),
                acs=((BINDING_POST, SP_ACS_POST, 1, True), (BINDING_REDIRECT, SP_ACS_REDIRECT, 2, False)),
                slo=SP_SLO, requested=(), want_assertions_signed=None, authn_requests_signed=None,
                extra=''):
    kd = ''.join(key_descriptor(k, u) for k, u in keys)
    acs_x = ''.join('<md:AssertionConsumerService Binding="%s" Location="%s" index="%d"%s/>'
                    % (b, l, i, ' isDefault="true"' if d else '') for (b, l, i, d) in acs)
    slo_x = ''
    if slo:
        slo_x = ('<md:SingleLogoutService Binding="%s" Location="%s"/>' % (BINDING_SOAP, slo) +
                 '<md:SingleLogoutService Binding="%s" Location="%s"/>' % (BINDING_REDIRECT, slo) +
                 '<md:SingleLogoutService Binding="%s" Location="%s"/>' % (BINDING_POST, slo))
    req_x = ''
    if requested:
        items = ''
        for r in requested:
            vals = ''.join('<saml:AttributeValue xmlns:saml="urn:oasis:names:tc:SAML:2.0:assertion">%s'
                           '</saml:AttributeValue>' % v for v in r.get('values', ()))
            items += ('<md:RequestedAttribute Name="%s" NameFormat="%s"%s%s>%s</md:RequestedAttribute>'
                      % (r['name'], r.get('name_format', 'urn:oasis:names:tc:SAML:2.0:attrname-format:uri'),
                         ' FriendlyName="%s"' % r['friendly'] if r.get('friendly') else '',
                         ' isRequired="true"' if r.get('required') else '', vals))
        req_x = ('<md:AttributeConsumingService index="1"><md:ServiceName xml:lang="en">verif'
                 '</md:ServiceName>%s</md:AttributeConsumingService>' % items)
    flags = ''
    if want_assertions_signed is not None:
        flags += ' WantAssertionsSigned="%s"' % ('true' if want_assertions_signed else 'false')
    if authn_requests_signed is not None:
        flags += ' AuthnRequestsSigned="%s"' % ('true' if authn_requests_signed else 'false')
    return ('<md:EntityDescriptor %s entityID="%s">%s'
            '<md:SPSSODescriptor%s protocolSupportEnumeration="urn:oasis:names:tc:SAML:2.0:protocol">'
            '%s%s%s%s</md:SPSSODescriptor></md:EntityDescriptor>'
            % (MD_NS, entity_id, extra, flags, kd, slo_x, acs_x, req_x))


def entities_descriptor(*eds, **kw):
    vu = ' validUntil="%s"' % kw['valid_until'] if kw.get('valid_until') else ''
    name = ' Name="%s"' % kw['name'] if kw.get('name') else ''
    ident = ' ID="%s"' % kw['ident'] if kw.get('ident') else ''
    # strip the namespace declarations of the children: declared on the aggregate
    return '<md:EntitiesDescriptor %s%s%s%s>%s%s</md:EntitiesDescriptor>' % (
        MD_NS, vu, name, ident, kw.get('prefix', ''), ''.join(eds))


ATTRMAP_DIR = os.path.join(REPO, 'tests', 'attributemaps')


def sp_config(metadata_xml=None, key='kSp', enc_keys=('kSpEnc1',), **service):
    """configuration dict of the SP under test; `service` overrides the sp service part"""
    if metadata_xml is None:
        metadata_xml = [idp_metadata()]
    sp = {
        'endpoints': {
            'assertion_consumer_service': [(SP_ACS_POST, BINDING_POST),
                                           (SP_ACS_REDIRECT, BINDING_REDIRECT)],
            'single_logout_service': [(SP_SLO, BINDING_SOAP), (SP_SLO, BINDING_REDIRECT),
                                      (SP_SLO, BINDING_POST)],
        },
        'idp': [IDP1],
    }
    top = {}
    for k, v in service.items():
        if k.startswith('top_'):
            top[k[4:]] = v
        else:
            sp[k] = v
    conf = {
        'entityid': SP,
        'name': 'verif sp',
        'service': {'sp': sp},
        'key_file': keyfile(key),
        'cert_file': certfile(key),
        'xmlsec_binary': STANDIN,
        'metadata': {'inline': list(metadata_xml)},
        'attribute_map_dir': ATTRMAP_DIR,
        'accepted_time_diff': 0,
    }
    if enc_keys:
        conf['encryption_keypairs'] = [{'key_file': keyfile(k), 'cert_file': certfile(k)}
                                       for k in enc_keys]
    conf.update(top)
    return conf


def idp_config(metadata_xml=None, key='kIdp1', entity_id=IDP1, policy=None, **service):
    if metadata_xml is None:
        metadata_xml = [sp_metadata()]
    idp = {
        'endpoints': {
            'single_sign_on_service': [(IDP1_SSO, BINDING_REDIRECT), (IDP1_SSO, BINDING_POST)],
            'single_logout_service': [(IDP1_SLO, BINDING_SOAP), (IDP1_SLO, BINDING_REDIRECT)],
        },
        'policy': policy if policy is not None else {
            'default': {'lifetime': {'minutes': 15}, 'attribute_restrictions': None,
                        'name_form': 'urn:oasis:names:tc:SAML:2.0:attrname-format:uri'}},
    }
    top = {}
    for k, v in service.items():
        if k.startswith('top_'):
            top[k[4:]] = v
        else:
            idp[k] = v
    conf = {
        'entityid': entity_id,
        'name': 'verif idp',
        'service': {'idp': idp},
        'key_file': keyfile(key),
        'cert_file': certfile(key),
        'xmlsec_binary': STANDIN,
        'metadata': {'inline': list(metadata_xml)},
        'attribute_map_dir': ATTRMAP_DIR,
    }
    conf.update(top)
    return conf


def make_sp(conf):
    from saml2_tophat.client import Saml2Client
    from saml2_tophat.config import SPConfig
    c = SPConfig()
    c.load(conf)
    return Saml2Client(config=c)


def make_idp(conf):
    from saml2_tophat.server import Server
    from saml2_tophat.config import IdPConfig
    c = IdPConfig()
    c.load(conf)
    return Server(config=c)


def dump_json(path, obj):
    os.makedirs(os.path.dirname(path), exist_ok=True)
    with open(path, 'w') as f:
        json.dump(obj, f, indent=1, sort_keys=True, default=str)
