"""Replay of IdPConcurrent.tla: one Server builds encrypted responses for several providers in several threads; a
scheduler hands out turns at the runs of the external tool (stand-in GATE hook), in the order TLC chose."""
import json
import os
import threading

import env
import framework as fw
import samlbuild as sb
import sp_common as spc
import tlc
import xmlsec_model

RECIPIENT = {'sp1': (env.SP, 'kSpEnc1'), 'sp2': (env.SP2, 'kSpEnc2'), 'sp3': ('urn:verif:sp3', 'kSp')}


class Sched(object):
    def __init__(self, names):
        self.cv = threading.Condition()
        self.turn = None
        self.state = dict((n, 'new') for n in names)
        self.gates = dict((n, 0) for n in names)

    def park(self, name):
        """called by a worker: give the turn back and wait for the next one"""
        with self.cv:
            self.state[name] = 'parked'
            self.cv.notify_all()
            while self.turn != name:
                self.cv.wait()
            self.turn = None
            self.state[name] = 'running'

    def gate(self, info):
        name = threading.current_thread().name
        if name not in self.state or info.get('mode') not in ('sign', 'encrypt'):
            return
        self.gates[name] += 1
        if self.gates[name] <= 2:          # prepare | encrypt | finish: two scheduling points per request
            self.park(name)

    def finished(self, name):
        with self.cv:
            self.state[name] = 'done'
            self.cv.notify_all()

    def grant(self, name):
        with self.cv:
            self.turn = name
            self.cv.notify_all()
            while self.turn == name or self.state[name] == 'running':
                if not self.cv.wait(60):
                    raise fw.Machinery('scheduler: %s did not come back' % name)


_IDP = {}


def server():
    if 'idp' not in _IDP:
        md = [env.sp_metadata(entity_id=eid, keys=((k, 'encryption'),)) for eid, k in RECIPIENT.values()]
        _IDP['idp'] = env.make_idp(env.idp_config(metadata_xml=md))
    return _IDP['idp']


def replay(case):
    from saml2_tophat.saml import NameID, NAMEID_FORMAT_TRANSIENT
    idp = server()          # one long-lived Server for all behaviours of the worker
    names = sorted(set(s['req'] for s in case['order'] if s['seg'] != 'End'))
    sched = Sched(names)
    results = {}

    def work(name):
        sched.park(name)
        try:
            eid, _ = RECIPIENT[name]
            res = idp.create_authn_response({'givenName': ['secret-given-' + name]}, 'id-' + name, env.SP_ACS_POST, eid,
                                            name_id=NameID(format=NAMEID_FORMAT_TRANSIENT, text='secret-subject-' + name),
                                            sign_assertion=case['sign'], sign_response=False, encrypt_assertion=True,
                                            authn={'class_ref': sb.PASSWORD, 'authn_auth': 'x'})
            results[name] = str(res)
        except Exception as exc:
            results[name] = exc
        finally:
            sched.finished(name)

    threads = [threading.Thread(target=work, name=n, args=(n,)) for n in names]
    xmlsec_model.GATE = sched.gate
    try:
        for t in threads:
            t.daemon = True
            t.start()
        for s in case['order']:
            if s['seg'] != 'End' and sched.state[s['req']] != 'done':
                sched.grant(s['req'])
        for t in threads:
            t.join(60)
    finally:
        xmlsec_model.GATE = None
    out = {}
    import c17
    for name in names:
        r = results.get(name)
        if isinstance(r, Exception) or r is None:
            out[name] = {'built': False, 'exc': repr(r)[:150]}
            continue
        leaks = [m for m in ('secret-given-' + name, 'secret-subject-' + name) if m.encode() in r.encode('utf-8')]
        out[name] = {'built': True, 'leaks': leaks, 'opens': c17.opens_with(r)}
    return out


def run(chk):
    thorough = chk.tier == 'thorough'
    res = tlc.run('IdPConcurrent.tla', 'IdPConcurrent_own.cfg', timeout=600)
    chk.add_tlc(res, 'IdPConcurrent_own.cfg')
    if res.violated:
        raise fw.Machinery('IdPConcurrent.tla (per-call state) violates %s' % res.violated)
    ctl = tlc.run('IdPConcurrent.tla', 'IdPConcurrent_shared.cfg', timeout=600, coverage=False)
    chk.add_tlc(ctl, 'IdPConcurrent_shared.cfg (certificates parked on the Server object: expected counterexample)')
    if ctl.violated != 'EncryptedForRecipient':
        raise fw.Machinery('vacuity control failed: parking the certificates on the Server should violate EncryptedForRecipient')
    cases = list(res.cases)
    if thorough:
        r3 = tlc.run('IdPConcurrent.tla', 'IdPConcurrent_own3.cfg', timeout=600, coverage=False)
        chk.add_tlc(r3, 'IdPConcurrent_own3.cfg')
        cases += r3.cases
    for case, out, err in fw.pmap(replay, cases, init=spc.init_worker, chunk=4):
        if err:
            raise fw.Machinery(err)
        sched = ' '.join('%s:%s' % (s['req'], s['seg']) for s in case['order'] if s['seg'] != 'End')
        chk.count({'interleaving': sched}, nontrivial=True)
        for name, o in sorted(out.items()):
            key = {'kind': 'concurrent', 'req': name, 'schedule': sched}
            want = RECIPIENT[name][1]
            if not o['built']:
                chk.violation(key, 'concurrent response for %s could not be built (%s) under schedule %s' % (name, o['exc'], sched), {'case': case, 'observed': out})
            elif o['leaks']:
                chk.violation(key, 'concurrent response for %s carries %s in clear (schedule %s)' % (name, o['leaks'], sched), {'case': case, 'observed': out})
            elif o['opens'] != [want]:
                chk.violation(key, 'the assertion built for %s opens with %s instead of %s alone (schedule %s)' % (name, o['opens'], want, sched),
                              {'case': case, 'observed': out})
    chk.cov['interleavings'] = len(cases)
    return len(cases)
