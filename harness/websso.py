"""Growth beyond the listed properties: the web single-sign-on profile as one system (WebSSO.tla) -- behaviours replayed
into a real Saml2Client (with the application's table of outstanding requests) and a real Server."""
import html.parser
import json
import os
import sys
import urllib.parse

sys.path.insert(0, os.path.dirname(os.path.abspath(__file__)))
import env
import framework as fw
import samlbuild as sb
import sp_common as spc
import tlc


class Inputs(html.parser.HTMLParser):
    def __init__(self):
        html.parser.HTMLParser.__init__(self, convert_charrefs=True)
        self.fields = {}

    def handle_starttag(self, tag, attrs):
        a = dict(attrs)
        if tag == 'input' and a.get('name'):
            self.fields[a['name']] = a.get('value')


class World(object):
    def __init__(self, allow_unsolicited, forget):
        self.sp = env.make_sp(env.sp_config(allow_unsolicited=allow_unsolicited,
                                            metadata_xml=[env.idp_metadata(slo=env.IDP1_SLO)]))      # long-lived, one per behaviour
        self.idp = env.make_idp(env.idp_config())
        self.forget = forget
        self.outstanding = {}
        self.reqs = {}
        self.wire = []

    def name_id(self, u):
        from saml2_tophat.saml import NameID, NAMEID_FORMAT_PERSISTENT
        return NameID(format=NAMEID_FORMAT_PERSISTENT, text='subject-' + u, sp_name_qualifier=env.SP, name_qualifier=env.IDP1)

    def issue(self, u, **args):
        resp = self.idp.create_authn_response({'givenName': ['given-' + u], 'sn': ['sn-' + u]}, name_id=self.name_id(u),
                                              authn={'class_ref': sb.PASSWORD, 'authn_auth': 'x'}, sign_response=True, **args)
        info = self.idp.apply_binding(env.BINDING_POST, str(resp), args['destination'], relay_state='rs', response=True)
        p = Inputs()
        p.feed(info['data'])
        self.wire.append(p.fields['SAMLResponse'])

    def step(self, op):
        name = op['op']
        if name == 'Start':
            reqid, info = self.sp.prepare_for_authenticate(entityid=env.IDP1, relay_state='rs', binding=env.BINDING_REDIRECT)
            url = dict(info['headers'])['Location']
            self.reqs[op['req']] = (reqid, dict(urllib.parse.parse_qsl(urllib.parse.urlsplit(url).query))['SAMLRequest'])
            self.outstanding[reqid] = '/came/from/%d' % op['req']
            return {}
        if name == 'Answer':
            reqid, enc = self.reqs[op['req']]
            req = self.idp.parse_authn_request(enc, env.BINDING_REDIRECT)
            args = self.idp.response_args(req.message)
            if args['in_response_to'] != reqid:
                raise fw.Machinery('the IdP read another request id than the SP wrote')
            args.pop('binding', None)
            self.issue(op['user'], **args)
            return {}
        if name == 'Push':
            self.issue(op['user'], in_response_to=None, destination=env.SP_ACS_POST, sp_entity_id=env.SP)
            return {}
        if name == 'Deliver':
            accepted, who, irt = False, None, None
            try:
                resp = self.sp.parse_authn_request_response(self.wire[op['resp'] - 1], env.BINDING_POST, dict(self.outstanding))
                if resp is not None and resp.name_id is not None:
                    accepted, who, irt = True, resp.name_id.text, resp.in_response_to
            except Exception as exc:
                who = type(exc).__name__
            if accepted and self.forget and irt in self.outstanding:
                del self.outstanding[irt]
            return {'accepted': accepted, 'who': who}
        if name == 'Logout':
            self.sp.local_logout(self.name_id(op['user']))
            return {}
        if name == 'IdPLogout':
            from saml2_tophat.soap import make_soap_enveloped_saml_thingy
            import xml.etree.ElementTree as ET
            rid, req = self.idp.create_logout_request(env.SP_SLO, env.SP, name_id=self.name_id(op['user']))
            info = self.sp.handle_logout_request(make_soap_enveloped_saml_thingy(req), self.name_id(op['current']), env.BINDING_SOAP)
            data = info['data'] if isinstance(info['data'], bytes) else info['data'].encode('utf-8')
            codes = [e.get('Value').rsplit(':', 1)[1] for e in ET.fromstring(data).iter('{%s}StatusCode' % sb.NS_SAMLP)]
            return {'status': 'Success' if codes == ['Success'] else codes[-1]}
        if name == 'Expire':
            spc.CLOCK.now += 3600
            return {}
        raise fw.Machinery('unknown op %r' % (op,))

    def project(self, users):
        back = dict((v[0], k) for k, v in self.reqs.items())
        return {'outstanding': sorted(back[r] for r in self.outstanding), 'sessions': sorted(u for u in users if self.sp.is_logged_in(self.name_id(u)))}


def replay(case):
    problems = []
    saved = spc.CLOCK.now
    w = World(case['allow'], case['forget'])
    try:
        for k, st in enumerate(case['hist']):
            op = st['op']
            if op['op'] == 'End':
                break
            try:
                got = w.step(op)
            except fw.Machinery:
                raise
            except Exception as exc:
                problems.append({'step': k, 'op': op, 'what': 'exception %s: %s' % (type(exc).__name__, str(exc)[:150])})
                break
            if op['op'] == 'Deliver':
                if got['accepted'] != op['accepted']:
                    problems.append({'step': k, 'op': op, 'what': 'the SP %s the response (%s), the model says %s'
                                     % ('accepts' if got['accepted'] else 'refuses', got['who'], 'accept' if op['accepted'] else 'refuse')})
                    break
                if got['accepted'] and got['who'] != 'subject-' + op['user']:
                    problems.append({'step': k, 'op': op, 'what': 'accepted identity %s, expected subject-%s' % (got['who'], op['user'])})
                    break
            if op['op'] == 'IdPLogout' and got['status'] != op['status']:
                problems.append({'step': k, 'op': op, 'what': 'the SP answers the logout request with %s, the model says %s' % (got['status'], op['status'])})
                break
            want = {'outstanding': sorted(st['outstanding']), 'sessions': sorted(st['sessions'])}
            have = w.project(['u1', 'u2'])
            if have != want:
                problems.append({'step': k, 'op': op, 'what': 'state after the step', 'expected': want, 'observed': have})
                break
    finally:
        spc.CLOCK.now = saved
    return problems


def main():
    t0 = __import__('time').time()
    out = {'spec': 'WebSSO.tla', 'runs': []}
    for cfg, expect in (('WebSSO_holds.cfg', None), ('WebSSO_keep.cfg', 'NoReplay'), ('WebSSO_push.cfg', 'NoReplay')):
        r = tlc.run('WebSSO.tla', cfg, timeout=600, coverage=False)
        out['runs'].append({'cfg': cfg, 'states': r.states, 'violated': r.violated, 'expected': expect})
        if r.violated != expect:
            raise fw.Machinery('%s: expected %s, TLC says %s' % (cfg, expect, r.violated))
    rng = __import__('random').Random(int(os.environ.get('VERIF_SEED', '1')))
    cases = []
    for name, allow, forget in (('sim_solicited', False, True), ('sim_keep', False, False), ('sim_push', True, True)):
        r = tlc.run('WebSSOSim.tla', 'WebSSO_%s.cfg' % name, timeout=600, coverage=False)
        hs = [h for h in r.cases if any(s['op']['op'] == 'Deliver' for s in h)]
        rng.shuffle(hs)
        r2 = tlc.run('WebSSOSim.tla', 'WebSSO_%s_long.cfg' % name, timeout=600, coverage=False, simulate='num=6', depth=14,
                     seed=int(os.environ.get('VERIF_SEED', '1')))
        cases += [{'allow': allow, 'forget': forget, 'hist': h} for h in hs[:250] + r2.cases[:96]]
    bad = 0
    for case, problems, err in fw.pmap(replay, cases, init=spc.init_worker, chunk=4):
        if err:
            raise fw.Machinery(err)
        for p in problems:
            bad += 1
            if bad <= 10:
                print('WEBSSO-DIVERGENCE (allow_unsolicited=%s, forget=%s) step %d %s: %s\n  expected %s\n  observed %s\n  after %s'
                      % (case['allow'], case['forget'], p['step'], json.dumps(p['op']), p['what'], json.dumps(p.get('expected')),
                         json.dumps(p.get('observed')), json.dumps([s['op'] for s in case['hist'][:p['step']]])))
    out['behaviours'] = len(cases)
    out['divergences'] = bad
    out['wall_s'] = round(__import__('time').time() - t0, 1)
    env.dump_json(os.path.join(env.WORK, 'growth-WEBSSO.json'), out)
    print('WEBSSO (growth, not a listed property): %d behaviours replayed, %d divergences; holds=%s, known not to hold=%s'
          % (len(cases), bad, ['SessionHasCause', 'SolicitedOnly', 'NoLateLogin', 'NoReplay when the application forgets answered requests'],
             ['NoReplay when it keeps them', 'NoReplay for IdP-initiated responses']))
    return 1 if bad else 0


if __name__ == '__main__':
    fw.main_wrapper(main)
