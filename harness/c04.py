"""C04 -- validity windows: SPTime.tla replayed into the real SP under the virtual clock."""
import json
import os
import sys

sys.path.insert(0, os.path.dirname(os.path.abspath(__file__)))
import env
import framework as fw
import samlbuild as sb
import sp_common as spc
import sp_history
import tlc


def build(case):
    scn, vals = case['scn'], case['vals']
    now = spc.now()
    sp = scn['spelling']

    def t(v):
        return None if v == 'absent' else env.ts(now + int(v), sp)
    a = spc.default_assertion()
    a['issue_instant'] = env.ts(now - 5, sp)
    a['conf'] = [{'recipient': env.SP_ACS_POST, 'irt': 'id1', 'nooa': t(vals['sNOOA']), 'nb': t(vals['sNB'])}]
    other = {'recipient': env.SP_ACS_POST, 'irt': 'id1', 'nooa': env.ts(now + 3 * 86400, sp)}
    if scn.get('conf2') == 'validFirst':
        a['conf'].insert(0, other)
    elif scn.get('conf2') == 'validSecond':
        a['conf'].append(other)
    a['cond'] = {'nb': t(vals['cNB']), 'nooa': t(vals['cNOOA']), 'audiences': [[env.SP]] if scn.get('condKids', 'audience') == 'audience' else []}
    a['authn'] = {'instant': env.ts(now - 10, sp), 'session_nooa': t(vals['sess'])}
    if scn.get('stmt2', 'none') != 'none':
        a['authn2'] = {'instant': env.ts(now - 10, sp), 'session_nooa': env.ts(now + (3 * 86400 if scn['stmt2'] == 'valid' else -3 * 86400), sp)}
    r = spc.default_response()
    r['issue_instant'] = env.ts(now + int(case['issue']), sp)
    return sb.response(r, sb.assertion(a))


TZ = {'UTC': 'UTC0', 'east9': 'JST-9', 'west5': 'EST5'}


def replay(case):
    import time as _time
    saved = os.environ.get('TZ')
    os.environ['TZ'] = TZ[case['scn'].get('tz', 'UTC')]
    _time.tzset()
    try:
        return replay_in_zone(case)
    finally:
        if saved is None:
            os.environ.pop('TZ', None)
        else:
            os.environ['TZ'] = saved
        _time.tzset()


def replay_in_zone(case):
    scn = case['scn']
    kw = dict(want_response_signed=False, want_assertions_signed=False, want_assertions_or_response_signed=False)
    if scn['slack']:
        kw['top_accepted_time_diff'] = scn['slack']
    sp = spc.sp_for(**kw)
    doc = build(case)
    obs = spc.observe(sp, doc, env.BINDING_POST, {'id1': '/'})
    obs['doc'] = doc
    obs['now'] = spc.now()
    return obs


def main():
    chk = fw.Check('C04', 'model_checking')
    thorough = chk.tier == 'thorough'
    res = tlc.run('SPTime.tla', 'SPTime.cfg', timeout=1200)
    chk.add_tlc(res, 'SPTime.cfg')
    if res.violated:
        raise fw.Machinery('SPTime.tla: pipeline violates the contract: %s\n%s' % (res.violated, res.text[-2000:]))
    cases = sorted(res.cases, key=lambda c: json.dumps(c['scn'], sort_keys=True))
    if not thorough:
        cases = [c for c in cases if abs(c['scn']['d']) > 10**6 or c['scn'].get('condKids') == 'none' or c['scn']['stmt2'] != 'none' or c['scn']['conf2'] != 'none' or (c['scn']['tz'] != 'UTC' and chk.rng.random() < 0.5) or chk.rng.random() < 0.25]
    nacc = 0
    for case, obs, err in fw.pmap(replay, cases, init=spc.init_worker, chunk=64):
        if err:
            raise fw.Machinery(err)
        scn = case['scn']
        chk.count(scn, nontrivial=case['mustAccept'] or case['mustReject'])
        accepted = obs['verdict'] == 'accept'
        nacc += accepted
        detail = {'case': case, 'observed': dict((k, v) for k, v in obs.items() if k not in ('doc', 'calls')), 'document': obs['doc']}
        if case['mustReject'] and accepted:
            chk.violation(scn, 'response accepted outside a validity window: %s values %s issue %s' % (json.dumps(scn, sort_keys=True), case['vals'], case['issue']), detail)
        elif case['mustAccept'] and not accepted:
            chk.violation(scn, 'response inside all validity windows rejected (%s %s): %s' % (obs.get('exc'), obs.get('msg', ''), json.dumps(scn, sort_keys=True)), detail)
        elif accepted and case['expiry'] != 'unspecified' and obs.get('nooa') != obs['now'] + int(case['expiry']):
            chk.violation(scn, 'session expiry handed to the application is %r, expected now%+d (%s)' % (obs.get('nooa'), int(case['expiry']), json.dumps(scn, sort_keys=True)), detail)
        elif accepted != (case['model'] == 'accept'):
            chk.note('drift: SP says %s, pipeline model says %s for %s' % (obs['verdict'], case['model'], json.dumps(scn, sort_keys=True)))
        chk.sample({'scn': scn, 'vals': case['vals'], 'issue': case['issue'],
                    'expected': 'accept' if case['mustAccept'] else ('reject' if case['mustReject'] else 'open'),
                    'observed': obs['verdict'], 'exc': obs.get('exc')}, limit=5)
    if nacc == 0 and not chk.violations:
        raise fw.Machinery('no scenario was accepted: templates broken')
    chk.cov['exhaustive'] = thorough
    chk.cov['rule'] = ('scenarios of SPTime.tla: subset of optional bounds present x focused bound x distance from its edge '
                      '(-2..+2 s, far) x multiples of the allowance x allowance {0,1,60,86400} x seven time-stamp spellings (fractions below and above one half, numeric time-zone offsets); '
                      'thorough replays all, quick a seeded quarter; non-trivial = the contract demands acceptance or rejection')
    chk.assumptions = ['virtual clock (saml2_tophat.time_util.time/datetime rebound); unsigned responses',
                       'instants exactly on an edge and margins within the allowance are left open']
    # the same receiver over time: SPHistory.tla
    sp_history.run(chk, 'C04')
    sb.cleanup()
    return chk.finish()


def do_replay(path):
    spc.init_worker()
    j = json.load(open(path))
    if 'hist' in j['detail']['case']:
        return sp_history.do_replay(j)
    obs = replay(j['detail']['case'])
    print(json.dumps(dict((k, v) for k, v in obs.items() if k != 'doc'), indent=1))
    return 0


if __name__ == '__main__':
    if len(sys.argv) > 2 and sys.argv[1] == '--replay':
        fw.main_wrapper(lambda: do_replay(sys.argv[2]))
    fw.main_wrapper(main)
