"""Growth beyond the listed properties: httpbase.HTTPBase.set_cookie / cookies against CookieJar.tla -- every scenario's
Set-Cookie headers fed to a real HTTPBase under the virtual clock, then every probe URL asked for its cookies."""
import json
import os
import sys
import time as _time

sys.path.insert(0, os.path.dirname(os.path.abspath(__file__)))
import env
import framework as fw
import sp_common as spc
import tlc

HOLD_CODE = ['ExpiredNeverSent', 'LaterWins']
REFUTED = [('CookieJar_hostonly.cfg', 'HostOnly'), ('CookieJar_foreign.cfg', 'NoForeignDomain'), ('CookieJar_label.cfg', 'LabelBoundary'),
           ('CookieJar_segment.cfg', 'SegmentBoundary'), ('CookieJar_covers.cfg', 'DomainCoversItself')]


def text(tokens):
    return ''.join(tokens)


def cookie_date(epoch):
    return _time.strftime('%a, %d-%b-%Y %H:%M:%S GMT', _time.gmtime(epoch))


class Req(object):
    def __init__(self, url):
        self.url = url


def replay(case):
    from six.moves.http_cookies import SimpleCookie
    import saml2_tophat.httpbase as hb
    import saml2_tophat.time_util as tu
    hb.time = tu.time                   # Max-Age is added to time.time(): the virtual clock there too
    scn = case['scn']
    spc.CLOCK.now = env.BASE_NOW
    jar = hb.HTTPBase(verify=False)
    headers = []
    for i, op in enumerate(scn['ops'], 1):
        origin = text(op['origin'])
        h = '%s=v%d' % (op['name'], i)
        if op['dom'] != 'none':
            dom = {'self': origin, 'dotself': '.' + origin, 'parent': 'example.org',
                   'other': 'sp.example.org' if origin == 'idp.example.net' else 'idp.example.net'}[op['dom']]
            h += '; Domain=%s' % dom
        if op['path'] != ['-']:
            h += '; Path=%s' % text(op['path'])
        if op['life'] == 'short':
            h += '; Expires=%s' % cookie_date(env.BASE_NOW + 50)
        elif op['life'] == 'past':
            h += '; Expires=%s' % cookie_date(env.BASE_NOW - 50)
        elif op['life'] == 'maxage0':
            h += '; Max-Age=0'
        headers.append(h)
        try:
            jar.set_cookie(SimpleCookie(h), Req('https://%s/' % origin))
        except KeyError:
            pass                        # HTTPBase.send swallows it the same way (deleting a cookie that is not there)
    spc.CLOCK.now = env.BASE_NOW + scn['elapsed']
    out = {'headers': headers, 'answers': []}
    for a in case['answers']:
        url = 'https://%s%s' % (text(a['probe']['host']), text(a['probe']['path']))
        out['answers'].append(jar.cookies(url))
    spc.CLOCK.now = env.BASE_NOW
    return out


def main():
    t0 = _time.time()
    out = {'spec': 'CookieJar.tla', 'runs': []}
    cases = None
    for cfg, expect in [('CookieJar_code.cfg', None), ('CookieJar_rfc.cfg', None)] + REFUTED:
        r = tlc.run('CookieJar.tla', cfg, timeout=900, coverage=False)
        out['runs'].append({'cfg': cfg, 'states': r.states, 'violated': r.violated, 'expected': expect})
        if r.violated != expect:
            raise fw.Machinery('%s: expected %s, TLC says %s' % (cfg, expect, r.violated))
        if cfg == 'CookieJar_code.cfg':
            cases = sorted(r.cases, key=lambda c: json.dumps(c['scn'], sort_keys=True))
    bad = probes = sent = 0
    for case, res, err in fw.pmap(replay, cases, init=spc.init_worker, chunk=64):
        if err:
            raise fw.Machinery(err)
        for a, got in zip(case['answers'], res['answers']):
            probes += 1
            cands = {}
            for name, i in a['sent']:
                cands.setdefault(name, set()).add('v%d' % i)
            sent += bool(got)
            ok = set(got) == set(cands) and all(got[n] in cands[n] for n in got)
            if not ok:
                bad += 1
                if bad <= 10:
                    print('COOKIEJAR-DIVERGENCE %s -> %s%s: the jar sends %s, the model of the code says %s'
                          % (res['headers'], text(a['probe']['host']), text(a['probe']['path']), json.dumps(got, sort_keys=True),
                             json.dumps(dict((k, sorted(v)) for k, v in cands.items()), sort_keys=True)))
    out.update(cases=len(cases), probes=probes, probes_with_cookies=sent, divergences=bad, wall_s=round(_time.time() - t0, 1))
    env.dump_json(os.path.join(env.WORK, 'growth-COOKIEJAR.json'), out)
    print('COOKIEJAR (growth, not a listed property): %d header scenarios x 16 probe URLs = %d lookups replayed through HTTPBase, %d with '
          'cookies; %d divergences from the model of the code; holds=%s; known not to hold (RFC 6265, expected counterexamples)=%s'
          % (len(cases), probes, sent, bad, HOLD_CODE, [i for _, i in REFUTED]))
    return 1 if bad else 0


if __name__ == '__main__':
    fw.main_wrapper(main)
