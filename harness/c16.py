"""C16 -- metadata store: MdStore.tla federations rendered from the facts TLC emits, loaded into
the real MetadataStore (signed aggregates through the stand-in), every query of the universe
compared with the acceptable answers; configuration -> metadata -> store round trip."""
import json
import os
import re
import sys

sys.path.insert(0, os.path.dirname(os.path.abspath(__file__)))
import env
import framework as fw
import samlbuild as sb
import sp_common as spc
import tlc
import xmlsec_model

NS_MD = 'urn:oasis:names:tc:SAML:2.0:metadata'
EID = {'e1': 'urn:verif:e1', 'e2': 'urn:verif:e2', 'e3': 'urn:verif:e3', 'unknown': 'urn:verif:nobody'}
B = {'redirect': env.BINDING_REDIRECT, 'post': env.BINDING_POST, 'soap': env.BINDING_SOAP}
LOC = lambda l: 'https://md.verif.example/%s' % l
TAG = {'idpsso': 'IDPSSODescriptor', 'spsso': 'SPSSODescriptor', 'attribute_authority': 'AttributeAuthorityDescriptor'}
SVCTAG = {'single_sign_on_service': 'SingleSignOnService', 'single_logout_service': 'SingleLogoutService',
          'assertion_consumer_service': 'AssertionConsumerService', 'attribute_service': 'AttributeService'}
ORDER = ['single_logout_service', 'single_sign_on_service', 'attribute_service', 'assertion_consumer_service']
CAT = {'cat1': 'http://refeds.org/category/research-and-scholarship', 'cat2': 'urn:verif:category:two'}
CAT_REV = dict((v, k) for k, v in CAT.items())
PROTO = 'protocolSupportEnumeration="urn:oasis:names:tc:SAML:2.0:protocol"'


CATLAYOUT = ['one']


def entity_xml(e, src, facts, keys, valid_until=None, evil=False, old=False):
    vu = ' validUntil="%s"' % valid_until if valid_until else ''
    x = '<md:EntityDescriptor %s entityID="%s"%s>' % (env.MD_NS, EID[e], vu)
    if e == 'e2' or (old and e == 'e1'):
        def attr(cs):
            return ('<saml:Attribute xmlns:saml="%s" Name="http://macedir.org/entity-category" '
                    'NameFormat="urn:oasis:names:tc:SAML:2.0:attrname-format:uri">%s</saml:Attribute>'
                    % (sb.NS_SAML, ''.join('<saml:AttributeValue>%s</saml:AttributeValue>' % CAT[c] for c in cs)))
        ea = '<mdattr:EntityAttributes xmlns:mdattr="urn:oasis:names:tc:SAML:metadata:attribute">%s</mdattr:EntityAttributes>'
        layout = CATLAYOUT[0] if e == 'e2' else 'one'
        if layout == 'twoAttributes':
            inner = ea % (attr(['cat1']) + attr(['cat2']))
        elif layout == 'twoContainers':
            inner = ea % attr(['cat1']) + ea % attr(['cat2'])
        else:
            inner = ea % attr(['cat1', 'cat2'])
        x += '<md:Extensions>%s</md:Extensions>' % inner
    for role in ('idpsso', 'spsso', 'attribute_authority'):
        fs = [f for f in facts if f['e'] == e and f['src'] == src and f['role'] == role]
        ks = [k for k in keys if k['e'] == e and k['src'] == src and k['role'] == role]
        if not fs and not ks:
            continue
        x += '<md:%s %s>' % (TAG[role], PROTO)
        for k in sorted(ks, key=lambda k: k['key']):
            x += env.key_descriptor(k['key'], None if k['use'] == 'none' else k['use'])
        for svc in ORDER:
            for f in sorted((f for f in fs if f['svc'] == svc), key=lambda f: f['loc']):
                idx = ' index="%d"' % f['idx'] if svc == 'assertion_consumer_service' else ''
                loc = 'https://evil.example/sso' if evil else LOC(f['loc'])
                x += '<md:%s Binding="%s" Location="%s"%s/>' % (SVCTAG[svc], B[f['b']], loc, idx)
        if role == 'spsso' and e == 'e2':
            x += ('<md:AttributeConsumingService index="1"><md:ServiceName xml:lang="en">verif</md:ServiceName>'
                  '<md:RequestedAttribute Name="urn:oid:2.5.4.42" NameFormat="urn:oasis:names:tc:SAML:2.0:attrname-format:uri" '
                  'FriendlyName="givenName" isRequired="true"/>'
                  '<md:RequestedAttribute Name="urn:oid:0.9.2342.19200300.100.1.3" '
                  'NameFormat="urn:oasis:names:tc:SAML:2.0:attrname-format:uri" FriendlyName="mail"/>'
                  '<md:RequestedAttribute Name="urn:oid:2.5.4.12" NameFormat="urn:oasis:names:tc:SAML:2.0:attrname-format:uri" '
                  'FriendlyName="title" isRequired="false"/>'
                  '<md:RequestedAttribute Name="urn:oid:2.5.4.4" NameFormat="urn:oasis:names:tc:SAML:2.0:attrname-format:uri" '
                  'FriendlyName="sn" isRequired="0"/>'
                  '</md:AttributeConsumingService>')
        x += '</md:%s>' % TAG[role]
    return x + '</md:EntityDescriptor>'


def when(v):
    now = spc.now()
    return {'absent': None, 'future': env.ts(now + 86400), 'past': env.ts(now - 3600),
            'pastOffset': env.ts(now - 3600, 'offPlus')}[v]


def source_a(case, old=False):
    scn = case['scn']
    CATLAYOUT[0] = scn.get('catLayout', 'one')
    facts, keys = case['facts'], case['keys']
    if old:
        # the earlier content of the same source: other locations, other keys, e1 with categories it no longer has
        facts = [dict(f, loc='old-' + f['loc']) for f in facts]
        keys = [dict(k, key={'kIdp1': 'kAttacker', 'kSp': 'kIdp2'}.get(k['key'], k['key'])) for k in keys]
    eds = entity_xml('e1', 'A', facts, keys, None if old else when(scn['vuE1']), old=old) + entity_xml('e2', 'A', facts, keys, old=old)
    vu = None if old else when(scn['vuDoc'])
    sig = sb.signature_template('fedA', 'sha256') if scn['sig'] != 'none' else ''
    doc = env.entities_descriptor(eds, ident='fedA', valid_until=vu, prefix=sig, name='urn:verif:fedA')
    if scn['sig'] == 'none':
        return doc
    doc = sb.sign(doc, NS_MD, 'EntitiesDescriptor', 'fedA', 'kMd')
    if scn['sig'] == 'invalid':
        return doc.replace(LOC('loc1'), 'https://evil.example/sso', 1)
    if scn['sig'] == 'wrapped':
        genuine_sig = re.search(r'<ds:Signature .*?</ds:Signature>', doc, re.S).group(0)
        bare = doc.replace(genuine_sig, '', 1)            # the digested content: the aggregate without its signature
        evil = entity_xml('e1', 'A', facts, keys, evil=True)
        return env.entities_descriptor(evil + bare, ident='evilFed', prefix=genuine_sig, name='urn:verif:fedA',
                                       valid_until=vu)
    return doc


def source_b(case):
    facts, keys = case['facts'], case['keys']
    e3 = entity_xml('e3', 'B', facts, keys)
    if case['scn']['dupe']:
        return env.entities_descriptor(e3 + entity_xml('e1', 'B', facts, keys), name='urn:verif:fedB')
    return e3


_KEYNAME = {}


def keyname(b64cert):
    if not _KEYNAME:
        for k in env.KEYNAMES:
            _KEYNAME[env.cert_b64(k)] = k
    return _KEYNAME.get(''.join(b64cert.split()), 'unknown-cert')


class FakeHttp(object):
    def __init__(self, content):
        self.content = content

    def send(self, url, **kw):
        class R(object):
            status_code = 200
        r = R()
        r.content = self.content
        r.text = self.content
        return r


def load_source(mds, src, doc, scn):
    if src == 'A' and scn['cert']:
        mds.http = FakeHttp(doc.encode('utf-8'))
        if scn.get('via') == 'imp':
            mds.imp([{'class': 'saml2_tophat.mdstore.MetaDataExtern',
                      'metadata': [('https://md.verif.example/fedA.xml', env.certfile('kMd'))]}])
        else:
            mds.load('remote', url='https://md.verif.example/fedA.xml', cert=env.certfile('kMd'))
    elif src == 'B' and scn.get('bLoose'):
        mds.http = FakeHttp(doc.encode('utf-8'))
        mds.load('remote', url='https://md.verif.example/fedB.xml', check_validity=False)
    elif src == 'A' and (scn.get('bLoose') or scn.get('reload')):
        path = os.path.join(sb.tmpdir(), 'fedA-%d.xml' % os.getpid())
        with open(path, 'w') as f:
            f.write(doc)
        mds.load('local', path)
    else:
        mds.load('inline', doc)


def ask(mds, a):
    from saml2_tophat.s_utils import UnknownSystemEntity, UnsupportedBinding
    e = EID[a['e']]
    try:
        if a['q'] == 'service':
            if a['svc'] == 'single_sign_on_service':
                r = mds.single_sign_on_service(e, B[a['b']])
            elif a['svc'] == 'single_logout_service':
                r = mds.single_logout_service(e, B[a['b']], a['role'])
            elif a['svc'] == 'assertion_consumer_service':
                r = mds.assertion_consumer_service(e, B[a['b']])
            else:
                r = mds.attribute_service(e, B[a['b']])
            locs = sorted(set(s['location'].rsplit('/', 1)[1] if s['location'].startswith('https://md.verif.example/')
                              else s['location'] for s in r))
            return {'r': 'set', 'v': locs}
        if a['q'] == 'certs':
            r = mds.certs(e, a['role'], a['use'])
            return {'r': 'set', 'v': sorted(set(keyname(c) for c in r))}
        if a['q'] == 'attrreq':
            r = mds.attribute_requirement(e)
            if r is None:
                return {'r': 'none'}
            return {'r': 'attrs', 'req': sorted(x.get('friendly_name') or x.get('name') for x in r['required']),
                    'opt': sorted(x.get('friendly_name') or x.get('name') for x in r['optional'])}
        r = mds.entity_categories(e)
        return {'r': 'set', 'v': sorted(CAT_REV.get(c, c) for c in r)}
    except UnknownSystemEntity:
        return {'r': 'UnknownSystemEntity'}
    except UnsupportedBinding:
        return {'r': 'UnsupportedBinding'}
    except KeyError:
        return {'r': 'KeyError'}


def replay(case):
    from saml2_tophat.mdstore import MetadataStore
    scn = case['scn']
    sp = spc.sp_for()
    mds = MetadataStore(sp.config.attribute_converters, sp.config)
    docs = {'A': source_a(case), 'B': source_b(case)}
    load_log = []
    for src in (['A', 'B'] if scn['order'] == 'AB' else ['B', 'A']):
        try:
            load_source(mds, src, source_a(case, old=True) if (src == 'A' and scn.get('reload')) else docs[src], scn)
            load_log.append([src, 'ok'])
        except Exception as exc:
            load_log.append([src, type(exc).__name__])
    if scn.get('reload'):
        for a in case['answers']:              # the store is used for a while ...
            ask(mds, a)
        load_log = [x for x in load_log if x[0] != 'A']
        try:                                   # ... then the source is refreshed
            load_source(mds, 'A', docs['A'], scn)
            load_log.append(['A', 'ok (reloaded)'])
        except Exception as exc:
            load_log.append(['A', type(exc).__name__ + ' (reload)'])
    out = {'load': load_log, 'answers': [ask(mds, a) for a in case['answers']], 'docA': docs['A']}
    return out


def norm(x):
    x = dict(x)
    for k in ('v', 'req', 'opt'):
        if k in x:
            x[k] = sorted(x[k])
    return x


def roundtrip(_):
    """metadata generated from an entity's own configuration loads back to the same endpoints and keys"""
    from saml2_tophat.metadata import entity_descriptor
    from saml2_tophat.mdstore import MetadataStore
    problems = []
    sp = spc.sp_for()
    for kind, ent in (('sp', spc.sp_for()), ('idp', spc.idp_for())):
        text = str(entity_descriptor(ent.config))
        mds = MetadataStore(sp.config.attribute_converters, sp.config)
        mds.load('inline', text)
        eid = ent.config.entityid
        ctx = 'sp' if kind == 'sp' else 'idp'
        services = {'sp': ['assertion_consumer_service', 'single_logout_service'],
                    'idp': ['single_sign_on_service', 'single_logout_service']}[kind]
        for svc in services:
            conf = ent.config.getattr('endpoints', ctx).get(svc, [])
            for binding in (env.BINDING_POST, env.BINDING_REDIRECT, env.BINDING_SOAP):
                want = sorted(u for u, b in conf if b == binding)
                try:
                    if svc == 'assertion_consumer_service':
                        got = mds.assertion_consumer_service(eid, binding)
                    elif svc == 'single_sign_on_service':
                        got = mds.single_sign_on_service(eid, binding)
                    else:
                        got = mds.single_logout_service(eid, binding, 'spsso' if kind == 'sp' else 'idpsso')
                    got = sorted(s['location'] for s in got)
                except Exception as exc:
                    got = [] if want == [] else ['!%s' % type(exc).__name__]
                if got != want:
                    problems.append('%s %s %s: configuration %s, store %s' % (kind, svc, binding, want, got))
        certs = [keyname(c) for c in mds.certs(eid, 'any', 'signing')]
        own = os.path.basename(ent.config.cert_file).replace('.crt', '')
        if own not in certs:
            problems.append('%s: own certificate %s not among the signing certificates %s' % (kind, own, certs))
    return problems


GEN_LOC = 'https://sp.verif.example/acs/gen%d'


def gen_case(case):
    """MdGen.tla: endpoints as configured -> generated metadata -> what a store that loads it hands back"""
    from saml2_tophat.metadata import entity_descriptor
    from saml2_tophat.mdstore import MetadataStore
    import xml.etree.ElementTree as ET
    scn = case['scn']
    bmap = {'post': env.BINDING_POST, 'redirect': env.BINDING_REDIRECT}
    acs = []
    for k, e in enumerate(scn['layout']):
        if e['idx'] == 'none':
            acs.append((GEN_LOC % (k + 1), bmap[e['b']]))
        else:
            acs.append((GEN_LOC % (k + 1), bmap[e['b']], int(e['idx']) if scn['form'] == 'int' else e['idx']))
    out = {'exc': None, 'doc': None, 'store': None}
    try:
        enc = {'none': (), 'one': ('kSpEnc1',), 'two': ('kSpEnc1', 'kSpEnc2'), 'same': ('kSp',)}[scn.get('encKeys', 'one')]
        top = {'top_additional_cert_files': [env.certfile('kIdp1b')]} if scn.get('extraSign') else {}
        sp = env.make_sp(env.sp_config(enc_keys=enc, endpoints={'assertion_consumer_service': acs}, **top))
        text = str(entity_descriptor(sp.config))
        root = ET.fromstring(text)
        brev = dict((v, k) for k, v in bmap.items())
        out['doc'] = [[brev.get(x.get('Binding')), x.get('Location'), x.get('index')]
                      for x in root.iter('{urn:oasis:names:tc:SAML:2.0:metadata}AssertionConsumerService')]
        mds = MetadataStore(sp.config.attribute_converters, sp.config)
        mds.load('inline', text)
        got = {}
        for b in ('post', 'redirect'):
            try:
                got[b] = [[s['location'], s.get('index')] for s in mds.assertion_consumer_service(sp.config.entityid, bmap[b])]
            except Exception as exc:
                got[b] = '!%s' % type(exc).__name__
        out['store'] = got
        out['keys'] = {'signing': sorted(set(keyname(c) for c in mds.certs(sp.config.entityid, 'spsso', 'signing'))),
                       'encryption': sorted(set(keyname(c) for c in mds.certs(sp.config.entityid, 'spsso', 'encryption')))}
    except Exception as exc:
        out['exc'] = '%s: %s' % (type(exc).__name__, str(exc)[:160])
    return out


def main():
    chk = fw.Check('C16', 'model_checking')
    res = tlc.run('MdStore.tla', 'MdStore.cfg', timeout=900)
    chk.add_tlc(res, 'MdStore.cfg')
    if res.violated:
        raise fw.Machinery('MdStore.tla violates its contract: %s' % res.violated)
    cases = sorted(res.cases, key=lambda c: json.dumps(c['scn'], sort_keys=True))
    served = 0
    for case, out, err in fw.pmap(replay, cases, init=spc.init_worker, chunk=4):
        if err:
            raise fw.Machinery(err)
        scn = case['scn']
        for a, obs in zip(case['answers'], out['answers']):
            q = dict((k, v) for k, v in a.items() if k not in ('model', 'ok'))
            chk.count({'scn': scn, 'q': q})
            served += obs['r'] == 'set' and bool(obs.get('v'))
            if norm(obs) not in [norm(x) for x in a['ok']]:
                chk.violation(dict(scn, q=json.dumps(q, sort_keys=True)),
                              'metadata store answers %s to %s; acceptable: %s (scenario %s, loads %s)'
                              % (json.dumps(obs), json.dumps(q, sort_keys=True), json.dumps(a['ok']), json.dumps(scn, sort_keys=True), out['load']),
                              {'case': {'scn': scn, 'facts': case['facts'], 'keys': case['keys'], 'answers': [a]}, 'observed': obs,
                               'load': out['load'], 'source_A': out['docA']})
            elif norm(obs) != norm(a['model']):
                chk.note('drift: %s answered %s, pipeline model %s (%s)' % (json.dumps(q, sort_keys=True), json.dumps(obs), json.dumps(a['model']), json.dumps(scn, sort_keys=True)))
        chk.sample({'scn': scn, 'load': out['load'], 'first_answers': list(zip([a['q'] for a in case['answers'][:3]], out['answers'][:3]))}, limit=4)
    if served == 0 and not chk.violations:
        raise fw.Machinery('the store never served anything: templates broken')
    for _, problems, err in fw.pmap(roundtrip, [0], init=spc.init_worker, procs=1):
        if err:
            raise fw.Machinery(err)
        chk.count({'roundtrip': 1})
        for p in problems:
            chk.violation({'kind': 'roundtrip', 'what': p}, 'configuration -> metadata -> store round trip differs: %s' % p, {'problem': p})
    gen = tlc.run('MdGen.tla', 'MdGen.cfg', timeout=600)
    chk.add_tlc(gen, 'MdGen.cfg')
    if gen.violated:
        raise fw.Machinery('MdGen.tla violates its contract: %s' % gen.violated)
    gcases = sorted(gen.cases, key=lambda c: json.dumps(c['scn'], sort_keys=True))
    for case, out, err in fw.pmap(gen_case, gcases, init=spc.init_worker, chunk=16):
        if err:
            raise fw.Machinery(err)
        scn = case['scn']
        chk.count({'gen': scn})
        layout = scn['layout']
        detail = {'case': case, 'observed': out}
        want = [[e['b'], GEN_LOC % (k + 1), None if e['idx'] == 'none' else e['idx']] for k, e in enumerate(layout)]
        problem = None
        if out['exc']:
            problem = 'metadata generation / loading fails: %s' % out['exc']
        else:
            doc = out['doc']
            if [d[:2] for d in doc] != [w[:2] for w in want]:
                problem = 'generated metadata lists %s for configured %s' % (doc, want)
            else:
                for d, w in zip(doc, want):
                    if w[2] is not None and d[2] != w[2]:
                        problem = 'endpoint %s configured with index %s appears with index %s' % (w[1], w[2], d[2])
                for b in ('post', 'redirect'):
                    via = [d[1:] for d in doc if d[0] == b]
                    if via and out['store'][b] != via:
                        problem = problem or 'store hands back %s for %s, the generated metadata says %s' % (out['store'][b], b, via)
        if not problem and not out['exc']:
            for use in ('signing', 'encryption'):
                if out['keys'][use] != sorted(case[use]):
                    problem = 'generated metadata publishes %s as %s certificates, the configuration has %s' % (out['keys'][use], use, sorted(case[use]))
        if problem:
            chk.violation({'gen': json.dumps(scn, sort_keys=True)}, 'configuration -> metadata: %s (%s)' % (problem, json.dumps(scn, sort_keys=True)), detail)
        elif [d[2] for d in out['doc']] != [m['idx'] for m in case['model']]:
            chk.note('drift: generated indexes %s, model %s' % ([d[2] for d in out['doc']], [m['idx'] for m in case['model']]))
    chk.cov['exhaustive'] = True
    chk.cov['rule'] = ('all scenarios of MdStore.tla (validUntil of document and entity absent / future / past / past written with a numeric offset x signature none/valid/'
                      'invalid/wrapped x verification certificate configured x duplicate declaration in a second source x load order), '
                      'each with every query of the universe (5 services x 3 bindings, certs x 4 roles x 2 uses, entity categories, attribute requirements; 4 '
                      'entities incl. an unknown one); distinct = distinct (scenario, query); plus all scenarios of MdGen.tla (1-3 consumer endpoints x binding x '
                      'configured index none/0/1/5 x index written as number or text): configuration -> generated metadata -> store')
    chk.assumptions = list(fw.TOOL_ASSUMPTIONS) + ['remote sources are served by a fake HTTP object handed to the store']
    sb.cleanup()
    return chk.finish()


def do_replay(path):
    spc.init_worker()
    j = json.load(open(path))
    c = j['detail']['case']
    out = replay(c)
    print(json.dumps({'load': out['load'], 'answers': out['answers']}, indent=1))
    return 0


if __name__ == '__main__':
    if len(sys.argv) > 2 and sys.argv[1] == '--replay':
        fw.main_wrapper(lambda: do_replay(sys.argv[2]))
    fw.main_wrapper(main)
