"""C01 -- accepted signed content is what its signature covers: SigDoc.tla documents
(attacker edits of a genuinely signed response) rendered to XML and replayed into the SP;
the stand-in is cross-checked against the tool verdicts TLC computed for every document."""
import json
import os
import re
import sys

sys.path.insert(0, os.path.dirname(os.path.abspath(__file__)))
import env
import framework as fw
import samlbuild as sb
import sp_common as spc
import tlc
import xmlsec_model

NS_X = 'urn:verif:foreign'
_GEN = {}


# identifiers are atoms in SigDoc.tla; the strings drawn for them may extend one another ("a" and "a-x"): style of the case
IDSTYLE = {'plain': {}, 'extends_a': {'x': 'a-x'}, 'extends_r': {'x': 'r-x'},
           'digit': {'x': '9x'}}          # not an NCName (a digit first): still an identifier the tool is asked for by name
_IDMAP = {}


def render(tree, n, sigs, templates=False, alg='sha256'):
    """bytes of node n as a function of the abstract fields only"""
    nd = dict(tree[n])
    if nd.get('id') in _IDMAP:
        nd['id'] = _IDMAP[nd['id']]
    inner = ''.join(render(tree, c, sigs, templates, alg) for c in nd['kids'])
    k = nd['kind']
    now = spc.now()
    if k == 'Resp':
        attrs = ' Version="2.0" IssueInstant="%s" Destination="%s" InResponseTo="id1"' % (env.ts(now - 5), env.SP_ACS_POST)
        if nd['id'] != 'none':
            attrs = ' ID="%s"' % nd['id'] + attrs
        if nd['content'] == 'forged':
            attrs += ' Consent="urn:verif:forged"'
        return ('<samlp:Response xmlns:samlp="%s" xmlns:saml="%s"%s><saml:Issuer>%s</saml:Issuer>%s%s</samlp:Response>'
                % (sb.NS_SAMLP, sb.NS_SAML, attrs, env.IDP1, sb.status_xml(), inner))
    if k == 'Asrt':
        a = spc.default_assertion(aid=nd['id'], subject='user-%s' % nd['content'],
                                  attrs=[(sb.OID['givenName'], ['val-%s-given' % nd['content']]),
                                         (sb.OID['sn'], ['val-%s-sn' % nd['content']])])
        a['sig'] = inner          # children go where the schema puts Signature: right after Issuer
        x = sb.assertion(a)
        if nd['id'] == 'none':
            x = x.replace(' ID="none"', '', 1)
        return x
    if k == 'Sig':
        if nd['orig'] == 'X':
            # a signature the attacker made himself over the forged element: well-formed, never valid under the IdP key
            base = sb.signature_template(_IDMAP.get('x', 'x'), alg).replace('<ds:DigestValue/>', '<ds:DigestValue>AAAAAAAAAAAAAAAAAAAAAAAAAAA=</ds:DigestValue>') \
                .replace('<ds:SignatureValue/>', '<ds:SignatureValue>QUJDREVGR0hJSktMTU5PUFFSU1RVVldYWVo=</ds:SignatureValue>')
        elif templates:
            base = sb.signature_template('a' if nd['orig'] == 'A' else 'r', alg, xpath=_XPATH[0] if nd['orig'] == 'A' else None)
        else:
            base = sigs[nd['orig']]
        return base[:-len('</ds:Signature>')] + inner + '</ds:Signature>'
    if k == 'Advice':
        return '<saml:Advice xmlns:saml="%s">%s</saml:Advice>' % (sb.NS_SAML, inner)
    if k == 'Ext':
        return '<samlp:Extensions xmlns:samlp="%s">%s</samlp:Extensions>' % (sb.NS_SAMLP, inner)
    if k == 'Obj':
        return '<ds:Object xmlns:ds="%s">%s</ds:Object>' % (sb.NS_DS, inner)
    if k == 'Leaf':
        return '<x:leaf xmlns:x="%s">%s</x:leaf>' % (NS_X, inner)
    raise fw.Machinery('unknown kind %r' % k)


# T8: the filter a filtering issuer signs with -- everything but what SigDoc.tla calls the assertion's content
FILTER = 'not(ancestor-or-self::saml:Subject or ancestor-or-self::saml:AttributeStatement)'
_XPATH = [None]


def genuine(level, alg='sha256'):
    """the genuine document of that level, really signed; returns the verbatim signature elements"""
    if (level, alg) in _GEN:
        return _GEN[(level, alg)]
    if level == 'assertion_filtered':
        _XPATH[0] = FILTER
        try:
            doc, sigs = genuine('assertion', alg + '+filtered')
        finally:
            _XPATH[0] = None
        _GEN[(level, alg)] = (doc, sigs)
        return _GEN[(level, alg)]
    alg = alg.split('+')[0]
    tree = {1: {'kind': 'Resp', 'id': 'r', 'content': 'genuine', 'kids': [2] if level == 'assertion' else [4, 2]},
            2: {'kind': 'Asrt', 'id': 'a', 'content': 'genuine', 'kids': [] if level == 'response' else [3]},
            3: {'kind': 'Sig', 'orig': 'A', 'kids': []}, 4: {'kind': 'Sig', 'orig': 'R', 'kids': []}}
    doc = render(tree, 1, None, templates=True, alg=alg)
    if level != 'response':
        doc = sb.sign(doc, sb.NS_SAML, 'Assertion', 'a', 'kIdp1')
    if level != 'assertion':
        doc = sb.sign(doc, sb.NS_SAMLP, 'Response', 'r', 'kIdp1')
    found = re.findall(r'<ds:Signature .*?</ds:Signature>', doc, re.S)
    sigs = {}
    if level == 'assertion':
        sigs['A'] = found[0]
    elif level == 'response':
        sigs['R'] = found[0]
    else:
        sigs['R'], sigs['A'] = found[0], found[1]
    _GEN[(level, alg + ('+filtered' if _XPATH[0] else ''))] = (doc, sigs)
    return doc, sigs


def _wrap_top_assertion(doc, index=0):
    """put the index-th top-level Assertion child of the Response into an EncryptedAssertion element"""
    import xmlsec_model as xm
    raw = doc.encode('utf-8')
    root = xm.parse(raw)
    tops = [k for k in root.elems() if k.tag == 'Assertion']
    a = tops[index]
    return (raw[:a.start] + b'<saml:EncryptedAssertion>' + raw[a.start:a.end] + b'</saml:EncryptedAssertion>' + raw[a.end:]).decode('utf-8')


def tool_verdict(doc, kind, ident):
    d = sb.tmpdir()
    src = os.path.join(d, 'tv.xml')
    with open(src, 'w') as f:
        f.write(doc)
    name = 'urn:oasis:names:tc:SAML:2.0:assertion:Assertion' if kind == 'Asrt' else 'urn:oasis:names:tc:SAML:2.0:protocol:Response'
    argv = ['--verify', '--enabled-reference-uris', 'empty,same-doc', '--pubkey-cert-pem', env.certfile('kIdp1'),
            '--id-attr:ID', name]
    if ident != 'none':
        argv += ['--node-id', ident]
    argv += ['--output', os.path.join(d, 'tv.out'), src]
    rc, out, err = xmlsec_model.run(argv)
    return rc == 0 and b'OK' in err.splitlines()


def replay(case):
    tree = dict((nd['n'], nd) for nd in case['tree'])
    alg = case.get('alg', 'sha256')
    gdoc, sigs = genuine(case['level'], alg)
    _IDMAP.clear()
    _IDMAP.update(IDSTYLE[case.get('idstyle', 'plain')])
    try:
        doc = render(tree, case['root'], sigs)
    finally:
        _IDMAP.clear()
    if case['edits'] == 0 and doc != gdoc:
        raise fw.Machinery('rendering of the unedited tree differs from the genuine document')
    out = {'doc': doc, 'tool_mismatch': [], 'cfg': []}
    # the stand-in against the tool verdicts TLC computed (conformance of the executable tool model)
    for t in case['tool']:
        got = tool_verdict(doc, t['k'], IDSTYLE[case.get('idstyle', 'plain')].get(t['i'], t['i']))
        if got != t['ok']:
            out['tool_mismatch'].append({'k': t['k'], 'i': t['i'], 'tlc': t['ok'], 'standin': got})
    plain_doc = doc
    if case.get('enc'):
        # the attacker (or the IdP) encrypts one top-level assertion, whatever it has become, for the SP (Seal in SigDoc.tla)
        tops = [x for x in tree[case['root']]['kids'] if tree[x]['kind'] == 'Asrt']
        doc = sb.encrypt_element(_wrap_top_assertion(doc, tops.index(case['enc'])),
                                 sb.xp('Response', 'EncryptedAssertion', 'Assertion'), 'kSpEnc1')
        if case.get('bare'):
            # ... and plants a second cipher text of his own -- a forged assertion encrypted for the SP -- as a bare
            # EncryptedData child of the Response in front of the EncryptedAssertion (the tool decrypts the FIRST
            # EncryptedData of whatever text it is handed, T7)
            forged = spc.default_assertion(aid='x-bare', subject='user-forged', attrs=[(sb.OID['givenName'], ['val-forged-given']),
                                                                                      (sb.OID['sn'], ['val-forged-sn'])])
            tmp = sb.response(spc.default_response(), '<saml:EncryptedAssertion>%s</saml:EncryptedAssertion>' % sb.assertion(forged))
            tmp = sb.encrypt_element(tmp, sb.xp('Response', 'EncryptedAssertion', 'Assertion'), 'kSpEnc1')
            m = re.search(r'<((?:\w+:)?)EncryptedData\b.*?</\1EncryptedData>', tmp, re.S)
            if not m or '<saml:EncryptedAssertion>' not in doc:
                raise fw.Machinery('bare twin: cipher text or EncryptedAssertion not found')
            doc = doc.replace('<saml:EncryptedAssertion>', m.group(0) + '<saml:EncryptedAssertion>', 1)
        out['doc'] = doc
    for v in case['verdicts']:
        c = v['cfg']
        sp = spc.sp_for(want_response_signed=c['wantResp'], want_assertions_signed=c['wantAssert'],
                        want_assertions_or_response_signed=c['wantEither'])
        obs = spc.observe(sp, doc, env.BINDING_POST, {'id1': '/'})
        out['cfg'].append({'cfg': c, 'verdict': obs['verdict'], 'exc': obs.get('exc'), 'msg': obs.get('msg'),
                           'name_id': obs.get('name_id'), 'ava': obs.get('ava'), 'calls': obs['calls'],
                           'model': v['model'], 'mustReject': v['mustReject'], 'mustAccept': v['mustAccept']})
    return out


def shape(case):
    """abstract description used for known-finding matching and messages"""
    tree = dict((nd['n'], nd) for nd in case['tree'])

    def walk(n):
        nd = tree[n]
        label = nd['kind'] + ('#' + nd['id'] if nd['id'] != 'none' else '') + \
            ('!' if nd['content'] == 'forged' else '') + ('=' + nd['orig'] if nd['kind'] == 'Sig' else '')
        return label + ('<' + ','.join(walk(c) for c in nd['kids']) + '>' if nd['kids'] else '')
    return walk(case['root'])


def main():
    chk = fw.Check('C01', 'model_checking')
    thorough = chk.tier == 'thorough'
    runs = [('assertion', 3), ('response', 3), ('both', 3), ('assertion_filtered', 3)] if thorough else \
        [('assertion', 2), ('response', 2), ('both', 2), ('assertion_filtered', 2)]
    cases = []
    for level, k in runs:
        cfg = 'SigDoc_%s_k%d.cfg' % (level, k)
        res = tlc.run('SigDoc.tla', cfg, timeout=3000)
        chk.add_tlc(res, cfg)
        if res.violated:
            raise fw.Machinery('SigDoc.tla (repaired design) violates %s on %s' % (res.violated, cfg))
        cases.extend(res.cases)
    deep = [('assertion', 4)] if thorough else [('assertion', 3)]
    for level, k in deep:
        cfg = 'SigDoc_%s_k%d.cfg' % (level, k)
        res = tlc.run('SigDoc.tla', cfg, timeout=3000, coverage=False)
        chk.add_tlc(res, cfg + ' (design check)')
        if res.violated:
            raise fw.Machinery('SigDoc.tla (repaired design) violates %s on %s' % (res.violated, cfg))
        if not thorough:
            # the documents the repaired design or the contract accepts at three edits
            # at three edits: every document the pinned and the repaired design disagree on (the
            # signature-wrapping family), a seeded sample of the rest
            cases.extend(c for c in res.cases if c['edits'] == 3 and
                         ((any(v['pinned'] != v['model'] for v in c['verdicts']) and chk.rng.random() < 0.12)
                          or chk.rng.random() < 0.01))
    pinned = tlc.run('SigDoc.tla', 'SigDoc_pinned.cfg', timeout=600, coverage=False)
    chk.add_tlc(pinned, 'SigDoc_pinned.cfg (design as pinned: expected counterexample)')
    if pinned.violated != 'Contract':
        raise fw.Machinery('vacuity control failed: the pinned design should violate the contract')
    pinned = tlc.run('SigDoc.tla', 'SigDoc_filtered_pinned.cfg', timeout=600, coverage=False)
    chk.add_tlc(pinned, 'SigDoc_filtered_pinned.cfg (no transform whitelist: expected counterexample)')
    if pinned.violated != 'Contract':
        raise fw.Machinery('vacuity control failed: without the transform whitelist a filtering signature should violate the contract')

    # every RSA-SHA algorithm in turn; assertion-level documents with one or two top-level assertions also with one of them encrypted
    algs = sorted(sb.SIGALG)
    twins = []
    for k, c in enumerate(cases):
        c['alg'] = algs[(k + chk.seed) % len(algs)]
        c['idstyle'] = ('plain', 'extends_a', 'extends_r')[(k // len(algs) + chk.seed) % 3]
        if c['level'] == 'assertion':
            tree = dict((nd['n'], nd) for nd in c['tree'])
            rootnd = tree[c['root']]
            tree = dict((nd['n'], nd) for nd in c['tree'])
            twin_ids = [tree[n]['id'] for n in c.get('sealable', [])]
            same_id = len(twin_ids) == 2 and twin_ids[0] == twin_ids[1]       # plain and sealed assertion under one identifier
            if c.get('sealable') and (c['edits'] <= 1 or same_id or any(v['pinned'] != v['model'] for v in c['verdicts'])
                                      or chk.rng.random() < 0.15):
                for n in sorted(c['sealable']):
                    t = dict(c)
                    t['enc'] = n
                    t['tool'] = []
                    if len(c['sealable']) > 1:
                        # plain and decrypted assertions side by side: what the model says about the plain document does not
                        # carry over; the provenance of the accepted identity is judged
                        t['verdicts'] = [dict(v, mustReject=False, mustAccept=False) for v in c['verdicts']]
                    twins.append(t)
                    if c['edits'] <= 1:
                        b = dict(t, bare=True)
                        b['verdicts'] = [dict(v, mustReject=False, mustAccept=False) for v in c['verdicts']]
                        twins.append(b)
    # documents in which a genuine signature sits directly below the forged element "x": once more with an identifier string
    # for "x" that extends the signed element's (independent of the rotation above)
    idtwins = []
    for c in cases:
        tree = dict((nd['n'], nd) for nd in c['tree'])
        hit = [tree[k2]['orig'] for nd in c['tree'] if nd['id'] == 'x' for k2 in nd['kids'] if tree[k2]['kind'] == 'Sig' and tree[k2]['orig'] in ('A', 'R', 'X')]
        if hit:
            for want in ('extends_a' if ('A' in hit or 'X' in hit) else 'extends_r', 'digit'):
                if c['idstyle'] != want:
                    t = dict(c)
                    t['idstyle'] = want
                    t['tool'] = []
                    idtwins.append(t)
    cases = cases + twins + idtwins
    nacc = 0
    tool_checked = 0
    for case, out, err in fw.pmap(replay, cases, init=spc.init_worker, chunk=8):
        if err:
            raise fw.Machinery(err)
        sh = shape(case)
        if out['tool_mismatch']:
            raise fw.Machinery('the stand-in disagrees with XmlSecTool.tla on %s: %s\n%s' % (sh, out['tool_mismatch'], out['doc']))
        tool_checked += len(case['tool'])
        for r in out['cfg']:
            scn = {'level': case['level'], 'edits': case['edits'], 'shape': sh, 'cfg': r['cfg'], 'enc': case.get('enc') or 0, 'bare': bool(case.get('bare')),
                   'alg': case.get('alg'), 'idstyle': case.get('idstyle', 'plain')}
            chk.count(scn, nontrivial=r['mustReject'] or r['mustAccept'])
            accepted = r['verdict'] == 'accept'
            nacc += accepted
            forged = accepted and ('forged' in (r.get('name_id') or '') or 'forged' in json.dumps(r.get('ava')))
            detail = {'case': case, 'observed': r, 'document': out['doc']}
            if forged:
                chk.violation(scn, 'forged identity accepted under %s from %s' % (json.dumps(r['cfg'], sort_keys=True), sh), detail)
            elif r['mustReject'] and accepted:
                chk.violation(scn, 'accepted although the relied-upon element is not the one its signature covers: %s under %s'
                              % (sh, json.dumps(r['cfg'], sort_keys=True)), detail)
            elif r['mustAccept'] and not accepted:
                chk.violation(scn, 'genuine signed response rejected (%s %s) under %s' % (r.get('exc'), r.get('msg'), json.dumps(r['cfg'], sort_keys=True)), detail)
            elif accepted != r['model'] and not case.get('enc'):
                chk.note('drift: SP says %s, pipeline model says %s for %s under %s'
                         % (r['verdict'], 'accept' if r['model'] else 'reject', sh, json.dumps(r['cfg'], sort_keys=True)))
        chk.sample({'level': case['level'], 'edits': case['edits'], 'document': sh,
                    'observed': [(json.dumps(r['cfg'], sort_keys=True), r['verdict']) for r in out['cfg']]}, limit=6)
    if nacc == 0 and not chk.violations:
        raise fw.Machinery('nothing was accepted: templates broken')
    chk.cov['tool_verdicts_cross_checked'] = tool_checked
    chk.cov['rule'] = ('documents of SigDoc.tla (7 nodes; attacker edits: forge content, change/duplicate/remove ID, move, insert '
                      'forged or copied assertions and Advice/Extensions/ds:Object/foreign containers, copy a signature, drop, '
                      'wrap the root) for response-, assertion- and both-level signatures: every document at <= 1 edit, every '
                      'document the repaired design or the contract accepts, a deterministic sample of the rest; each under the '
                      'four signature-requirement settings; non-trivial = contract demands rejection or acceptance')
    chk.assumptions = list(fw.TOOL_ASSUMPTIONS)
    sb.cleanup()
    return chk.finish()


def do_replay(path):
    spc.init_worker()
    j = json.load(open(path))
    out = replay(j['detail']['case'])
    print(out['doc'])
    print(json.dumps(out['cfg'], indent=1))
    return 0


if __name__ == '__main__':
    if len(sys.argv) > 2 and sys.argv[1] == '--replay':
        fw.main_wrapper(lambda: do_replay(sys.argv[2]))
    fw.main_wrapper(main)
