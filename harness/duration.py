"""Growth beyond the listed properties: time_util.add_duration against Duration.tla -- every scenario (start dateTime x
duration x sign) through the real function; the answer is compared with the transcription of the code (`coded`), and the
scenarios where that differs from the recommendation's algorithm (`w3c`) are counted as observations."""
import calendar
import json
import os
import sys
import time as _time

sys.path.insert(0, os.path.dirname(os.path.abspath(__file__)))
os.environ['TZ'] = 'UTC'
_time.tzset()
import env
import framework as fw
import tlc

HOLDS = [('Duration_plain.cfg', None)]
REFUTED = [('Duration_agrees.cfg', 'Agrees'), ('Duration_zero.cfg', 'ZeroIsNeutral'), ('Duration_negative.cfg', 'NegativeAnswered')]


def replay(case):
    from saml2_tophat import time_util
    scn = case['scn']
    s, d = scn['start'], scn['dur']
    tid = _time.gmtime(calendar.timegm((s['year'], s['mon'], s['day'], s['hour'], s['min'], s['sec'], 0, 0, 0)))
    text = '%sP%dY%dM%dDT%dH%dM%dS' % ('-' if scn['sign'] == '-' else '', d['year'], d['mon'], d['day'], d['hour'], d['min'], d['sec'])
    res = time_util.add_duration(tid, text)
    if res is None:
        return 'none'
    return {'year': res.tm_year, 'mon': res.tm_mon, 'day': res.tm_mday, 'hour': res.tm_hour, 'min': res.tm_min, 'sec': res.tm_sec}


def main():
    t0 = _time.time()
    out = {'spec': 'Duration.tla', 'runs': []}
    cases = None
    for cfg, expect in [('Duration_code.cfg', None)] + HOLDS + REFUTED:
        r = tlc.run('Duration.tla', cfg, timeout=900, coverage=False)
        out['runs'].append({'cfg': cfg, 'states': r.states, 'violated': r.violated, 'expected': expect})
        if r.violated != expect:
            raise fw.Machinery('%s: expected %s, TLC says %s' % (cfg, expect, r.violated))
        if cfg == 'Duration_code.cfg':
            cases = sorted(r.cases, key=lambda c: json.dumps(c['scn'], sort_keys=True))
    bad = differs = 0
    for case, got, err in fw.pmap(replay, cases, chunk=512):
        if err:
            raise fw.Machinery(err)
        differs += case['coded'] != case['w3c']
        if got != case['coded']:
            bad += 1
            if bad <= 10:
                print('DURATION-DIVERGENCE %s: add_duration gives %s, the model of the code says %s (appendix E: %s)'
                      % (json.dumps(case['scn'], sort_keys=True), got, case['coded'], case['w3c']))
    out.update(cases=len(cases), divergences=bad, scenarios_off_the_recommendation=differs, wall_s=round(_time.time() - t0, 1))
    env.dump_json(os.path.join(env.WORK, 'growth-DURATION.json'), out)
    print('DURATION (growth, not a listed property): %d (start, duration, sign) scenarios replayed through time_util.add_duration; %d '
          'divergences from the model of the code; in %d scenarios the code is off appendix E of XML Schema part 2 (day clamp on the '
          'duration, hours modulo 60, zero days add one day, negative durations unanswered); holds=%s; known not to hold (expected '
          'counterexamples)=%s' % (len(cases), bad, differs, ['AgreesWhenPlain'], [i for _, i in REFUTED]))
    return 1 if bad else 0


if __name__ == '__main__':
    fw.main_wrapper(main)
