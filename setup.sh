#!/bin/sh
# setup_cmd: build everything the checks need from files on disk (offline).
cd "$(dirname "$0")" || exit 2
export PYTHONHASHSEED=0 PYTHONDONTWRITEBYTECODE=1
mkdir -p work evidence
/venv/bin/python -W ignore -c "
import sys; sys.path.insert(0, 'harness')
import env; env.ensure_keys(); print('key pool ok')
import tlc, os
bad = 0
for f in sorted(os.listdir('spec')):
    if f.endswith('.tla'):
        ok, out = tlc.sany(f)
        if not ok:
            bad += 1; print('SANY FAILED', f); print(out[-1500:])
print('sany: all modules parse' if not bad else 'sany failures: %d' % bad)
sys.exit(1 if bad else 0)
" || exit 1
/venv/bin/python -W ignore harness/standin_selftest.py || exit 1
echo setup ok
