#!/bin/sh
# setup_cmd: build everything the checks need from files on disk (offline).
cd "$(dirname "$0")" || exit 2
export PYTHONHASHSEED=0 PYTHONDONTWRITEBYTECODE=1
mkdir -p work evidence
/venv/bin/python -W ignore -c "
import sys; sys.path.insert(0, 'harness')
import env; env.ensure_keys(); print('key pool ok')
import tlc, os
bad = 0
for f in sorted(os.listdir('spec')):
    if f.endswith('.tla'):
        ok, out = tlc.sany(f)
        if not ok:
            bad += 1; print('SANY FAILED', f); print(out[-1500:])
print('sany: all modules parse' if not bad else 'sany failures: %d' % bad)
sys.exit(1 if bad else 0)
" || exit 1
/venv/bin/python -W ignore harness/standin_selftest.py || exit 1
# every harness and tool compiles (a syntax error would otherwise surface as a bare exit status of a check)
/venv/bin/python -W ignore - <<'PY' || exit 1
import glob, sys
bad = 0
for f in sorted(glob.glob('harness/*.py') + glob.glob('tools/*.py')):
    try:
        compile(open(f).read(), f, 'exec')
    except SyntaxError as exc:
        bad += 1
        print('SYNTAX ERROR', f, exc)
sys.exit(1 if bad else 0)
PY
echo setup ok
