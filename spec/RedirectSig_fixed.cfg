SPECIFICATION Spec
CONSTANTS
  Ent = {"kA", "kB", "kC"}
  Algs = {"sha1", "sha256"}
  Muts = {"none", "msg_changed"}
  MaxWire = 3
  Shared = FALSE
INVARIANT TypeOK
INVARIANT KeyOwnership
INVARIANT VerifiesOnlyOwn
CHECK_DEADLOCK FALSE
