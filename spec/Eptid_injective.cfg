SPECIFICATION Spec
CONSTANT AsCoded = TRUE
INVARIANT Injective
CHECK_DEADLOCK FALSE
