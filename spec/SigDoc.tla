-------------------------------- MODULE SigDoc --------------------------------
(***************************************************************************)
(* C01 (also used for requests, C10, and signed metadata, C16) -- a signed   *)
(* document as a tree, an attacker who rearranges it, the external tool's    *)
(* view of it (contract T1-T4 of XmlSecTool) and the SP's view of it         *)
(* (SamlBase parsing: known single-valued children -- last occurrence wins,  *)
(* list-valued children -- all, unknown children invisible).                 *)
(*                                                                         *)
(* The genuine document is Response(id r) < [Signature], Assertion(id a)     *)
(* < [Signature] > > signed at the level(s) chosen by Level.  Every state is a *)
(* document the attacker can derive with at most K edits.  A signature node  *)
(* is a verbatim copy of a genuine one (origin A or R): its SignedInfo, and   *)
(* so the digest it stores and the reference it names, cannot be changed     *)
(* without invalidating it.  Digests are structural: Hash(n, s) describes    *)
(* the subtree of n without the signature s, so every edit, relocation,      *)
(* nesting and duplication has its real effect on validity.                  *)
(*                                                                         *)
(* Identifiers are atoms here ("r", "a", "x"); the concretiser draws the      *)
(* strings, also strings that extend one another ("a" and "a-x"), so that a  *)
(* comparison by containment instead of equality shows.                      *)
(* Fixed = FALSE: SecurityContext._check_signature as pinned (hands item.id  *)
(* to the tool and trusts OK).  Fixed = TRUE: the repaired design.           *)
(***************************************************************************)
EXTENDS XmlSecTool, Json

CONSTANTS N,        \* node budget
          K,        \* attacker edits
          Fixed

Node == 1..N
Containers == {"Advice", "Ext", "Obj", "Leaf"}      \* saml:Advice, samlp:Extensions, ds:Object, foreign element
Elems == {"Resp", "Asrt"} \cup Containers

VARIABLE edits       \* the tree variables are those of XmlSecTool
vars == <<kind, ida, content, kids, root, sorig, edits>>

(***************************************************************************)
(* The SP's view                                                           *)
(***************************************************************************)
ParsedSig(e) == LET ss == ChildrenOfKind(e, "Sig") IN IF ss = <<>> THEN 0 ELSE ss[Len(ss)]    \* last wins
ParsedAsrts  == ChildrenOfKind(root, "Asrt")
TheAsrt      == ParsedAsrts[1]
\* assertions inside the (last) Advice of the accepted assertion contribute attributes as well
AdviceAsrts(e) == LET ad == ChildrenOfKind(e, "Advice")
                  IN IF ad = <<>> THEN {} ELSE Range(ChildrenOfKind(ad[Len(ad)], "Asrt"))
IdentitySources == {TheAsrt} \cup AdviceAsrts(TheAsrt)

AllWithId(i) == {n \in Attached : kind[n] \in {"Resp", "Asrt"} /\ ida[n] = i}
\* _check_signature(item): as pinned / repaired
CheckCur(e, k) == ToolOK(k, ida[e])
CheckFix(e, k) == /\ ida[e] # NoId /\ Cardinality(AllWithId(ida[e])) = 1
                  /\ Len(ChildrenOfKind(e, "Sig")) = 1
                  /\ FirstSig(e) = ParsedSig(e)
                  /\ SRef(sorig[ParsedSig(e)]) = ida[e]
                  /\ ~Filtered(sorig[ParsedSig(e)])        \* only the enveloped-signature and exclusive c14n transforms
                  /\ ToolOK(k, ida[e])
SigStateBy(e, k, fix) == IF ParsedSig(e) = 0 THEN "absent"
                          ELSE IF (IF fix THEN CheckFix(e, k) ELSE CheckCur(e, k)) THEN "valid" ELSE "invalid"

\* what validation demands besides: the ID attributes are required, exactly one assertion (saml2int)
Shape == /\ kind[root] = "Resp" /\ Len(ParsedAsrts) = 1
         /\ ida[root] # NoId /\ ida[ParsedAsrts[1]] # NoId
\* the acceptance table of SPSigReq (C02) on what the SP sees
AcceptsBy(c, fix) ==
    /\ Shape
    /\ LET rs == SigStateBy(root, "Resp", fix)  as == SigStateBy(TheAsrt, "Asrt", fix) IN
       /\ (c.wantResp => rs # "absent") /\ (c.wantAssert => as # "absent")
       /\ (c.wantEither => rs # "absent" \/ as # "absent")
       /\ rs # "invalid" /\ as # "invalid"
Accepts(c) == AcceptsBy(c, Fixed)

Cfgs == {[wantResp |-> TRUE, wantAssert |-> FALSE, wantEither |-> FALSE],
         [wantResp |-> FALSE, wantAssert |-> TRUE, wantEither |-> FALSE],
         [wantResp |-> FALSE, wantAssert |-> FALSE, wantEither |-> TRUE],
         [wantResp |-> TRUE, wantAssert |-> TRUE, wantEither |-> FALSE]}
Satisfiable(c) == (c.wantResp => LevelBase # "assertion") /\ (c.wantAssert => LevelBase # "response")

(***************************************************************************)
(* Contract of C01                                                         *)
(***************************************************************************)
DirectSigs(e) == Range(ChildrenOfKind(e, "Sig"))
\* e itself is the element its signature digests
Covers(e) == /\ Cardinality(DirectSigs(e)) = 1
             /\ LET s == CHOOSE x \in DirectSigs(e) : TRUE IN
                /\ ida[e] # NoId /\ SRef(sorig[s]) = ida[e]
                /\ ~Filtered(sorig[s])                    \* a filtering signature digests something else than e
                /\ Hash(e, s) = Dig(sorig[s])
Safe(c) == /\ kind[root] = "Resp" /\ Len(ParsedAsrts) = 1
           /\ \A s \in IdentitySources : content[s] = "genuine"
           /\ (c.wantResp => Covers(root))
           /\ (c.wantAssert => Covers(TheAsrt))
           /\ (c.wantEither => Covers(root) \/ Covers(TheAsrt))
MustReject(c) == ~Safe(c)
MustAccept(c) == edits = 0 /\ Satisfiable(c) /\ Level # "assertion_filtered"
Contract == \A c \in Cfgs : Accepts(c) => Safe(c)
Controls == edits = 0 /\ Level # "assertion_filtered" => \A c \in Cfgs : Satisfiable(c) => Accepts(c)

(***************************************************************************)
(* Initial (genuine) document and attacker edits                            *)
(***************************************************************************)
Free == {n \in Node : kind[n] = "free"}
Lowest == CHOOSE n \in Free : \A m \in Free : n <= m

Init ==
    /\ root = 1 /\ edits = 0
    /\ kind = [n \in Node |-> CASE n = 1 -> "Resp" [] n = 2 -> "Asrt"
                                [] n = 3 -> IF LevelBase = "response" THEN "free" ELSE "Sig"
                                [] n = 4 -> IF LevelBase = "assertion" THEN "free" ELSE "Sig"
                                [] OTHER -> "free"]
    /\ ida = [n \in Node |-> CASE n = 1 -> "r" [] n = 2 -> "a" [] OTHER -> NoId]
    /\ content = [n \in Node |-> IF n \in {1, 2} THEN "genuine" ELSE "-"]
    /\ kids = [n \in Node |-> CASE n = 1 -> (IF LevelBase = "assertion" THEN <<2>> ELSE <<4, 2>>)
                                [] n = 2 -> (IF LevelBase = "response" THEN <<>> ELSE <<3>>)
                                [] OTHER -> <<>>]
    /\ sorig = [n \in Node |-> CASE n = 3 -> (IF LevelBase = "response" THEN "-" ELSE "A")
                                 [] n = 4 -> (IF LevelBase = "assertion" THEN "-" ELSE "R")
                                 [] OTHER -> "-"]

CanHold(p, k) == IF kind[p] = "Sig" THEN k = "Obj" ELSE kind[p] \in Elems
Place(q, x, pos) == IF pos = "first" THEN <<x>> \o q ELSE Append(q, x)
Step == edits' = edits + 1

\* change subject / attributes / status of an element
Forge(n) == /\ n \in Attached /\ kind[n] \in {"Resp", "Asrt"} /\ content[n] = "genuine"
            /\ content' = [content EXCEPT ![n] = "forged"] /\ Step
            /\ UNCHANGED <<kind, ida, kids, root, sorig>>
\* change, duplicate or remove an ID attribute
SetId(n, i) == /\ n \in Attached /\ kind[n] \in {"Resp", "Asrt"} /\ i # ida[n]
               /\ ida' = [ida EXCEPT ![n] = i] /\ Step
               /\ UNCHANGED <<kind, content, kids, root, sorig>>
\* move an element (with everything below it) to the first or last position under another parent
Move(n, p, pos) ==
    /\ n \in Attached /\ n # root /\ p \in Attached /\ p \notin Sub(n) /\ CanHold(p, kind[n])
    /\ LET op == Parent(n)
           k1 == [kids EXCEPT ![op] = Without(@, n)]
           k2 == [k1 EXCEPT ![p] = Place(@, n, pos)]
       IN k2 # kids /\ kids' = k2
    /\ Step /\ UNCHANGED <<kind, ida, content, root, sorig>>
\* insert a new element: a forged assertion, a copy of the genuine assertion's content, or a container
New(k, c, i, p, pos) ==
    /\ Free # {} /\ p \in Attached /\ CanHold(p, k)
    /\ (k = "Asrt" => c \in {"genuine", "forged"}) /\ (k # "Asrt" => c = "-" /\ i = NoId)
    /\ LET m == Lowest IN
       /\ kind' = [kind EXCEPT ![m] = k] /\ ida' = [ida EXCEPT ![m] = i]
       /\ content' = [content EXCEPT ![m] = c]
       /\ kids' = [kids EXCEPT ![p] = Place(@, m, pos), ![m] = <<>>]
    /\ Step /\ UNCHANGED <<root, sorig>>
\* copy a genuine signature element verbatim somewhere else
CopySig(o, p, pos) ==
    /\ Free # {} /\ p \in Attached /\ kind[p] \in Elems
    /\ (o = "A" => LevelBase # "response") /\ (o = "R" => LevelBase # "assertion")        \* o = "X": attacker-made
    /\ LET m == Lowest IN
       /\ kind' = [kind EXCEPT ![m] = "Sig"] /\ sorig' = [sorig EXCEPT ![m] = o]
       /\ kids' = [kids EXCEPT ![p] = Place(@, m, pos), ![m] = <<>>]
    /\ Step /\ UNCHANGED <<ida, content, root>>
\* remove an element or a signature with everything below it
Drop(n) ==
    /\ n \in Attached /\ n # root
    /\ LET gone == Sub(n)  op == Parent(n) IN
       /\ kids' = [m \in Node |-> IF m \in gone THEN <<>> ELSE IF m = op THEN Without(kids[m], n) ELSE kids[m]]
       /\ kind' = [m \in Node |-> IF m \in gone THEN "free" ELSE kind[m]]
       /\ ida' = [m \in Node |-> IF m \in gone THEN NoId ELSE ida[m]]
       /\ content' = [m \in Node |-> IF m \in gone THEN "-" ELSE content[m]]
       /\ sorig' = [m \in Node |-> IF m \in gone THEN "-" ELSE sorig[m]]
    /\ Step /\ UNCHANGED root
\* the classic wrapping move in one step: a forged assertion (id x) takes the place of assertion n, which is nested
\* below it -- directly or inside a new container placed first -- optionally followed by a signature the attacker
\* made himself over the forged element (so that "the element's own signature references the element" holds)
WrapElem(n, c, junk) ==
    /\ n \in Attached /\ n # root /\ kind[n] = "Asrt"
    /\ Cardinality(Free) >= (1 + (IF c = "direct" THEN 0 ELSE 1) + (IF junk THEN 1 ELSE 0))
    /\ LET m == Lowest
           f2 == Free \ {m}
           cn == IF c = "direct" THEN 0 ELSE CHOOSE x \in f2 : \A y \in f2 : x <= y
           f3 == f2 \ {cn}
           sn == IF junk THEN CHOOSE x \in f3 : \A y \in f3 : x <= y ELSE 0
           op == Parent(n)
           inner == IF c = "direct" THEN <<n>> ELSE <<cn>>
       IN /\ kind' = [x \in Node |-> IF x = m THEN "Asrt" ELSE IF x = cn THEN c ELSE IF x = sn THEN "Sig" ELSE kind[x]]
          /\ ida' = [ida EXCEPT ![m] = "x"]
          /\ content' = [content EXCEPT ![m] = "forged"]
          /\ sorig' = [x \in Node |-> IF x = sn THEN "X" ELSE sorig[x]]
          /\ kids' = [x \in Node |-> IF x = op THEN [i \in 1..Len(kids[op]) |-> IF kids[op][i] = n THEN m ELSE kids[op][i]]
                                     ELSE IF x = m THEN inner \o (IF junk THEN <<sn>> ELSE <<>>)
                                     ELSE IF x = cn THEN <<n>> ELSE kids[x]]
    /\ Step /\ UNCHANGED root
\* sibling wrapping in one step: the assertion n is parked in a new container placed first under its parent, a forged
\* assertion (id x) takes its place, optionally with a signature the attacker made over it
ParkElem(n, c, junk) ==
    /\ n \in Attached /\ n # root /\ kind[n] = "Asrt" /\ CanHold(Parent(n), c)
    /\ Cardinality(Free) >= (2 + (IF junk THEN 1 ELSE 0))
    /\ LET m == Lowest
           f2 == Free \ {m}
           cn == CHOOSE x \in f2 : \A y \in f2 : x <= y
           f3 == f2 \ {cn}
           sn == IF junk THEN CHOOSE x \in f3 : \A y \in f3 : x <= y ELSE 0
           op == Parent(n)
       IN /\ kind' = [x \in Node |-> IF x = m THEN "Asrt" ELSE IF x = cn THEN c ELSE IF x = sn THEN "Sig" ELSE kind[x]]
          /\ ida' = [ida EXCEPT ![m] = "x"]
          /\ content' = [content EXCEPT ![m] = "forged"]
          /\ sorig' = [x \in Node |-> IF x = sn THEN "X" ELSE sorig[x]]
          /\ kids' = [x \in Node |-> IF x = op THEN <<cn>> \o [i \in 1..Len(kids[op]) |-> IF kids[op][i] = n THEN m ELSE kids[op][i]]
                                     ELSE IF x = m THEN (IF junk THEN <<sn>> ELSE <<>>)
                                     ELSE IF x = cn THEN <<n>> ELSE kids[x]]
    /\ Step /\ UNCHANGED root
\* wrap the whole document in a forged response
WrapRoot(i) ==
    /\ Free # {}
    /\ LET m == Lowest IN
       /\ kind' = [kind EXCEPT ![m] = "Resp"] /\ ida' = [ida EXCEPT ![m] = i]
       /\ content' = [content EXCEPT ![m] = "forged"]
       /\ kids' = [kids EXCEPT ![m] = <<root>>] /\ root' = m
    /\ Step /\ UNCHANGED sorig

\* response-level wrapping in one step: a forged response becomes the document element, takes over the first signature of
\* the old one, and keeps the old document element (now signature-less, as it was digested) as a child -- directly, or
\* inside an Extensions / ds:Object container
WrapRootLift(i, c) ==
    /\ ChildrenOfKind(root, "Sig") # <<>>
    /\ Cardinality(Free) >= (IF c = "direct" THEN 1 ELSE 2)
    /\ LET s == ChildrenOfKind(root, "Sig")[1]
           m == Lowest
           h == IF c = "direct" THEN root ELSE CHOOSE n \in Free \ {m} : \A x \in Free \ {m} : n <= x
       IN /\ kind' = IF c = "direct" THEN [kind EXCEPT ![m] = "Resp"] ELSE [kind EXCEPT ![m] = "Resp", ![h] = c]
          /\ ida' = [ida EXCEPT ![m] = i]
          /\ content' = [content EXCEPT ![m] = "forged"]
          /\ kids' = IF c = "direct" THEN [kids EXCEPT ![m] = <<s, root>>, ![root] = Without(kids[root], s)]
                     ELSE [kids EXCEPT ![m] = <<s, h>>, ![h] = <<root>>, ![root] = Without(kids[root], s)]
          /\ root' = m
    /\ Step /\ UNCHANGED sorig

Edit == \/ \E n \in Node : Forge(n) \/ Drop(n)
        \/ \E i \in Ids \cup {NoId}, c \in {"direct", "Ext", "Obj"} : WrapRootLift(i, c)
        \/ \E n \in Node, i \in Ids \cup {NoId} : SetId(n, i)
        \/ \E n \in Node, p \in Node, pos \in {"first", "last"} : Move(n, p, pos)
        \/ \E k \in {"Asrt"} \cup Containers, c \in {"genuine", "forged", "-"}, i \in Ids \cup {NoId},
              p \in Node, pos \in {"first", "last"} : New(k, c, i, p, pos)
        \/ \E o \in {"A", "R", "X"}, p \in Node, pos \in {"first", "last"} : CopySig(o, p, pos)
        \/ \E i \in Ids \cup {NoId} : WrapRoot(i)
        \/ \E n \in Node, c \in {"direct", "Leaf", "Advice", "Obj"}, j \in BOOLEAN : WrapElem(n, c, j)
        \/ \E n \in Node, c \in {"Ext", "Leaf", "Obj"}, j \in BOOLEAN : ParkElem(n, c, j)
Next == edits < K /\ Edit
Spec == Init /\ [][Next]_vars

(***************************************************************************)
(* Emission: the documents worth executing                                  *)
(***************************************************************************)
\* (Of every sealed document at <= 1 edit the concretiser makes one more twin, "bare": a second cipher text of the attacker's
\* own -- a forged assertion encrypted for the SP -- as a bare EncryptedData child of the Response in front of the
\* EncryptedAssertion.  It is judged like the sealed twins, by the provenance of the identity the SP accepts.)
\* Seal: the last thing the attacker (like the issuer) can do to an assertion-level document is to encrypt one
\* top-level assertion, whatever it has become, for the SP's public key.  The SP then sees plain and decrypted
\* assertions side by side; the identity it reports must still come from genuine, covered content.
Sealable == IF LevelBase = "assertion" /\ kind[root] = "Resp" /\ Len(ParsedAsrts) \in {1, 2} THEN Range(ParsedAsrts) ELSE {}
Tree == {[n |-> n, kind |-> kind[n], id |-> ida[n], content |-> content[n], kids |-> kids[n],
          orig |-> sorig[n]] : n \in Attached}
Verdicts == [c \in Cfgs |-> [cfg |-> c, model |-> Accepts(c), pinned |-> AcceptsBy(c, FALSE), mustReject |-> MustReject(c),
                           mustAccept |-> MustAccept(c)]]
\* every document at most one edit away, every document either design (pinned or repaired) or the
\* contract accepts under some setting
Interesting == edits <= 1 \/ \E c \in Cfgs : AcceptsBy(c, TRUE) \/ AcceptsBy(c, FALSE) \/ ~MustReject(c)
EmitInteresting == Interesting =>
    PrintT(<<"CASE", ToJson([root |-> root, edits |-> edits, level |-> Level, tree |-> Tree,
                             verdicts |-> {Verdicts[c] : c \in Cfgs}, tool |-> ToolTable, sealable |-> Sealable])>>)
\* a deterministic sample of the uninteresting remainder (every document whose shape number
\* is a multiple of SampleMod)
CONSTANT SampleMod
ShapeNo == Cardinality(Attached) * 7 + Len(kids[root]) * 3 + edits
           + Cardinality({n \in Attached : kind[n] = "Sig"}) * 5 + Cardinality({n \in Attached : content[n] = "forged"})
EmitSample == (~Interesting /\ SampleMod > 0 /\ ShapeNo % SampleMod = 0) =>
    PrintT(<<"CASE", ToJson([root |-> root, edits |-> edits, level |-> Level, tree |-> Tree,
                             verdicts |-> {Verdicts[c] : c \in Cfgs}, tool |-> ToolTable, sealable |-> Sealable])>>)
=============================================================================
