SPECIFICATION MCSpec
CONSTANTS
  Subj = {n1, n2}
  Src = {i1, i2}
  Attr = {"a", "b"}
  Val = {1, 2}
  Exps = {1, 2, 3}
  MaxT = 3
  AvaChoice = "small"
SYMMETRY Symm
VIEW View
INVARIANT MCTypeOK
INVARIANT ExactUnion
INVARIANT NoExpiredData
INVARIANT ActiveAgrees
PROPERTY Isolation
PROPERTY DeleteAll
PROPERTY QueriesPure
ACTION_CONSTRAINT EmitEdge
CHECK_DEADLOCK FALSE
