------------------------------- MODULE IdentDB -------------------------------
(***************************************************************************)
(* C18 -- the IdP's name-identifier database (saml2_tophat.ident.IdentDB).  *)
(*                                                                         *)
(* State, at the level the property speaks of: which name identifiers each  *)
(* local user currently has (`fwd`, in issue order because "first match"    *)
(* matters to persistent_nameid / name-id mapping) and to which user a      *)
(* name identifier's text resolves (`rev`).  Identifier texts are random in *)
(* the code; here they are tokens 1, 2, 3, ... handed out by a counter, and *)
(* the conformance harness maps real texts to tokens by first appearance,   *)
(* so the binding is an isomorphism check.                                  *)
(*                                                                         *)
(* Where the property is silent the specification is nondeterministic or    *)
(* leaves the result open (ret.r = "any"): removal of a local user may fail *)
(* without effect or remove everything, never something in between;        *)
(* operations on identifiers that were never issued may answer anything but *)
(* must not change the mapping.                                             *)
(***************************************************************************)
EXTENDS Naturals, FiniteSets, Sequences, TLC

CONSTANTS User, SPq,        \* local users; SP name qualifiers
          NQs,              \* name qualifiers a caller may pass ("" = none); the database's own is "q"
          SPIDs,            \* SPProvidedID values for manage-name-id
          MaxTok            \* bound on the number of identifiers ever issued

VARIABLES fwd,      \* [User -> Seq(record)]  current name identifiers per user, oldest first
          rev,      \* [token -> User \cup {NoUser}]
          fresh,    \* next token
          last      \* operation just performed, arguments, result

vars == <<fwd, rev, fresh, last>>

NoUser == "nobody"
Fmts == {"persistent", "transient", "email"}
Tokens == 1..MaxTok
DbNQ == "q"

Rec(t, f, s, q, p) == [tok |-> t, fmt |-> f, sp |-> s, nq |-> q, spid |-> p]

Range(q) == {q[k] : k \in 1..Len(q)}
Current  == UNION {Range(fwd[u]) : u \in User}                \* all name identifiers not withdrawn
Owner(n) == CHOOSE u \in User : n \in Range(fwd[u])
Remove(q, n) == SelectSeq(q, LAMBDA x : x # n)
First(q, P(_)) == LET ks == {k \in 1..Len(q) : P(q[k])} IN
                  IF ks = {} THEN 0 ELSE CHOOSE k \in ks : \A j \in ks : k <= j

TypeOK == /\ fresh \in 1..(MaxTok + 1)
          /\ \A u \in User : \A n \in Range(fwd[u]) :
                n.tok \in 1..(fresh - 1) /\ n.fmt \in Fmts /\ n.sp \in SPq \cup {""} /\ n.spid \in SPIDs \cup {""}
          /\ \A t \in Tokens : rev[t] \in User \cup {NoUser}

Init == /\ fwd = [u \in User |-> <<>>]
        /\ rev = [t \in Tokens |-> NoUser]
        /\ fresh = 1
        /\ last = [op |-> "Init"]

\* IdentDB.get_nameid -> store
IssueTo(u, f, s, q, opname, args, amb) ==
    /\ fresh <= MaxTok
    /\ LET n == Rec(fresh, f, s, q, "") IN
       /\ fwd' = [fwd EXCEPT ![u] = Append(@, n)]
       /\ rev' = [rev EXCEPT ![fresh] = u]
       /\ fresh' = fresh + 1
       /\ last' = [op |-> opname, args |-> args, ret |-> [r |-> "nameid", n |-> n, new |-> TRUE, amb |-> amb]]

Answer(opname, args, ret) ==
    /\ last' = [op |-> opname, args |-> args, ret |-> ret]
    /\ UNCHANGED <<fwd, rev, fresh>>

\* persistent_nameid.  The code returns the first identifier of the user for that SP and name
\* qualifier that is not transient (so possibly an e-mail one) and issues a persistent one
\* otherwise.  The property only demands stability, so every non-transient match may be
\* returned, and a new identifier may be issued only when no persistent one exists yet.
\* ret.amb marks steps where the specification allows several outcomes.
Persistent(u, s, q) ==
    LET M    == {n \in Range(fwd[u]) : n.fmt # "transient" /\ n.sp = s /\ n.nq = q}
        P    == {n \in M : n.fmt = "persistent"}
        args == [u |-> u, sp |-> s, nq |-> q]
        amb  == Cardinality(M) > 1 \/ (M # {} /\ P = {})
    IN \/ \E m \in M : Answer("Persistent", args, [r |-> "nameid", n |-> m, new |-> FALSE, amb |-> amb])
       \/ /\ P = {}
          /\ IssueTo(u, "persistent", s, q, "Persistent", args, amb)

Transient(u, s, q) == IssueTo(u, "transient", s, q, "Transient", [u |-> u, sp |-> s, nq |-> q], FALSE)

\* construct_nameid with a NameIDPolicy naming format and SP qualifier (what Server does when
\* find_nameid came back empty); the name qualifier is the database's own
Construct(u, s, f) == IssueTo(u, f, s, DbNQ, "Construct", [u |-> u, sp |-> s, fmt |-> f], FALSE)

FindLocal(t) ==
    Answer("FindLocal", [tok |-> t], [r |-> "user", u |-> IF t \in Tokens THEN rev[t] ELSE NoUser])

\* find_nameid(userid, sp_name_qualifier=.., format=..): "" = criterion not given
FindNameid(u, s, f) ==
    Answer("FindNameid", [u |-> u, sp |-> s, fmt |-> f],
           [r |-> "nameids", ns |-> {n \in Range(fwd[u]) : (s = "" \/ n.sp = s) /\ (f = "" \/ n.fmt = f)}])

\* remove_remote of a current identifier
RemoveRemote(n) ==
    /\ n \in Current
    /\ LET u == Owner(n) IN
       /\ fwd' = [fwd EXCEPT ![u] = Remove(@, n)]
       /\ rev' = [rev EXCEPT ![n.tok] = NoUser]
    /\ fresh' = fresh
    /\ last' = [op |-> "RemoveRemote", args |-> [n |-> n], ret |-> [r |-> "ok"]]

\* remove_remote handed a stale form of a current identifier (same text, but the SPProvidedID it carried
\* before a manage-name-id request): the code refuses it (list.remove raises) and changes nothing.  The
\* property allows refusing it or withdrawing the identifier; never one index without the other.
RemoveRemoteStale(m) ==
    /\ m \notin Current /\ \E n \in Current : n.tok = m.tok
    /\ LET n == CHOOSE x \in Current : x.tok = m.tok
           u == Owner(n) IN
       \/ Answer("RemoveRemoteStale", [n |-> m], [r |-> "any"])
       \/ /\ fwd' = [fwd EXCEPT ![u] = Remove(@, n)]
          /\ rev' = [rev EXCEPT ![n.tok] = NoUser]
          /\ fresh' = fresh
          /\ last' = [op |-> "RemoveRemoteStale", args |-> [n |-> m], ret |-> [r |-> "any"]]

\* operations handed an identifier that was never issued: anything may be answered, nothing changes
Unknown(opname) == Answer(opname, [n |-> Rec(0, "persistent", CHOOSE s \in SPq : TRUE, DbNQ, "")], [r |-> "any"])

\* remove_local: all or nothing
RemoveLocalFails(u) == Answer("RemoveLocal", [u |-> u], [r |-> "failed"])
RemoveLocalOk(u) ==
    /\ fwd' = [fwd EXCEPT ![u] = <<>>]
    /\ rev' = [t \in Tokens |-> IF rev[t] = u THEN NoUser ELSE rev[t]]
    /\ fresh' = fresh
    /\ last' = [op |-> "RemoveLocal", args |-> [u |-> u], ret |-> [r |-> "ok"]]

\* handle_name_id_mapping_request(name_id, policy(format, sp qualifier, allow_create))
Mapping(n, f, s, allow) ==
    /\ n \in Current
    /\ LET u == Owner(n)
           M == {m \in Range(fwd[u]) : m.fmt = f /\ m.sp = s}
           args == [n |-> n, fmt |-> f, sp |-> s, allow |-> allow]
       IN IF M # {} THEN \E m \in M : Answer("Mapping", args, [r |-> "nameid", n |-> m, new |-> FALSE,
                                                                amb |-> Cardinality(M) > 1])
          ELSE IF ~allow THEN Answer("Mapping", args, [r |-> "PolicyError"])
          ELSE IssueTo(u, f, s, DbNQ, "Mapping", args, FALSE)

\* handle_manage_name_id_request: set or terminate the SPProvidedID of a current identifier;
\* the identifier keeps its text and its user
Manage(n, p) ==
    /\ n \in Current
    /\ LET u == Owner(n)
           m == [n EXCEPT !.spid = p]
       IN /\ fwd' = [fwd EXCEPT ![u] = Append(Remove(@, n), m)]
          /\ UNCHANGED <<rev, fresh>>
          /\ last' = [op |-> "Manage", args |-> [n |-> n, spid |-> p], ret |-> [r |-> "nameid", n |-> m, new |-> FALSE, amb |-> FALSE]]

Next ==
    \/ \E u \in User, s \in SPq, q \in NQs : Persistent(u, s, q) \/ Transient(u, s, q)
    \/ \E u \in User, s \in SPq, f \in Fmts : Construct(u, s, f)
    \/ \E t \in 0..MaxTok : FindLocal(t)
    \/ \E u \in User, s \in SPq \cup {""}, f \in Fmts \cup {""} : FindNameid(u, s, f)
    \/ \E n \in Current : RemoveRemote(n)
    \/ \E n \in Current, p \in SPIDs \cup {""} : RemoveRemoteStale([n EXCEPT !.spid = p])
    \/ \E n \in Current, p \in SPIDs \cup {""} : Manage(n, p)
    \* "" = a NameIDPolicy without SPNameQualifier: matches (or creates) an identifier that has none
    \/ \E n \in Current, f \in Fmts, s \in SPq \cup {""}, a \in BOOLEAN : Mapping(n, f, s, a)
    \/ \E u \in User : RemoveLocalFails(u) \/ RemoveLocalOk(u)
    \/ \E o \in {"RemoveRemote", "Manage", "Mapping", "FindLocalUnknown"} : Unknown(o)

Spec == Init /\ [][Next]_vars

(***************************************************************************)
(* Contract of C18                                                         *)
(***************************************************************************)
\* every identifier issued and not withdrawn resolves to exactly its user ...
TwoWay == \A u \in User : \A n \in Range(fwd[u]) : rev[n.tok] = u
\* ... and to no one else: a text resolves to a user only while that user holds an identifier with it
NoDangling == \A t \in Tokens : rev[t] # NoUser => \E n \in Range(fwd[rev[t]]) : n.tok = t
\* one text, one identifier, one user
UniqueText == \A m, n \in Current : m.tok = n.tok => m = n
NoDuplicates == \A u \in User : \A i, j \in 1..Len(fwd[u]) : fwd[u][i] = fwd[u][j] => i = j
\* freshness: a newly issued identifier has a text never used before
Fresh == [][\A n \in Current' \ Current :
              \/ n.tok = fresh                                    \* brand new
              \/ \E m \in Current : m.tok = n.tok /\ last'.op = "Manage"]_vars
\* stability: asking again for the persistent identifier of (user, SP) gives the same one
Stable == [][(last'.op = "Persistent" /\ last'.ret.r = "nameid" /\ ~last'.ret.new)
                => /\ UNCHANGED <<fwd, rev>>
                   /\ last'.ret.n \in Range(fwd[last'.args.u])
                   /\ last'.ret.n.sp = last'.args.sp]_vars
\* an identifier issued for one (user, SP) is never handed out for another user or another SP
NoCrossLink == [][last'.op \in {"Persistent", "Transient", "Construct"} /\ last'.ret.r = "nameid"
                    => /\ last'.ret.n.sp = last'.args.sp
                       /\ rev'[last'.ret.n.tok] = last'.args.u
                       /\ \A v \in User \ {last'.args.u} : last'.ret.n \notin Range(fwd'[v])]_vars
\* manage-name-id keeps the principal
ManageKeepsUser == [][last'.op = "Manage" /\ last'.ret.r = "nameid"
                        => rev'[last'.ret.n.tok] = rev[last'.args.n.tok]]_vars
\* withdrawing one identifier never touches another one
RemovalIsLocal == [][last'.op = "RemoveRemote" /\ last'.ret.r = "ok"
                        => Current' = Current \ {last'.args.n}]_vars
\* removal of a local user is all or nothing
RemoveLocalAtomic == [][last'.op = "RemoveLocal" =>
                          \/ UNCHANGED <<fwd, rev>>
                          \/ (fwd'[last'.args.u] = <<>> /\ \A t \in Tokens : rev'[t] # last'.args.u)]_vars

View == <<fwd, rev, fresh>>
=============================================================================
