SPECIFICATION SimSpec
CONSTANTS
  Subj = {n1, n2}
  Src = {i1, i2}
  Attr = {"a", "b"}
  Val = {1, 2}
  Exps = {1, 2, 3, 4}
  MaxT = 5
  AvaChoice = "big"
  Depth = 25
CHECK_DEADLOCK FALSE
