SPECIFICATION SpecQuiet
INVARIANT Agrees
CHECK_DEADLOCK FALSE
