SPECIFICATION Spec
CONSTANT Fixed = TRUE
INVARIANT PipelineMeetsContract
CHECK_DEADLOCK FALSE
