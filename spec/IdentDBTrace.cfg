SPECIFICATION TraceSpec
CONSTANTS
  User = {"u1", "u2", "u3"}
  SPq = {"s1", "s2", "s3"}
  NQs = {"q", ""}
  SPIDs = {"p1", "p2"}
  MaxTok = 200
INVARIANT TwoWay
INVARIANT NoDangling
INVARIANT UniqueText
INVARIANT NoDuplicates
PROPERTY Fresh
PROPERTY Stable
PROPERTY NoCrossLink
PROPERTY ManageKeepsUser
PROPERTY RemovalIsLocal
PROPERTY RemoveLocalAtomic
POSTCONDITION AllTracesAccepted
CHECK_DEADLOCK FALSE
