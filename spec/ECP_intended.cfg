SPECIFICATION Spec
CONSTANT AsCoded = FALSE
INVARIANT DeliverOnlyWhereBothAgree
INVARIANT NeverToUnnamedUrl
INVARIANT NoDeliveryOnMismatch
INVARIANT DoneOnlyAfter302
INVARIANT RelayReturned
INVARIANT IdpFirst
INVARIANT FaultOnMismatch
INVARIANT Completes
CHECK_DEADLOCK FALSE
