SPECIFICATION SimSpec
CONSTANTS
  Users = {"u1", "u2"}
  MaxReq = 2
  MaxResp = 3
  AllowUnsolicited = TRUE
  Forget = TRUE
  Depth = 5
CHECK_DEADLOCK FALSE
