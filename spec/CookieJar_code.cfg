SPECIFICATION Spec
CONSTANT AsCoded = TRUE
INVARIANT ExpiredNeverSent
INVARIANT LaterWins
CHECK_DEADLOCK FALSE
