SPECIFICATION TraceSpec
CONSTANTS
  Subj = {"n1", "n2", "n3"}
  Src = {"i1", "i2", "i3"}
  Attr = {"a", "b"}
  Val = {1, 2, 3}
  Exps = {1}
  MaxT = 1000000
INVARIANT ExactUnion
INVARIANT NoExpiredData
INVARIANT ActiveAgrees
PROPERTY DeleteAll
PROPERTY QueriesPure
POSTCONDITION AllTracesAccepted
CHECK_DEADLOCK FALSE
