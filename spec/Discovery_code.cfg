SPECIFICATION Spec
CONSTANTS
  Alphabet = {"a", "amp", "eq", "qm", "hash", "pct", "plus", "space", "eacute", "slash", "colon"}
  GlueFixed = FALSE
INVARIANT RequestExact
CHECK_DEADLOCK FALSE
