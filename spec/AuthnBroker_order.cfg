SPECIFICATION Spec
CONSTANTS
  Classes = {"c1", "c2", "c3"}
  Levels = {0, 1, 2}
  MaxEntries = 3
INVARIANT OrderedByLevel
CHECK_DEADLOCK FALSE
