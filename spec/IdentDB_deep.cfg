SPECIFICATION Spec
CONSTANTS
  User = {u1, u2}
  SPq = {"s1", "s2"}
  NQs = {"q", ""}
  SPIDs = {"p1", "p2"}
  MaxTok = 3
VIEW View
INVARIANT TypeOK
INVARIANT TwoWay
INVARIANT NoDangling
INVARIANT UniqueText
INVARIANT NoDuplicates
PROPERTY Fresh
PROPERTY Stable
PROPERTY NoCrossLink
PROPERTY ManageKeepsUser
PROPERTY RemovalIsLocal
PROPERTY RemoveLocalAtomic
CHECK_DEADLOCK FALSE
