----------------------------- MODULE RedirectSig -----------------------------
(***************************************************************************)
(* C15 -- HTTP-Redirect binding signatures (sigver.RSACrypto.get_signer,    *)
(* pack.http_redirect_message, sigver.verify_redirect_signature).           *)
(*                                                                         *)
(* Several entities with different keys live in one process.  Obtaining a    *)
(* signer and signing are separate steps of the API (and of                 *)
(* Entity.apply_binding), and verification obtains a signer too.  The       *)
(* constant Shared selects the design:                                      *)
(*   Shared = TRUE   one signer object per algorithm for the whole process,  *)
(*                   get_signer() stores the caller's key in it (the code    *)
(*                   before the repair);                                    *)
(*   Shared = FALSE  get_signer() returns an object of the caller's own      *)
(*                   (the repaired design).                                 *)
(* An entity's key can be rolled over in place (Rekey): the key file keeps    *)
(* its name, gets new content, and the entity object is rebuilt from its     *)
(* configuration.  KeyCache = TRUE is the design in which parsed keys are    *)
(* remembered by file name (a rebuilt entity keeps signing with the retired  *)
(* key) -- a second vacuity control.                                        *)
(* TLC checks KeyOwnership / VerifiesOnlyOwn for every interleaving.        *)
(***************************************************************************)
EXTENDS Naturals, FiniteSets, Sequences, TLC

CONSTANTS Ent,          \* entities; each has its own key, named like the entity
          Algs,         \* supported signature algorithms
          Muts,         \* single-parameter mutations of a signed query ("none" = untouched)
          MaxWire,      \* bound on the number of signed URLs
          Shared,
          KeyCache,     \* parsed private keys remembered by file name
          MaxGen        \* key roll-overs per entity

\* key names: an entity's first key is named like the entity, its next one gets the suffix "2"
KeyName(e, g) == IF g = 0 THEN e ELSE e \o "2"
Certs == {KeyName(e, g) : e \in Ent, g \in 0..MaxGen}

VARIABLES gen,      \* [Ent -> 0..MaxGen]  how often the entity's key was rolled over
          loaded,   \* [Ent -> 0..MaxGen]  generation of the key the (re)built entity object holds
          slot,     \* [Algs -> Ent \cup {"nokey"}]  key held by the process-wide signer object (Shared only)
          held,     \* [Ent -> Algs \cup {"none"}]   algorithm of the signer an entity obtained and still holds
          wire,     \* sequence of signed URLs: [by, alg, key]
          last

vars == <<gen, loaded, slot, held, wire, last>>
Key(e) == KeyName(e, loaded[e])          \* the key the entity object signs with
Own(e) == KeyName(e, gen[e])             \* the key the entity's configuration names now

Init == /\ gen = [e \in Ent |-> 0] /\ loaded = [e \in Ent |-> 0]
        /\ slot = [a \in Algs |-> "nokey"]
        /\ held = [e \in Ent |-> "none"]
        /\ wire = <<>>
        /\ last = [op |-> "Init"]

\* RSACrypto.get_signer(alg): with the shared design the caller's key is written into the
\* process-wide object
Obtain(e, a) ==
    /\ slot' = IF Shared THEN [slot EXCEPT ![a] = Key(e)] ELSE slot
    /\ held' = [held EXCEPT ![e] = a]
    /\ last' = [op |-> "Obtain", e |-> e, alg |-> a]
    /\ UNCHANGED <<wire, gen, loaded>>

\* key roll-over in place: new content under the old file names, the entity object is built anew from its
\* configuration (signers the old object handed out are gone with it)
Rekey(e) ==
    /\ gen[e] < MaxGen
    /\ gen' = [gen EXCEPT ![e] = @ + 1]
    /\ loaded' = [loaded EXCEPT ![e] = IF KeyCache THEN @ ELSE gen[e] + 1]
    /\ held' = [held EXCEPT ![e] = "none"]
    /\ last' = [op |-> "Rekey", e |-> e, key |-> KeyName(e, gen[e] + 1)]
    /\ UNCHANGED <<slot, wire>>

\* http_redirect_message(..., signer=<the object e obtained>): signs with whatever key that
\* object holds now
Sign(e) ==
    /\ held[e] # "none"
    /\ Len(wire) < MaxWire
    /\ LET k == IF Shared THEN slot[held[e]] ELSE Key(e) IN
       /\ wire' = Append(wire, [by |-> e, own |-> Own(e), alg |-> held[e], key |-> k])
       /\ last' = [op |-> "Sign", e |-> e, alg |-> held[e], key |-> k, idx |-> Len(wire) + 1]
    /\ UNCHANGED <<slot, held, gen, loaded>>

\* Entity.apply_binding(HTTP-Redirect, sign=True): obtain and sign within one call
SignNow(e, a) ==
    /\ Len(wire) < MaxWire
    /\ slot' = IF Shared THEN [slot EXCEPT ![a] = Key(e)] ELSE slot
    /\ wire' = Append(wire, [by |-> e, own |-> Own(e), alg |-> a, key |-> Key(e)])
    /\ last' = [op |-> "SignNow", e |-> e, alg |-> a, key |-> Key(e), idx |-> Len(wire) + 1]
    /\ UNCHANGED <<held, gen, loaded>>

\* the verdict the property demands: the certificate is the signer's own and nothing signed
\* was changed, removed or given another meaning
Verdict(m, cert, mut) == mut = "none" /\ cert = m.key

\* verify_redirect_signature(query of wire[i] after mutation mut, crypto of v, cert):
\* obtains a signer as well (side effect on the shared object), then checks
Verify(v, i, cert, mut) ==
    /\ i \in 1..Len(wire)
    /\ slot' = IF Shared THEN [slot EXCEPT ![wire[i].alg] = Key(v)] ELSE slot
    /\ last' = [op |-> "Verify", e |-> v, idx |-> i, cert |-> cert, mut |-> mut,
                ok |-> Verdict(wire[i], cert, mut)]
    /\ UNCHANGED <<held, wire, gen, loaded>>

Next == \/ \E e \in Ent, a \in Algs : Obtain(e, a) \/ SignNow(e, a)
        \/ \E e \in Ent : Sign(e) \/ Rekey(e)
        \/ \E v \in Ent, i \in 1..MaxWire, c \in Certs, m \in Muts : Verify(v, i, c, m)

Spec == Init /\ [][Next]_vars
\* `last` only reports what the step did (for replay and trace validation); the design checks look through it
View == <<gen, loaded, slot, held, wire>>

(***************************************************************************)
(* Contract                                                                *)
(***************************************************************************)
\* the key used is always the one of the entity that requested the signature -- the one its configuration
\* named when it signed
KeyOwnership == \A i \in 1..Len(wire) : wire[i].key = wire[i].own
\* a signed URL verifies under its signer's certificate and under no other
VerifiesOnlyOwn ==
    \A i \in 1..Len(wire) : \A c \in Certs : Verdict(wire[i], c, "none") <=> c = wire[i].own
TypeOK == /\ \A a \in Algs : slot[a] \in Certs \cup {"nokey"}
          /\ \A e \in Ent : gen[e] \in 0..MaxGen /\ loaded[e] \in 0..MaxGen
          /\ \A e \in Ent : held[e] \in Algs \cup {"none"}
=============================================================================
