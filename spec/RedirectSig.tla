----------------------------- MODULE RedirectSig -----------------------------
(***************************************************************************)
(* C15 -- HTTP-Redirect binding signatures (sigver.RSACrypto.get_signer,    *)
(* pack.http_redirect_message, sigver.verify_redirect_signature).           *)
(*                                                                         *)
(* Several entities with different keys live in one process.  Obtaining a    *)
(* signer and signing are separate steps of the API (and of                 *)
(* Entity.apply_binding), and verification obtains a signer too.  The       *)
(* constant Shared selects the design:                                      *)
(*   Shared = TRUE   one signer object per algorithm for the whole process,  *)
(*                   get_signer() stores the caller's key in it (the code    *)
(*                   before the repair);                                    *)
(*   Shared = FALSE  get_signer() returns an object of the caller's own      *)
(*                   (the repaired design).                                 *)
(* TLC checks KeyOwnership / BindsQuery for every interleaving.             *)
(***************************************************************************)
EXTENDS Naturals, FiniteSets, Sequences, TLC

CONSTANTS Ent,          \* entities; each has its own key, named like the entity
          Algs,         \* supported signature algorithms
          Muts,         \* single-parameter mutations of a signed query ("none" = untouched)
          MaxWire,      \* bound on the number of signed URLs
          Shared

VARIABLES slot,     \* [Algs -> Ent \cup {"nokey"}]  key held by the process-wide signer object (Shared only)
          held,     \* [Ent -> Algs \cup {"none"}]   algorithm of the signer an entity obtained and still holds
          wire,     \* sequence of signed URLs: [by, alg, key]
          last

vars == <<slot, held, wire, last>>

Init == /\ slot = [a \in Algs |-> "nokey"]
        /\ held = [e \in Ent |-> "none"]
        /\ wire = <<>>
        /\ last = [op |-> "Init"]

\* RSACrypto.get_signer(alg): with the shared design the caller's key is written into the
\* process-wide object
Obtain(e, a) ==
    /\ slot' = IF Shared THEN [slot EXCEPT ![a] = e] ELSE slot
    /\ held' = [held EXCEPT ![e] = a]
    /\ last' = [op |-> "Obtain", e |-> e, alg |-> a]
    /\ UNCHANGED wire

\* http_redirect_message(..., signer=<the object e obtained>): signs with whatever key that
\* object holds now
Sign(e) ==
    /\ held[e] # "none"
    /\ Len(wire) < MaxWire
    /\ LET k == IF Shared THEN slot[held[e]] ELSE e IN
       /\ wire' = Append(wire, [by |-> e, alg |-> held[e], key |-> k])
       /\ last' = [op |-> "Sign", e |-> e, alg |-> held[e], key |-> k, idx |-> Len(wire) + 1]
    /\ UNCHANGED <<slot, held>>

\* Entity.apply_binding(HTTP-Redirect, sign=True): obtain and sign within one call
SignNow(e, a) ==
    /\ Len(wire) < MaxWire
    /\ slot' = IF Shared THEN [slot EXCEPT ![a] = e] ELSE slot
    /\ wire' = Append(wire, [by |-> e, alg |-> a, key |-> e])
    /\ last' = [op |-> "SignNow", e |-> e, alg |-> a, key |-> e, idx |-> Len(wire) + 1]
    /\ UNCHANGED held

\* the verdict the property demands: the certificate is the signer's own and nothing signed
\* was changed, removed or given another meaning
Verdict(m, cert, mut) == mut = "none" /\ cert = m.key

\* verify_redirect_signature(query of wire[i] after mutation mut, crypto of v, cert):
\* obtains a signer as well (side effect on the shared object), then checks
Verify(v, i, cert, mut) ==
    /\ i \in 1..Len(wire)
    /\ slot' = IF Shared THEN [slot EXCEPT ![wire[i].alg] = v] ELSE slot
    /\ last' = [op |-> "Verify", e |-> v, idx |-> i, cert |-> cert, mut |-> mut,
                ok |-> Verdict(wire[i], cert, mut)]
    /\ UNCHANGED <<held, wire>>

Next == \/ \E e \in Ent, a \in Algs : Obtain(e, a) \/ SignNow(e, a)
        \/ \E e \in Ent : Sign(e)
        \/ \E v \in Ent, i \in 1..MaxWire, c \in Ent, m \in Muts : Verify(v, i, c, m)

Spec == Init /\ [][Next]_vars

(***************************************************************************)
(* Contract                                                                *)
(***************************************************************************)
\* the key used is always the one of the entity that requested the signature
KeyOwnership == \A i \in 1..Len(wire) : wire[i].key = wire[i].by
\* a signed URL verifies under its signer's certificate and under no other
VerifiesOnlyOwn ==
    \A i \in 1..Len(wire) : \A c \in Ent : Verdict(wire[i], c, "none") <=> c = wire[i].by
TypeOK == /\ \A a \in Algs : slot[a] \in Ent \cup {"nokey"}
          /\ \A e \in Ent : held[e] \in Algs \cup {"none"}
=============================================================================
