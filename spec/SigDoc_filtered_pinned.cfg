SPECIFICATION Spec
CONSTANTS
  N = 7
  K = 1
  Level = "assertion_filtered"
  Fixed = FALSE
  SampleMod = 0
INVARIANT Contract
CHECK_DEADLOCK FALSE
