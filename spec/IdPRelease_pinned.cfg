SPECIFICATION Spec
CONSTANT Fixed = FALSE
INVARIANT PipelineMeetsContract
CHECK_DEADLOCK FALSE
