SPECIFICATION Spec
CONSTANTS
  Alphabet = {"a", "comma", "equals", "space", "%", "2", "C", "eacute", "newline", "slash"}
  Plain = {"a", "2", "C", "slash"}
  MaxLen = 2
INVARIANT Reversible
INVARIANT NoRawSeparator
CHECK_DEADLOCK FALSE
