SPECIFICATION Spec
CONSTANTS
  Users = {"u1", "u2"}
  MaxLogins = 3
PROPERTY ForgottenWithUser
CHECK_DEADLOCK FALSE
