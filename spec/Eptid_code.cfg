SPECIFICATION Spec
CONSTANT AsCoded = TRUE
CHECK_DEADLOCK FALSE
