SPECIFICATION Spec
INVARIANT Precondition
CHECK_DEADLOCK FALSE
