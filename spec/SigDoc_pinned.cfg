SPECIFICATION Spec
CONSTANTS
  N = 7
  K = 3
  Level = "assertion"
  Fixed = FALSE
  SampleMod = 0
INVARIANT Contract
CHECK_DEADLOCK FALSE
