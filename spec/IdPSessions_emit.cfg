SPECIFICATION Spec
CONSTANTS
  Users = {"u1", "u2"}
  MaxLogins = 3
INVARIANT ByIdExact
ACTION_CONSTRAINT EmitEdge
VIEW View
CHECK_DEADLOCK FALSE
