SPECIFICATION Spec
CONSTANTS
  Memo = "none"
  MsgKeys = {"kIdp1"}
  Edits = {FALSE, TRUE}
  EnvActs = {}
  Levels = {"response", "assertion"}
  Deliveries = 2
INVARIANT HistoryIndependent
CHECK_DEADLOCK FALSE
