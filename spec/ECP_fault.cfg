SPECIFICATION Spec
CONSTANT AsCoded = TRUE
INVARIANT FaultOnMismatch
CHECK_DEADLOCK FALSE
