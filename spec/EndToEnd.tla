------------------------------- MODULE EndToEnd -------------------------------
(***************************************************************************)
(* C08 -- what the IdP asserts is what the SP reads, for any content.        *)
(* Composition of the IdP's build options (Server.create_authn_response ->   *)
(* Entity._response) with the SP's acceptance table (SPSigReq, C02), the     *)
(* release contract (IdPRelease, C07: the SP's generated metadata asks for   *)
(* what its configuration lists) and the transport (Bindings, C14).  IdP and *)
(* SP are configured from each other's generated metadata.  Attribute        *)
(* values come from classes of strings; the concretiser draws members.       *)
(***************************************************************************)
EXTENDS Naturals, Sequences, FiniteSets, TLC, Json

ValueClasses == {"plain", "markup", "quotes", "nonascii", "padded", "lookalike_close", "lookalike_cdata", "lookalike_entity",
                 "long", "many", "newline", "backslash", "huge", "repeated"}
Algs == {"sha1", "sha256"}
Scn == [signResp : BOOLEAN, signAssert : BOOLEAN, enc : BOOLEAN, alg : Algs, binding : {"post", "redirect", "soap"},
        wantResp : BOOLEAN, wantAssert : BOOLEAN, wantEither : BOOLEAN, nameid : {"transient", "persistent", "email"},        \* "email": emailAddress format, the address written with capitals
        sessionExpiry : BOOLEAN, vclass : ValueClasses, unknownAttr : BOOLEAN,
        skew : {0, 180},
        \* authentication context the IdP was asked to state: a class with or without an authenticating authority
        authnCtx : {"password_authority", "tls_plain", "nonascii_authority"},
        \* the IdP's policy: everything in the "default" entry, or additionally an entry for this SP that sets something
        \* else (so lifetime and name format still come from "default")
        idpPolicy : {"defaultOnly", "perSPpartial"},
        \* the time zone of the process the SP runs in: instants are UTC whatever it is
        tz : {"UTC", "east9", "west5"},
        \* how the IdP application spells the attribute names of the identity it hands over: as the attribute maps do, or
        \* in another letter case (GivenName, SN, MAIL) -- the SP reads the names of its own map either way
        \* "alias": the identity carries the mail address under two local names that the attribute maps send to the same wire
        \* name (mail and rfc822Mailbox): two Attribute elements of one name arrive, the SP reads the union of their values
        keyStyle : {"canonical", "caseVariant", "alias"},
        \* the subject identifier the IdP is asked to assert: plain ASCII, with characters outside the basic plane, padded
        \* with blanks (an identifier is data: " bob" and "bob" are two subjects), with markup characters
        subjClass : {"ascii", "astral", "padded", "markup"}]            \* the SP's accepted_time_diff: widens acceptance, never what is reported

\* what the built response carries (Entity._response): with encryption the assertion signature is made
\* before encrypting and lives inside the cipher text
RespSig(s)   == IF s.signResp THEN "valid" ELSE "absent"
AssertSig(s) == IF s.signAssert THEN "valid" ELSE "absent"
\* the SP's acceptance table (C02) on that
Satisfies(s) == /\ (s.wantResp => RespSig(s) # "absent") /\ (s.wantAssert => AssertSig(s) # "absent")
                /\ (s.wantEither => RespSig(s) # "absent" \/ AssertSig(s) # "absent")
\* keep the product small: the option triple is varied fully only for one value class
WellFormed(s) == /\ Satisfies(s)
                 /\ (s.vclass # "plain" => ~s.wantEither /\ s.nameid = "transient" /\ s.alg = "sha256" /\ ~s.unknownAttr)
                 /\ (s.unknownAttr => s.binding = "post" /\ ~s.enc)
                 \* an alias name is released only to an SP that asks for nothing in particular (the release filter goes by local name)
                 /\ (s.keyStyle = "alias" => s.unknownAttr)
                 /\ (s.authnCtx # "password_authority" => s.vclass = "plain" /\ ~s.wantEither /\ s.alg = "sha256" /\ ~s.unknownAttr /\ s.skew = 0)
                 /\ (s.idpPolicy # "defaultOnly" => s.vclass = "plain" /\ ~s.wantEither /\ s.alg = "sha256" /\ ~s.unknownAttr /\ s.skew = 0
                                                    /\ s.authnCtx = "password_authority")
                 /\ (s.tz # "UTC" => s.vclass = "plain" /\ ~s.wantEither /\ s.alg = "sha256" /\ ~s.unknownAttr /\ s.skew = 0 /\ s.binding = "post"
                                     /\ s.authnCtx = "password_authority" /\ s.idpPolicy = "defaultOnly" /\ s.nameid = "transient")
                 /\ (s.keyStyle # "canonical" => s.vclass = "plain" /\ ~s.wantEither /\ s.alg = "sha256" /\ s.skew = 0 /\ s.tz = "UTC"
                                                /\ s.authnCtx = "password_authority" /\ s.idpPolicy = "defaultOnly" /\ s.nameid = "transient")
                 /\ (s.subjClass # "ascii" => s.vclass = "plain" /\ ~s.wantEither /\ s.alg = "sha256" /\ s.skew = 0 /\ s.tz = "UTC" /\ ~s.unknownAttr
                                                /\ s.authnCtx = "password_authority" /\ s.idpPolicy = "defaultOnly" /\ s.keyStyle = "canonical")
                 /\ (s.skew # 0 => s.vclass = "plain" /\ ~s.wantEither /\ s.alg = "sha256" /\ s.nameid = "transient" /\ ~s.unknownAttr)

VARIABLES scn, pc
vars == <<scn, pc>>
Init == scn \in {s \in Scn : WellFormed(s)} /\ pc = "build"
\* the attributes the SP's generated metadata asks for (required givenName, surName; optional mail, title): the
\* release contract narrows the identity to them; an attribute outside the maps travels only if the SP allows it
Asked == {"givenName", "sn", "mail"}
Identity == {"givenName", "sn", "mail", "eduPersonNickname"}       \* the last one is not asked for
ExpectedAttrs == Identity \cap Asked
Emit == /\ pc = "build" /\ pc' = "done" /\ UNCHANGED scn
        /\ PrintT(<<"CASE", ToJson([scn |-> scn, mustAccept |-> TRUE, expectedAttrs |-> ExpectedAttrs,
                                    signedOnWire |-> [resp |-> RespSig(scn), assertion |-> AssertSig(scn)]])>>)
Spec == Init /\ [][Emit]_vars
\* every emitted scenario meets the SP's requirements by construction
Precondition == Satisfies(scn)
=============================================================================
