SPECIFICATION Spec
INVARIANT ForceRule
CHECK_DEADLOCK FALSE
