----------------------------- MODULE IdPSessions -----------------------------
(***************************************************************************)
(* Growth beyond the listed properties: what an identity provider remembers  *)
(* about the assertions it issued (sdb.SessionStorage behind                 *)
(* Server.create_authn_response, create_assertion_id_request_response,       *)
(* create_authn_query_response, clean_out_user).                            *)
(*                                                                         *)
(*   Login(u)            an authentication response for user u: the           *)
(*                       assertion is stored under its id, its authentication *)
(*                       statement under the subject                         *)
(*   ById(i)             AssertionIDRequest: the assertion stored under i     *)
(*   Query(u, by)        AuthnQuery for subject u, optionally narrowed to one *)
(*                       session index.  The store keeps *lists* of           *)
(*                       statements per login, so narrowing by session index  *)
(*                       fails (the code raises AttributeError): the action   *)
(*                       models that, QueryNarrows below is refuted           *)
(*   CleanOut(u)         clean_out_user: the statements of u are dropped      *)
(***************************************************************************)
EXTENDS Naturals, Sequences, FiniteSets, TLC, Json

CONSTANTS Users, MaxLogins

VARIABLES issued,     \* sequence of [user]: the i-th login (assertion number i, session index i)
          authn,      \* [Users -> Seq(Nat)]: logins whose statements are kept per subject
          last
vars == <<issued, authn, last>>
Init == issued = <<>> /\ authn = [u \in Users |-> <<>>] /\ last = [op |-> "Init"]

Login(u) == /\ Len(issued) < MaxLogins
            /\ issued' = Append(issued, [user |-> u])
            /\ authn' = [authn EXCEPT ![u] = Append(@, Len(issued) + 1)]
            /\ last' = [op |-> "Login", user |-> u, n |-> Len(issued) + 1]
ById(i) == /\ i \in 1..MaxLogins
           /\ last' = [op |-> "ById", n |-> i,
                       ret |-> IF i <= Len(issued) THEN [r |-> "assertion", user |-> issued[i].user, n |-> i] ELSE [r |-> "Unknown"]]
           /\ UNCHANGED <<issued, authn>>
Query(u, by) == /\ by \in 0..MaxLogins            \* 0: no session index given
                /\ last' = [op |-> "Query", user |-> u, by |-> by,
                            ret |-> IF by # 0 /\ authn[u] # <<>> THEN [r |-> "error"]            \* list has no session_index
                                    ELSE [r |-> "statements", v |-> authn[u]]]
                /\ UNCHANGED <<issued, authn>>
CleanOut(u) == /\ authn' = [authn EXCEPT ![u] = <<>>]
               /\ last' = [op |-> "CleanOut", user |-> u]
               /\ UNCHANGED issued
Next == \/ \E u \in Users : Login(u) \/ CleanOut(u)
        \/ \E i \in 1..MaxLogins : ById(i)
        \/ \E u \in Users, by \in 0..MaxLogins : Query(u, by)
Spec == Init /\ [][Next]_vars
View == <<issued, authn>>
EmitEdge == PrintT(<<"CASE", ToJson([issued |-> issued, authn |-> authn, step |-> last'])>>)

\* ---- statements
\* an assertion id resolves to the assertion issued under it, for the user it was issued for
ByIdExact == last.op = "ById" /\ last.ret.r = "assertion" => issued[last.n].user = last.ret.user
\* a query never shows statements of another subject
QueryIsolated == last.op = "Query" /\ last.ret.r = "statements" =>
                    \A k \in 1..Len(last.ret.v) : issued[last.ret.v[k]].user = last.user
\* after clean-out nothing of that subject is left to query
CleanOutComplete == [][last'.op = "CleanOut" => authn'[last'.user] = <<>>]_vars
\* refuted: a session index narrows the answer (the code cannot apply it)
QueryNarrows == last.op = "Query" /\ last.by # 0 => last.ret.r = "statements"
\* refuted: assertions are forgotten with the user (they stay resolvable by id for ever)
ForgottenWithUser == [][last'.op = "ById" /\ last'.ret.r = "assertion" => authn[last'.ret.user] # <<>>]_vars
=============================================================================
