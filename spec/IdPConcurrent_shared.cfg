SPECIFICATION Spec
CONSTANTS
  Reqs = {"sp1", "sp2"}
  Shared = TRUE
  SignAssertion = TRUE
INVARIANT EncryptedForRecipient
CHECK_DEADLOCK FALSE
