------------------------------- MODULE Bindings -------------------------------
(***************************************************************************)
(* C14 -- binding encoders / decoders (pack.http_redirect_message,           *)
(* http_form_post_message, make_soap_enveloped_saml_thingy,                 *)
(* HTTPBase.use_http_artifact; Entity.apply_binding / unravel,              *)
(* soap.parse_soap_enveloped_saml_thingy).                                  *)
(*                                                                         *)
(* Design model.  Payload strings are sequences over an alphabet of          *)
(* character classes that matter to some binding (separators of URLs, HTML   *)
(* and XML, escape characters, white space, non-ASCII, look-alikes of the    *)
(* escapes and of the form template's own placeholders).  Pack writes the   *)
(* wire as a sequence of tokens: structural separators are distinct tokens   *)
(* ("AMP", "EQ", "QM", "QUOT", ...), payload characters are either left      *)
(* alone or escaped, exactly as the binding's escaping rule says.  TLC       *)
(* checks, for every scenario, that an independent reader of the wire        *)
(* (splitting at structural tokens only) recovers exactly the parameters     *)
(* that were sent, each once (NoInjection) and with their original value     *)
(* (RoundTrip).  Every scenario is then executed on the real encoders and    *)
(* read back by independent parsers.                                        *)
(***************************************************************************)
EXTENDS Naturals, Sequences, FiniteSets, TLC, Json

CONSTANTS Alphabet, MaxLen, FixedSoap, FixedArtifact

Strings == UNION {[1..k -> Alphabet] : k \in 0..MaxLen}
None == <<"none">>
Bindings == {"redirect", "post", "soap", "artifact"}
\* typ "SAMLart": the redirect encoder used for an artifact (the third message type http_redirect_message documents)
Scn == [binding : Bindings, typ : {"SAMLRequest", "SAMLResponse", "SAMLart"}, msg : Strings, relay : Strings \cup {None},
        locq : BOOLEAN, signed : BOOLEAN,
        \* the destination's own query (when it has one): a name=value pair, additionally a bare parameter ("debug"),
        \* additionally a parameter with an empty value ("next=") -- all of it belongs to the destination and stays as it is
        locqKind : {"pair", "bare", "blank"},
        \* the message text starts with an XML declaration: as the tool writes it, or in another legal spelling
        decl : {"none", "tool", "short", "standalone"},
        \* SOAP header blocks that travel with the message (PAOS: paos:Request, ecp:RelayState): none, one, two
        headers : {0, 1, 2}]
WellFormed(s) ==
    /\ (s.signed => s.binding = "redirect")
    /\ (~s.locq => s.locqKind = "pair")
    /\ (s.headers # 0 => s.binding = "soap" /\ Len(s.msg) <= 1)
    /\ (s.locqKind # "pair" => s.msg = <<>> /\ ~s.signed)
    /\ (s.typ = "SAMLart" => s.binding = "redirect" /\ ~s.signed /\ s.msg = <<>>)
    /\ (s.decl # "none" => s.binding = "soap")                    \* message text starts with an XML declaration line (tool output)
    /\ (s.binding = "soap" => s.relay = None /\ ~s.locq /\ s.typ = "SAMLRequest")
    /\ (s.binding = "artifact" => s.typ = "SAMLRequest" /\ s.msg = <<>>)     \* the artifact itself is base64
    /\ (s.binding \in {"post", "soap"} => ~s.locq)
    /\ (s.relay # None => Len(s.relay) + Len(s.msg) <= MaxLen + 1)           \* keep the product small

\* ---- escaping rules
UrlSafe == {"a", "2"}                                   \* unreserved characters: left alone by urlencode
UrlEsc(s) == [i \in 1..Len(s) |-> IF s[i] \in UrlSafe THEN s[i] ELSE "pct_" \o s[i]]
HtmlSpecial == {"amp", "lt", "gt", "quot", "apos"}
HtmlEsc(s) == [i \in 1..Len(s) |-> IF s[i] \in HtmlSpecial THEN "ent_" \o s[i] ELSE s[i]]
XmlSpecial == {"amp", "lt", "gt"}
XmlEsc(s) == [i \in 1..Len(s) |-> IF s[i] \in XmlSpecial THEN "ent_" \o s[i] ELSE s[i]]
\* the message is carried base64-encoded (deflated first for redirect): opaque, but base64 output
\* contains "+", "/" and "=" which matter in a query string
B64(s) == <<"b64:">> \o s \o <<"plus", "slash", "eq">>
Artifact == <<"b64:art", "plus", "slash", "eq">>

\* ---- the wire
Param(name, val) == <<name, "EQ">> \o val
RECURSIVE JoinAmp(_)
JoinAmp(ps) == IF ps = <<>> THEN <<>> ELSE IF Len(ps) = 1 THEN ps[1] ELSE ps[1] \o <<"AMP">> \o JoinAmp(Tail(ps))
Location(s) == IF ~s.locq THEN <<"loc">>
               ELSE CASE s.locqKind = "pair" -> <<"loc", "QM", "x", "EQ", "one">>
                      [] s.locqKind = "bare" -> <<"loc", "QM", "x", "EQ", "one", "AMP", "debug">>
                      [] OTHER -> <<"loc", "QM", "next", "EQ", "AMP", "x", "EQ", "one">>
Glue(s, fixed) == IF s.locq /\ fixed THEN <<"AMP">> ELSE <<"QM">>
RedirectParams(s) ==
    << Param(s.typ, UrlEsc(IF s.typ = "SAMLart" THEN Artifact ELSE B64(s.msg))) >>
    \o (IF s.relay # None /\ s.relay # <<>> THEN << Param("RelayState", UrlEsc(s.relay)) >> ELSE <<>>)
    \o (IF s.signed THEN << Param("SigAlg", UrlEsc(<<"a">>)), Param("Signature", UrlEsc(<<"b64:sig", "plus", "eq">>)) >> ELSE <<>>)
ArtifactParams(s) ==
    << Param("SAMLart", UrlEsc(Artifact)) >>
    \o (IF s.relay # None /\ s.relay # <<>> THEN << Param("RelayState", UrlEsc(s.relay)) >> ELSE <<>>)
Wire(s) ==
    CASE s.binding = "redirect" -> Location(s) \o Glue(s, TRUE) \o JoinAmp(RedirectParams(s))
      [] s.binding = "artifact" -> Location(s) \o Glue(s, FixedArtifact) \o JoinAmp(ArtifactParams(s))
      [] s.binding = "post" ->
            <<"INPUT", "name", s.typ, "QUOT">> \o HtmlEsc(B64(s.msg)) \o <<"QUOT">>
            \o (IF s.relay # None /\ s.relay # <<>> THEN <<"INPUT", "name", "RelayState", "QUOT">> \o HtmlEsc(s.relay) \o <<"QUOT">> ELSE <<>>)
      [] OTHER ->   \* soap: the message text is spliced into the Body; a leading declaration line is removed
            <<"ENV">> \o (IF s.headers = 0 THEN <<>> ELSE <<"HEADER">> \o [i \in 1..s.headers |-> "block"] \o <<"/HEADER">>) \o <<"BODY">>
            \o (IF s.decl # "none" /\ ~FixedSoap THEN SelectSeq(s.msg, LAMBDA c : c # "nl") ELSE s.msg) \o <<"/BODY", "/ENV">>

\* ---- an independent reader
RECURSIVE SplitAt(_, _, _)
SplitAt(q, sep, cur) == IF q = <<>> THEN <<cur>>
                        ELSE IF Head(q) = sep THEN <<cur>> \o SplitAt(Tail(q), sep, <<>>)
                        ELSE SplitAt(Tail(q), sep, Append(cur, Head(q)))
AllChars == Alphabet \cup {"plus", "slash", "eq", "b64:", "b64:art", "b64:sig", "a", "2", "one"}
UnescTok(t) == IF \E c \in AllChars : t = "pct_" \o c THEN CHOOSE c \in AllChars : t = "pct_" \o c
               ELSE IF \E c \in AllChars : t = "ent_" \o c THEN CHOOSE c \in AllChars : t = "ent_" \o c
               ELSE t
Unesc(s) == [i \in 1..Len(s) |-> UnescTok(s[i])]
QueryOf(w) == LET parts == SplitAt(w, "QM", <<>>) IN IF Len(parts) = 2 THEN parts[2] ELSE <<"MALFORMED">>
ParamsRead(w) == LET ps == SplitAt(QueryOf(w), "AMP", <<>>) IN
                 [i \in 1..Len(ps) |-> LET kv == SplitAt(ps[i], "EQ", <<>>) IN
                                       IF Len(kv) = 2 /\ Len(kv[1]) = 1 THEN <<kv[1][1], Unesc(kv[2])>>
                                       ELSE IF Len(kv) = 1 /\ Len(kv[1]) = 1 THEN <<kv[1][1], <<"BARE">>>>      \* a parameter without "="
                                       ELSE <<"MALFORMED", ps[i]>>]
Range(q) == {q[i] : i \in 1..Len(q)}
Expected(s) ==
    (IF s.locq THEN {<<"x", <<"one">>>>} ELSE {})
    \cup (IF s.locq /\ s.locqKind = "bare" THEN {<<"debug", <<"BARE">>>>} ELSE {})
    \cup (IF s.locq /\ s.locqKind = "blank" THEN {<<"next", <<>>>>} ELSE {})
    \cup (IF s.binding = "redirect" /\ s.typ # "SAMLart" THEN {<<s.typ, B64(s.msg)>>} ELSE {<<"SAMLart", Artifact>>})
    \cup (IF s.relay # None /\ s.relay # <<>> THEN {<<"RelayState", s.relay>>} ELSE {})
    \cup (IF s.signed THEN {<<"SigAlg", <<"a">>>>, <<"Signature", <<"b64:sig", "plus", "eq">>>>} ELSE {})

VARIABLES scn, pc
vars == <<scn, pc>>
Init == scn \in {s \in Scn : WellFormed(s)} /\ pc = "pack"
UrlOK == scn.binding \in {"redirect", "artifact"} =>
            /\ Range(ParamsRead(Wire(scn))) = Expected(scn)
            /\ Len(ParamsRead(Wire(scn))) = Cardinality(Expected(scn))        \* each once
PostOK == scn.binding = "post" =>
            \* quotes delimit values only: two per field
            Cardinality({i \in 1..Len(Wire(scn)) : Wire(scn)[i] = "QUOT"}) = 2 * (IF scn.relay # None /\ scn.relay # <<>> THEN 2 ELSE 1)
\* what stands between BODY and /BODY is the message; the header blocks stand in the header
BodyStart(w) == CHOOSE i \in 1..Len(w) : w[i] = "BODY"
SoapOK == scn.binding = "soap" => /\ SubSeq(Wire(scn), BodyStart(Wire(scn)) + 1, Len(Wire(scn)) - 2) = scn.msg
                                   /\ Cardinality({i \in 1..Len(Wire(scn)) : Wire(scn)[i] = "block"}) = scn.headers
Emit == /\ pc = "pack" /\ pc' = "done" /\ UNCHANGED scn
        /\ PrintT(<<"CASE", ToJson([scn |-> scn, modelOK |-> UrlOK /\ PostOK /\ SoapOK])>>)
Spec == Init /\ [][Emit]_vars
NoInjection == UrlOK /\ PostOK
RoundTrip == SoapOK
=============================================================================
