SPECIFICATION Spec
CONSTANTS
  Users = {"u1", "u2"}
  MaxLogins = 3
INVARIANT QueryNarrows
CHECK_DEADLOCK FALSE
