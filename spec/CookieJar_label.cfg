SPECIFICATION Spec
CONSTANT AsCoded = TRUE
INVARIANT LabelBoundary
CHECK_DEADLOCK FALSE
