SPECIFICATION TraceSpec
CONSTANTS
  Ent = {"kA", "kB", "kC"}
  Algs = {"sha1", "sha224", "sha256", "sha384", "sha512"}
  Muts = {"none"}
  MaxWire = 1000
  Shared = FALSE
  KeyCache = FALSE
  MaxGen = 1
INVARIANT KeyOwnership
INVARIANT VerifiesOnlyOwn
POSTCONDITION AllTracesAccepted
CHECK_DEADLOCK FALSE
