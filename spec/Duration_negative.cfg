SPECIFICATION SpecQuiet
INVARIANT NegativeAnswered
CHECK_DEADLOCK FALSE
