------------------------------- MODULE SPStatus -------------------------------
(***************************************************************************)
(* C06 -- only successful SAML 2.0 responses yield an identity:             *)
(* StatusResponse._verify (version, destination, issue instant, status_ok), *)
(* STATUSCODE2EXCEPTION; Request._verify for the version of requests.       *)
(***************************************************************************)
EXTENDS Naturals, Sequences, FiniteSets, TLC, Json

\* "SuccessCut" / "SuccessBare": pieces of the Success URN (the URN without its last letter; the bare word "Success") -- not Success
Tops == {"Success", "Requester", "Responder", "VersionMismatch", "urn:verif:status:top", "SuccessCut", "SuccessBare"}

\* standard second-level status codes (SAML core 3.2.2.2) and the documented error class of each;
\* the two top-level codes the library also documents as second-level keys are included
ClassOf ==
    [ AuthnFailed |-> "StatusAuthnFailed", InvalidAttrNameOrValue |-> "StatusInvalidAttrNameOrValue",
      InvalidNameIDPolicy |-> "StatusInvalidNameidPolicy", NoAuthnContext |-> "StatusNoAuthnContext",
      NoAvailableIDP |-> "StatusNoAvailableIdp", NoPassive |-> "StatusNoPassive",
      NoSupportedIDP |-> "StatusNoSupportedIdp", PartialLogout |-> "StatusPartialLogout",
      ProxyCountExceeded |-> "StatusProxyCountExceeded", RequestDenied |-> "StatusRequestDenied",
      RequestUnsupported |-> "StatusRequestUnsupported", RequestVersionDeprecated |-> "StatusRequestVersionDeprecated",
      RequestVersionTooHigh |-> "StatusRequestVersionTooHigh", RequestVersionTooLow |-> "StatusRequestVersionTooLow",
      ResourceNotRecognized |-> "StatusResourceNotRecognized", TooManyResponses |-> "StatusTooManyResponses",
      UnknownAttrProfile |-> "StatusUnknownAttrProfile", UnknownPrincipal |-> "StatusUnknownPrincipal",
      UnsupportedBinding |-> "StatusUnsupportedBinding",
      VersionMismatch |-> "StatusVersionMismatch", Responder |-> "StatusResponder" ]
Standard == DOMAIN ClassOf
\* "Success" as a second-level code under a failed top-level code is just one more code that is not a documented one
Seconds == Standard \cup {"absent", "urn:verif:status:second", "Success"}
\* besides other versions: other spellings of the number two, which are not the string "2.0"
Versions == {"1.0", "1.1", "2.0", "2.1", "3.0", "garbage", "2", "2.00", "+2.0", "nan", "2.0 "}
\* the StatusMessage: none, plain text, an empty element, text over several lines, non-ASCII text
Msgs == {"absent", "text", "empty", "multiline", "nonascii"}
Pre == {"ok", "badsig", "foreigndest"}        \* the checks that come before the status

\* via: how the message reaches the SP -- a browser binding, or in a SOAP envelope (the synchronous hop skips the
\* Destination check, nothing else).  kind "logout_response": one of the status-only response classes
\* (parse_logout_request_response), which carry no assertion.
Scn == [kind : {"response"}, top : Tops, second : Seconds, msg : Msgs, asrt : {"none", "signed"},
        version : Versions, pre : Pre, via : {"post", "soap"}]
       \* kind "logout_request": the other request class, delivered to the identity provider over the redirect binding or SOAP
       \cup [kind : {"request"}, top : {"Success"}, second : {"absent"}, msg : {"absent"}, asrt : {"none"},
             version : Versions, pre : {"ok"}, via : {"post"}]
       \cup [kind : {"logout_request"}, top : {"Success"}, second : {"absent"}, msg : {"absent"}, asrt : {"none"},
             version : Versions, pre : {"ok"}, via : {"post", "soap"}]
       \cup [kind : {"logout_response"}, top : Tops, second : Seconds, msg : Msgs, asrt : {"none"},
             version : {"2.0", "1.1", "2"}, pre : {"ok"}, via : {"post", "soap"}]
\* versions other than 2.0 are combined with two status shapes only
WellFormed(s) == /\ s.version = "2.0" \/ s.second \in {"absent", "AuthnFailed"}
                 /\ (s.via = "soap" /\ s.kind = "response" => s.pre # "foreigndest" /\ s.version = "2.0")

VARIABLES scn, pc, verdict, exc
vars == <<scn, pc, verdict, exc>>
Init == scn \in {s \in Scn : WellFormed(s)} /\ pc = "signature" /\ verdict = "none" /\ exc = "none"

Fail(e) == verdict' = "reject" /\ exc' = e /\ pc' = "done" /\ UNCHANGED scn
Goto(p) == pc' = p /\ UNCHANGED <<scn, verdict, exc>>

Signature == pc = "signature" /\ IF scn.pre = "badsig" THEN Fail("SignatureError") ELSE Goto("version")
Version ==
    /\ pc = "version"
    /\ CASE scn.version = "2.0" -> Goto(IF scn.kind \in {"request", "logout_request"} THEN "accept" ELSE "destination")
         [] scn.kind = "logout_response" -> Fail(IF scn.version = "1.1" THEN "RequestVersionTooLow" ELSE "RequestVersionTooHigh")
         \* Request.verify turns the failed assertion into a None result
         [] scn.version \in {"1.0", "1.1"} -> Fail(IF scn.kind \in {"request", "logout_request"} THEN "None" ELSE "RequestVersionTooLow")
         \* anything that is not the string "2.0" and reads as a number not below two counts as too high
         [] scn.version \in {"2.1", "3.0", "2", "2.00", "+2.0", "nan", "2.0 "} -> Fail(IF scn.kind \in {"request", "logout_request"} THEN "None" ELSE "RequestVersionTooHigh")
         [] OTHER -> Fail(IF scn.kind \in {"request", "logout_request"} THEN "None" ELSE "ValueError")
\* a foreign Destination makes _verify return None; the caller then trips over the missing object
Destination == pc = "destination" /\ IF scn.pre = "foreigndest" THEN Fail("AttributeError") ELSE Goto("status")
Status ==
    /\ pc = "status"
    /\ IF scn.top = "Success" THEN Goto("assertion")
       ELSE IF scn.second = "absent" THEN Fail("StatusError")
       ELSE IF scn.second \in Standard THEN Fail(ClassOf[scn.second])
       ELSE Fail("KeyError")
Assertion == pc = "assertion" /\ IF scn.kind = "logout_response" THEN Goto("accept")
                                 ELSE IF scn.asrt = "none" THEN Fail("Exception") ELSE Goto("accept")
Accept == pc = "accept" /\ verdict' = "accept" /\ pc' = "done" /\ UNCHANGED <<scn, exc>>

(***************************************************************************)
(* Contract                                                                *)
(***************************************************************************)
MustReject == scn.top # "Success" \/ scn.version # "2.0"
MustAccept == scn.top = "Success" /\ scn.second = "absent" /\ scn.version = "2.0" /\ scn.pre = "ok"
              /\ (scn.kind = "response" => scn.asrt = "signed")
\* the error class that must reach the caller (responses that pass the earlier checks)
ClassDecided == scn.kind \in {"response", "logout_response"} /\ scn.top # "Success" /\ scn.version = "2.0" /\ scn.pre = "ok"
ExpectedClass == IF scn.second = "absent" THEN "StatusError"
                 ELSE IF scn.second \in Standard THEN ClassOf[scn.second] ELSE "generic"
SpecificClasses == {ClassOf[c] : c \in Standard}
ClassOK(e) == IF ExpectedClass = "generic" THEN e \notin SpecificClasses /\ e # "none" ELSE e = ExpectedClass

Emit == /\ pc = "done" /\ pc' = "emitted"
        /\ PrintT(<<"CASE", ToJson([scn |-> scn, model |-> [verdict |-> verdict, exc |-> exc],
                                    mustAccept |-> MustAccept, mustReject |-> MustReject,
                                    classDecided |-> ClassDecided, expectedClass |-> ExpectedClass,
                                    specific |-> SpecificClasses])>>)
        /\ UNCHANGED <<scn, verdict, exc>>
Next == Signature \/ Version \/ Destination \/ Status \/ Assertion \/ Accept \/ Emit
Spec == Init /\ [][Next]_vars

PipelineMeetsContract == pc \in {"done", "emitted"} =>
    /\ (MustReject => verdict = "reject" /\ exc # "none")
    /\ (MustAccept => verdict = "accept")
    /\ (ClassDecided => ClassOK(exc))
=============================================================================
