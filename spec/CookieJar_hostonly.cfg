SPECIFICATION Spec
CONSTANT AsCoded = TRUE
INVARIANT HostOnly
CHECK_DEADLOCK FALSE
