--------------------------- MODULE SessionCacheSim ---------------------------
(* Behaviours for the spec -> code direction: `tlc -simulate` walks MCNext and   *)
(* the history of operations (with the results the specification computed) is  *)
(* printed when a behaviour reaches the requested length.                      *)
EXTENDS SessionCacheMC

CONSTANT Depth
VARIABLE hist
svars == <<store, now, last, hist>>

SimInit == Init /\ hist = <<>>
Step == /\ Len(hist) < Depth
        /\ MCNext
        /\ hist' = Append(hist, [op |-> last', now |-> now'])
\* the simulator evaluates invariants on every candidate successor, so the behaviour is
\* printed by an action that has exactly one successor
Finish == /\ Len(hist) = Depth
          /\ PrintT(<<"CASE", ToJson(hist)>>)
          /\ hist' = Append(hist, [op |-> [op |-> "End"], now |-> now])
          /\ UNCHANGED vars
SimNext == Step \/ Finish
SimSpec == SimInit /\ [][SimNext]_svars

=============================================================================
