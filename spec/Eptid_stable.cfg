SPECIFICATION Spec
CONSTANT AsCoded = TRUE
INVARIANT Stable
CHECK_DEADLOCK FALSE
