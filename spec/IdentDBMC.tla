------------------------------ MODULE IdentDBMC ------------------------------
EXTENDS IdentDB, Json, TLCExt
Symm == Permutations(User) \cup Permutations(SPq)
\* every explored transition, once (VIEW hides `last`)
EmitEdge == PrintT(<<"CASE", ToJson([pre |-> [fwd |-> fwd, rev |-> rev, fresh |-> fresh], op |-> last',
                                     post |-> [fwd |-> fwd', rev |-> rev', fresh |-> fresh']])>>)
=============================================================================
