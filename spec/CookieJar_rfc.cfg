SPECIFICATION Spec
CONSTANT AsCoded = FALSE
INVARIANT HostOnly
INVARIANT NoForeignDomain
INVARIANT LabelBoundary
INVARIANT SegmentBoundary
INVARIANT DomainCoversItself
INVARIANT ExpiredNeverSent
INVARIANT LaterWins
CHECK_DEADLOCK FALSE
