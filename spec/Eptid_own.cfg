SPECIFICATION Spec
CONSTANT AsCoded = TRUE
INVARIANT OwnValue
CHECK_DEADLOCK FALSE
