SPECIFICATION Spec
CONSTANTS
  Msgs = {"mA", "mB"}
  Indexes = {1, 9}
  Published = {1, 9, 10, 16}
  MaxUses = 3
INVARIANT ReturnsStored
INVARIANT HandlesFresh
INVARIANT IndexRoundTrip
CHECK_DEADLOCK FALSE
