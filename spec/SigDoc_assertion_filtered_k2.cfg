SPECIFICATION Spec
CONSTANTS
  N = 7
  K = 2
  Level = "assertion_filtered"
  Fixed = TRUE
  SampleMod = 3
INVARIANT Contract
INVARIANT Controls
INVARIANT EmitInteresting
INVARIANT EmitSample
CHECK_DEADLOCK FALSE
