--------------------------- MODULE ToolFaultsTrace ---------------------------
(***************************************************************************)
(* Monitor for C20 (code -> spec).  One trace per replayed scenario: the     *)
(* invocations of the tool as recorded at the process boundary (mode, what   *)
(* was operated on, whether the run was faulted, whether it genuinely        *)
(* reported OK / produced output) and the outcome observed at the public API. *)
(* Invariant at the end of every trace: an accepted identity is backed, for  *)
(* every signature that was present, by a run that genuinely reported OK,    *)
(* and, for encrypted content, by a decryption that genuinely produced       *)
(* output; a returned signed / encrypted message is backed by genuine runs.  *)
(***************************************************************************)
EXTENDS Naturals, Sequences, FiniteSets, TLC, Json, IOUtils, TLCExt, XmlSecFaults
Traces == JsonDeserialize(IOEnv.TRACE_FILE)
VARIABLES tid, l, okNodes, decrypted, produced, done
tvars == <<tid, l, okNodes, decrypted, produced, done>>
T == Traces[tid]
ToSet(q) == {q[k] : k \in 1..Len(q)}
TraceInit == /\ tid \in 1..Len(Traces) /\ l = 1 /\ okNodes = {} /\ decrypted = FALSE /\ produced = {} /\ done = FALSE
\* a run counts only if it was not faulted and did what it reports
Genuine(c) == Reports(c.out \in {"OK", "DONE"}, c.fault)
Consume == /\ ~done /\ l <= Len(T.calls)
           /\ LET c == T.calls[l] IN
              /\ okNodes' = IF c.mode = "verify" /\ Genuine(c) THEN okNodes \cup {c.node} ELSE okNodes
              /\ decrypted' = (decrypted \/ (c.mode = "decrypt" /\ Genuine(c)))
              /\ produced' = IF c.mode \in {"sign", "encrypt"} /\ Genuine(c) THEN produced \cup {<<c.mode, c.node>>} ELSE produced
           /\ l' = l + 1 /\ UNCHANGED <<tid, done>>
Why == IF T.outcome = "identity" /\ \E n \in ToSet(T.signed) : n \notin okNodes
       THEN "identity accepted without a genuine successful verification of every signature present"
       ELSE IF T.outcome = "identity" /\ T.encrypted /\ ~decrypted
       THEN "identity accepted although no decryption genuinely succeeded"
       ELSE IF T.outcome = "message" /\ \E w \in ToSet(T.wanted) : w \notin produced
       THEN "a message was returned as protected although a signing/encryption run produced nothing"
       ELSE "ok"
End == /\ ~done /\ l = Len(T.calls) + 1 /\ done' = TRUE /\ l' = l + 1
       /\ IF Why = "ok" THEN TRUE ELSE PrintT(<<"REJECTED", ToJson([trace |-> tid, why |-> Why])>>)
       /\ UNCHANGED <<tid, okNodes, decrypted, produced>>
TraceNext == Consume \/ End
TraceSpec == TraceInit /\ [][TraceNext]_tvars
=============================================================================
