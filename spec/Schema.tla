-------------------------------- MODULE Schema --------------------------------
(***************************************************************************)
(* C12 / C13 -- the generic SamlBase machinery over the schema class tables. *)
(*                                                                         *)
(* Table is extracted from the code at check time (harness/extract_schema):  *)
(* for every exported element class its tag, namespace, c_children (key ->   *)
(* member, class, list?, declared min/max), c_attributes (xml name ->        *)
(* member, type, required), c_child_order.  The specification defines        *)
(*   - Ser / Parse the way _add_members_to_element_tree and                  *)
(*     _convert_element_tree_to_member work over these tables, and checks     *)
(*     Parse(Ser(i)) = i for every instance variant of every class (C12);     *)
(*   - Valid(i) from the declared constraints, for every constraint violated *)
(*     in isolation (C13).                                                  *)
(* Every variant is then executed on the real classes.                      *)
(***************************************************************************)
EXTENDS Naturals, Sequences, FiniteSets, TLC, Json, IOUtils

Table == JsonDeserialize(IOEnv.CLASSES_FILE)
Classes == DOMAIN Table
CONSTANT Mode          \* "roundtrip" (C12) or "validate" (C13)

Range(q) == {q[i] : i \in 1..Len(q)}
Children(c) == Table[c].children
Attrs(c) == Table[c].attributes
Tag(c) == "{" \o Table[c].ns \o "}" \o Table[c].tag
ChildBy(c, m) == CHOOSE k \in 1..Len(Children(c)) : Children(c)[k].member = m
Members(c) == {Children(c)[k].member : k \in 1..Len(Children(c))}

(***************************************************************************)
(* Table well-formedness: what the generic algorithms need for a loss-free  *)
(* round trip                                                              *)
(***************************************************************************)
\* a child key names the element of the class it maps to (otherwise the parsed child is not recognised)
KeyMatches(c) == \A k \in 1..Len(Children(c)) :
                    /\ Children(c)[k].cls \in Classes
                    /\ Children(c)[k].key = Tag(Children(c)[k].cls)
\* a member missing from a non-empty c_child_order is never serialised
OrderComplete(c) == Table[c].order # <<>> => \A m \in Members(c) : m \in Range(Table[c].order)
MembersUnique(c) == /\ \A i, j \in 1..Len(Children(c)) : Children(c)[i].member = Children(c)[j].member => i = j
                    /\ \A i \in 1..Len(Children(c)), j \in 1..Len(Attrs(c)) : Children(c)[i].member # Attrs(c)[j].member
\* a child whose declared occurrence bound is above one (or open) is held in a list, one with bound one is not: a class that
\* holds a repeatable child in a single slot keeps the last occurrence only
Declared(ch) == ch.min >= 0 \/ ch.max >= 0
CardConsistent(c) == \A k \in 1..Len(Children(c)) : Declared(Children(c)[k]) => (Children(c)[k].list <=> Children(c)[k].max # 1)
WellFormed(c) == KeyMatches(c) /\ OrderComplete(c) /\ MembersUnique(c) /\ CardConsistent(c)

(***************************************************************************)
(* Instance variants (depth 1: children are empty instances of their class) *)
(***************************************************************************)
\* how many instances of a child a variant may hold: by the declared bound where there is one, else by how it is held
MaxCount(ch) == IF ch.max = 1 THEN 1 ELSE IF Declared(ch) \/ ch.list THEN 3 ELSE 1
Unq(c) == {k \in 1..Len(Attrs(c)) : ~Attrs(c)[k].qualified}
RtVariants(c) ==
    {[cls |-> c, kind |-> "empty", which |-> "", n |-> 0]}
    \cup {[cls |-> c, kind |-> "attr", which |-> Attrs(c)[k].member, n |-> 1] : k \in 1..Len(Attrs(c))}
    \cup {[cls |-> c, kind |-> "allattrs", which |-> "", n |-> Len(Attrs(c))]}
    \* every attribute in another lexical form of the same value (boolean 1, integer 007, dateTime with fraction ...):
    \* what was written is what is read, the classes do not normalise
    \cup {[cls |-> c, kind |-> "allattrs_altlex", which |-> "", n |-> Len(Attrs(c))]}
    \* every attribute of a string-like type with blanks, XML-special and non-ASCII characters in its value (anyURI is not
    \* percent-encoded behind the application's back, strings are not trimmed)
    \cup {[cls |-> c, kind |-> "allattrs_special", which |-> "", n |-> Len(Attrs(c))]}
    \* every optional attribute present with the empty string as value (present-but-empty is not absent)
    \cup {[cls |-> c, kind |-> "optattrs_empty", which |-> "", n |-> Len(Attrs(c))]}
    \cup {[cls |-> c, kind |-> "child", which |-> Children(c)[k].member, n |-> n] :
             k \in {j \in 1..Len(Children(c)) : Children(c)[j].cls \in Classes}, n \in 1..3}
    \cup {[cls |-> c, kind |-> "allchildren", which |-> "", n |-> 1]}
    \cup {[cls |-> c, kind |-> x, which |-> "", n |-> 1] : x \in {"foreign_child", "foreign_attr", "text_special", "text_unicode", "text_layout",
                                                                            \* a child the class does not know in the class's *own* namespace; a foreign child that
                                                                            \* itself holds an ordered sequence of children and grandchildren
                                                                            "foreign_ownns_child", "foreign_nested",
                                                                            \* a foreign child whose local name is that of a declared child; text that is not in a
                                                                            \* Unicode normal form (base letter + combining mark, Angstrom / Ohm sign, Hangul jamo)
                                                                            "foreign_samelocal", "text_denormal",
                                                                            \* mixed content: padded multi-line text on an element that also holds every declared
                                                                            \* child and a foreign one (the text of a container is content like any other)
                                                                            "mixed_layout"}}
    \* a tree three levels deep: every declared attribute and child at every level (lists with two members), a foreign
    \* child and a foreign attribute at every level
    \cup {[cls |-> c, kind |-> "deep", which |-> "", n |-> 3]}
    \* an attribute the class does not know whose qualified name looks like a declared one: the element's own namespace
    \* plus the local name of the first declared (unqualified) attribute; alone and next to the declared attribute
    \cup {[cls |-> c, kind |-> x, which |-> Attrs(c)[k].member, n |-> 1] : x \in {"ownns_attr", "ownns_attr_both"},
             k \in (IF Unq(c) = {} THEN {} ELSE {CHOOSE k \in Unq(c) : \A j \in Unq(c) : k <= j})}
RtOK(v) == v.kind = "child" => v.n <= MaxCount(Children(v.cls)[ChildBy(v.cls, v.which)])

\* how many instances of member m the variant holds
Count(v, m) == CASE v.kind = "child" /\ v.which = m -> v.n
                 [] v.kind \in {"allchildren", "mixed_layout"} /\ Children(v.cls)[ChildBy(v.cls, m)].cls \in Classes -> 1
                 [] OTHER -> 0
\* _add_members_to_element_tree: members in c_child_order (all of c_children when that is empty)
Emitted(v) == IF Table[v.cls].order = <<>> THEN Members(v.cls) ELSE Members(v.cls) \cap Range(Table[v.cls].order)
\* a member round-trips iff it is written at all and the element it is written as is recognised,
\* on parsing, as that same member: _convert_element_tree_to_member looks the element's tag up among
\* the keys of c_children
Recognised(c, m) == LET ch == Children(c)[ChildBy(c, m)] IN
                    /\ ch.cls \in Classes
                    /\ \E k \in 1..Len(Children(c)) : Children(c)[k].key = Tag(ch.cls) /\ Children(c)[k].member = m
RoundTrips(v) == \A m \in Members(v.cls) : Count(v, m) > 0 => /\ m \in Emitted(v) /\ Recognised(v.cls, m)
                                                              /\ (Count(v, m) > 1 => Children(v.cls)[ChildBy(v.cls, m)].list)

(***************************************************************************)
(* Validation variants (C13)                                               *)
(***************************************************************************)
Checked == {"dateTime", "boolean", "integer", "nonNegativeInteger", "positiveInteger", "unsignedShort", "duration",
            "unsignedByte", "unsignedInt", "unsignedLong"}
\* lexical forms that are not in the type's lexical space although a lenient number reader takes them: two signs ("+-128"),
\* digit-group underscores ("1_000"), digits of another script
Lenient == {"multisign", "underscore", "otherdigits"}
WrongOf(t) == CASE t = "dateTime" -> {"text", "badfields", "trailing", "dateonly"}
                \* pieces and concatenations of the four literals ("tru", "als", "truefalse", "01"): not literals themselves
                \* (the validators compare case-insensitively -- "True" is left open)
                [] t = "boolean" -> {"text", "prefix", "inner", "concat", "digits"}
                [] t \in {"integer"} -> {"text", "fraction"} \cup Lenient
                [] t = "nonNegativeInteger" -> {"text", "negative"} \cup Lenient
                [] t = "positiveInteger" -> {"text", "zero"} \cup Lenient
                [] t \in {"unsignedShort", "unsignedByte", "unsignedInt", "unsignedLong"} -> {"text", "negative", "toobig"} \cup Lenient  \* toobig: 2^bits
                \* "P" / "-P": the designator with no component after it
                [] t = "duration" -> {"text", "designator_only", "designator_only_neg"}
                [] OTHER -> {}
\* lexical forms that ARE in the type's lexical space: for a duration every non-empty choice of its six components
\* (the month and the minute designator are the same letter; which one is meant depends on the side of the T)
DurFields == {"Y", "Mo", "D", "H", "Mi", "S"}
DurText(f) == "P" \o (IF "Y" \in f THEN "1Y" ELSE "") \o (IF "Mo" \in f THEN "2M" ELSE "") \o (IF "D" \in f THEN "3D" ELSE "")
                  \o (IF f \cap {"H", "Mi", "S"} # {} THEN "T" ELSE "")
                  \o (IF "H" \in f THEN "4H" ELSE "") \o (IF "Mi" \in f THEN "5M" ELSE "") \o (IF "S" \in f THEN "6S" ELSE "")
GoodOf(t) == IF t = "duration" THEN {DurText(f) : f \in (SUBSET DurFields) \ {{}}} \cup {"-" \o DurText(f) : f \in {{"D", "Mi"}, {"S"}}}
             ELSE {}
TextType(c) == LET b == Table[c].text_base IN
               IF b = "datetime" THEN "dateTime" ELSE b
VaVariants(c) ==
    {[cls |-> c, kind |-> "valid", which |-> "", how |-> ""]}
    \cup {[cls |-> c, kind |-> k, which |-> Attrs(c)[i].member, how |-> ""] :
             k \in {"reqattr_missing", "reqattr_empty"}, i \in {j \in 1..Len(Attrs(c)) : Attrs(c)[j].required}}
    \cup {[cls |-> c, kind |-> "child_below_min", which |-> Children(c)[i].member, how |-> ""] :
             i \in {j \in 1..Len(Children(c)) : Children(c)[j].min >= 1 /\ Children(c)[j].cls \in Classes}}
    \cup {[cls |-> c, kind |-> "child_above_max", which |-> Children(c)[i].member, how |-> ""] :
             i \in {j \in 1..Len(Children(c)) : Children(c)[j].max >= 1 /\ Children(c)[j].list /\ Children(c)[j].cls \in Classes}}
    \cup UNION {{[cls |-> c, kind |-> "badtype", which |-> Attrs(c)[i].member, how |-> w] : w \in WrongOf(Attrs(c)[i].type)} :
                   i \in 1..Len(Attrs(c))}
    \cup UNION {{[cls |-> c, kind |-> "goodtype", which |-> Attrs(c)[i].member, how |-> w] : w \in GoodOf(Attrs(c)[i].type)} :
                   i \in 1..Len(Attrs(c))}
    \cup {[cls |-> c, kind |-> "good_text", which |-> "", how |-> w] : w \in GoodOf(TextType(c))}
    \* a value outside the enumeration; one of its literals in another letter case (enumerations are case-sensitive)
    \cup {[cls |-> c, kind |-> "bad_enum", which |-> Attrs(c)[i].member, how |-> w] :
             i \in {j \in 1..Len(Attrs(c)) : Attrs(c)[j].enum # <<>>}, w \in {"", "case"}}
    \* element text of a checked simple type (the table spells the base with or without a prefix, dateTime also in lower case)
    \cup {[cls |-> c, kind |-> "bad_text", which |-> "", how |-> w] : w \in WrongOf(TextType(c))}
    \cup (IF Table[c].text_enum # <<>> THEN {[cls |-> c, kind |-> "bad_text_enum", which |-> "", how |-> w] : w \in {"", "case"}} ELSE {})
\* the contract: the unmodified instance is valid, and so is one whose typed value is another member of the lexical space
MustBeValid(v) == v.kind \in {"valid", "goodtype", "good_text"}

VARIABLES v, pc
vars == <<v, pc>>
Variants == IF Mode = "roundtrip" THEN UNION {{x \in RtVariants(c) : RtOK(x)} : c \in Classes}
            ELSE UNION {VaVariants(c) : c \in Classes}
Init == v \in Variants /\ pc = "emit"
Emit == /\ pc = "emit" /\ pc' = "done" /\ UNCHANGED v
        /\ IF Mode = "roundtrip"
           THEN PrintT(<<"CASE", ToJson([v |-> v, roundTrips |-> RoundTrips(v), wellFormed |-> WellFormed(v.cls)])>>)
           ELSE PrintT(<<"CASE", ToJson([v |-> v, mustBeValid |-> MustBeValid(v)])>>)
Spec == Init /\ [][Emit]_vars

\* design-level statements about the tables, checked for every class
TablesWellFormed == Mode = "roundtrip" => WellFormed(v.cls)
AbstractRoundTrip == Mode = "roundtrip" => RoundTrips(v)
=============================================================================
