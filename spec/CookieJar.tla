------------------------------ MODULE CookieJar ------------------------------
(***************************************************************************)
(* Growth beyond the listed properties: the cookie handling of               *)
(* httpbase.HTTPBase (set_cookie / cookies), which every entity that talks    *)
(* SOAP or ECP uses with ONE jar for all the servers it talks to (the ECP     *)
(* client: the service provider and the identity provider).                  *)
(*                                                                         *)
(* Names are sequences of tokens so that "is a suffix of" / "is a prefix of"  *)
(* on text is IsSuffix / IsPrefix on sequences: the host evilsp.example.org   *)
(* is <<"evil","sp",".","example",".","org">>.  A scenario is one or two      *)
(* Set-Cookie headers received from some origin, then -- `elapsed` seconds    *)
(* later -- a request to each probe URL; Sent(p) is what goes with it.        *)
(*                                                                         *)
(* AsCoded = TRUE: the jar as the code has it (domain: regular-expression     *)
(* search "<domain>$" on the host; path: re.match(path, request path); no      *)
(* check of a Domain attribute against the origin).  AsCoded = FALSE: the      *)
(* rules of RFC 6265.  (A "." inside a stored domain is a wildcard for the     *)
(* regular expression; only the leading dot of a Domain attribute is modelled  *)
(* as one, the hosts here do not differ in single characters.)                *)
(***************************************************************************)
EXTENDS Naturals, Sequences, FiniteSets, TLC, Json, SequencesExt
CONSTANT AsCoded

SP   == <<"sp", ".", "example", ".", "org">>
EVIL == <<"evil", "sp", ".", "example", ".", "org">>
SUB  == <<"sub", ".", "sp", ".", "example", ".", "org">>
IDP  == <<"idp", ".", "example", ".", "net">>
PARENT == <<"example", ".", "org">>
Hosts == {SP, EVIL, SUB, IDP}
NoPath == <<"-">>          \* no Path attribute
PRoot == <<"/">>
PA    == <<"/", "a">>
PASl  == <<"/", "a", "/">>
PAB   == <<"/", "a", "b">>
PAsB  == <<"/", "a", "/", "b">>
ProbePaths == {PRoot, PA, PAB, PAsB}
Probes == [host : Hosts, path : ProbePaths]

\* one Set-Cookie header: who sent it, its Domain and Path attributes, its lifetime
SetOp == [origin : {SP, IDP}, dom : {"none", "self", "dotself", "parent", "other"}, path : {NoPath, PRoot, PA, PASl},
          life : {"session", "short", "past", "maxage0"}, name : {"n1", "n2"}]
Scn == [ops : UNION {[1..n -> SetOp] : n \in 1..2}, elapsed : {0, 100}]
\* the second header is about the same cookie name as the first, or another; to keep the product small the second header
\* comes from the same origin and varies in the attributes that decide replacement and deletion
WellFormed(s) == /\ s.ops[1].name = "n1"
                 /\ Len(s.ops) = 2 => /\ s.ops[2].origin = s.ops[1].origin
                                      /\ s.ops[1].life \in {"session", "short"}
                                      /\ s.ops[2].dom \in {s.ops[1].dom, "none"}
                                      /\ s.ops[2].path \in {s.ops[1].path, PA}

DomainOf(op) == CASE op.dom \in {"none", "self"} -> op.origin
                  [] op.dom = "dotself" -> <<".">> \o op.origin
                  [] op.dom = "parent" -> PARENT
                  [] OTHER -> IF op.origin = IDP THEN SP ELSE IDP          \* "other": the other server's host
NoDot(d) == IF d # <<>> /\ d[1] = "." THEN Tail(d) ELSE d
\* RFC 6265 5.1.3
DomainMatch(d, h) == h = d \/ (IsSuffix(d, h) /\ Len(h) > Len(d) /\ h[Len(h) - Len(d)] = ".")
\* RFC 6265 5.1.4
PathMatch(c, p) == p = c \/ (IsPrefix(c, p) /\ (c[Len(c)] = "/" \/ p[Len(c) + 1] = "/"))

\* ---- the jar: key -> entry, built header by header.  expires: 0 = session cookie, otherwise seconds from the start
Key(op) == IF AsCoded THEN <<DomainOf(op), IF op.path = NoPath THEN <<>> ELSE op.path, op.name>>
           ELSE <<NoDot(DomainOf(op)), IF op.path = NoPath THEN PRoot ELSE op.path, op.name>>
\* RFC 6265 5.3 step 6: a Domain attribute the origin does not domain-match makes the user agent ignore the cookie
Ignored(op) == ~AsCoded /\ op.dom # "none" /\ ~DomainMatch(NoDot(DomainOf(op)), op.origin)
Entry(op, i) == [value |-> i, hostOnly |-> op.dom = "none", origin |-> op.origin,
                 expires |-> CASE op.life = "session" -> 0 [] op.life = "short" -> 50 [] OTHER -> 0 - 1]
RECURSIVE Build(_, _, _)
Build(ops, i, jar) ==
    IF i > Len(ops) THEN jar
    ELSE LET op == ops[i]  k == Key(op) IN
         IF Ignored(op) THEN Build(ops, i + 1, jar)
         \* an expiry date in the past: the stored cookie of that key is removed (nothing happens when there is none)
         ELSE IF op.life = "past" THEN Build(ops, i + 1, [x \in DOMAIN jar \ {k} |-> jar[x]])
         \* Max-Age=0: as coded the cookie is stored with "expires now", which never is sent; by the RFC it is removed
         ELSE Build(ops, i + 1, [x \in DOMAIN jar \cup {k} |-> IF x = k THEN Entry(op, i) ELSE jar[x]])

VARIABLES scn, pc
vars == <<scn, pc>>
Init == scn \in {s \in Scn : WellFormed(s)} /\ pc = "emit"
Jar == Build(scn.ops, 1, <<>>)
Live(e) == e.expires = 0 \/ e.expires > scn.elapsed
Matches(k, e, p) ==
    IF AsCoded
    THEN /\ (IF k[1] # <<>> /\ k[1][1] = "." THEN IsSuffix(Tail(k[1]), p.host) /\ Len(p.host) > Len(Tail(k[1]))   \* "." = any character
             ELSE IsSuffix(k[1], p.host))
         /\ IsPrefix(k[2], p.path)
    ELSE /\ (IF e.hostOnly THEN p.host = e.origin ELSE DomainMatch(k[1], p.host))
         /\ PathMatch(k[2], p.path)
\* what goes with a request to p: (name, value) pairs; value = the number of the header that set it
Sent(p) == {<<k[3], Jar[k].value>> : k \in {x \in DOMAIN Jar : Live(Jar[x]) /\ Matches(x, Jar[x], p)}}

Emit == /\ pc = "emit" /\ pc' = "done" /\ UNCHANGED scn
        /\ LET ps == SetToSeq(Probes)
           IN PrintT(<<"CASE", ToJson([scn |-> scn, answers |-> [i \in 1..Len(ps) |-> [probe |-> ps[i], sent |-> Sent(ps[i])]]])>>)
Spec == Init /\ [][Emit]_vars

\* ---- what a user of one jar for several servers relies on (RFC 6265); header i = scn.ops[i]
SentTo(i, p) == \E pair \in Sent(p) : pair[2] = i
Ops == 1..Len(scn.ops)
\* a cookie without a Domain attribute goes back to the host that set it, and to no other
HostOnly == \A i \in Ops, p \in Probes : scn.ops[i].dom = "none" /\ SentTo(i, p) => p.host = scn.ops[i].origin
\* a server cannot plant a cookie for a host that is not in its own domain
NoForeignDomain == \A i \in Ops, p \in Probes : scn.ops[i].dom = "other" => ~SentTo(i, p)
\* domains match at label boundaries: evilsp.example.org is not in the domain sp.example.org
LabelBoundary == \A i \in Ops, p \in Probes : SentTo(i, p) => DomainMatch(NoDot(DomainOf(scn.ops[i])), p.host)
\* paths match at segment boundaries: /ab is not below /a
SegmentBoundary == \A i \in Ops, p \in Probes : SentTo(i, p) /\ scn.ops[i].path # NoPath => PathMatch(scn.ops[i].path, p.path)
\* a Domain attribute with a leading dot covers the host itself
DomainCoversItself == \A i \in Ops : LET op == scn.ops[i] IN
    (op.dom = "dotself" /\ op.life = "session" /\ op.path \in {NoPath, PRoot} /\ \A j \in Ops : j > i => Key(scn.ops[j]) # Key(op))
    => SentTo(i, [host |-> op.origin, path |-> PRoot])
\* holds either way: expired and deleted cookies are never sent; the later of two headers for one cookie wins
ExpiredNeverSent == \A i \in Ops, p \in Probes : SentTo(i, p) =>
    scn.ops[i].life \in {"session", "short"} /\ (scn.ops[i].life = "short" => scn.elapsed < 50)
LaterWins == \A i, j \in Ops, p \in Probes : i < j /\ Key(scn.ops[i]) = Key(scn.ops[j]) /\ ~Ignored(scn.ops[j]) => ~SentTo(i, p)
=============================================================================
