SPECIFICATION Spec
CONSTANT AsCoded = TRUE
INVARIANT DomainCoversItself
CHECK_DEADLOCK FALSE
