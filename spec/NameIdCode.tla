----------------------------- MODULE NameIdCode -----------------------------
(***************************************************************************)
(* C18, last clause: the textual encoding of a name identifier used as       *)
(* storage key (saml2_tophat.ident.code / decode) is reversible and          *)
(* collision-free for arbitrary field contents.                             *)
(*                                                                         *)
(* Design model: a field value is a sequence of characters from an alphabet  *)
(* of classes (plain, the separators of the encoding itself, the escape      *)
(* character, hex-looking characters, the separator of the surrounding       *)
(* storage string, non-ASCII, newline).  Code() escapes every character that *)
(* is not plain as <<"%", tag>>; the key is i=value pairs joined by ",".     *)
(* TLC checks on every enumerated identifier that Decode(Code(n)) = n up to  *)
(* the identification of absent and empty fields, that no structural         *)
(* separator survives inside an encoded value, and (over all pairs) that     *)
(* Code is injective; every case is then executed on the real functions.     *)
(***************************************************************************)
EXTENDS Naturals, Sequences, FiniteSets, TLC, Json

CONSTANTS Alphabet,     \* character classes
          Plain,        \* the ones the escaping leaves alone
          MaxLen

Fields == 1..5            \* name_qualifier, sp_name_qualifier, format, sp_provided_id, text
Strings == UNION {[1..k -> Alphabet] : k \in 0..MaxLen}
Absent == <<"absent">>

\* identifiers with at most two interesting fields (the others absent)
Ids == {[f \in Fields |-> IF f = ij[1] THEN ab[1] ELSE IF f = ij[2] THEN ab[2] ELSE Absent] :
           ij \in {p \in Fields \X Fields : p[1] < p[2]}, ab \in (Strings \cup {Absent}) \X (Strings \cup {Absent})}

RECURSIVE Esc(_)
Esc(s) == IF s = <<>> THEN <<>>
          ELSE (IF Head(s) \in Plain THEN <<Head(s)>> ELSE <<"%", "x_" \o Head(s)>>) \o Esc(Tail(s))

Present(n) == {f \in Fields : n[f] # Absent /\ n[f] # <<>>}       \* `if val:` skips empty values

RECURSIVE CodeFrom(_, _, _)
CodeFrom(n, f, first) ==
    IF f > 5 THEN <<>>
    ELSE IF f \in Present(n)
         THEN (IF first THEN <<>> ELSE <<"comma">>) \o <<"idx" \o ToString(f - 1), "equals">> \o Esc(n[f])
              \o CodeFrom(n, f + 1, FALSE)
         ELSE CodeFrom(n, f + 1, first)
Code(n) == CodeFrom(n, 1, TRUE)

\* ---- decoding: split at "comma", then at "equals", then undo the escaping
RECURSIVE Split(_, _, _)
Split(s, sep, cur) ==
    IF s = <<>> THEN <<cur>>
    ELSE IF Head(s) = sep THEN <<cur>> \o Split(Tail(s), sep, <<>>)
    ELSE Split(Tail(s), sep, Append(cur, Head(s)))

RECURSIVE Unesc(_)
Unesc(s) == IF s = <<>> THEN <<>>
            ELSE IF Head(s) = "%" /\ Len(s) >= 2 THEN <<SubSeq(Tail(s)[1], 3, Len(Tail(s)[1]))>> \o Unesc(Tail(Tail(s)))
            ELSE <<Head(s)>> \o Unesc(Tail(s))

IdxOf(tok) == CHOOSE f \in Fields : tok = "idx" \o ToString(f - 1)

Decode(c) ==
    LET parts == IF c = <<>> THEN <<>> ELSE Split(c, "comma", <<>>)
        kv(p) == Split(p, "equals", <<>>)
    IN [f \in Fields |->
          LET hits == {k \in 1..Len(parts) : Len(kv(parts[k])) = 2 /\ Len(kv(parts[k])[1]) = 1
                                             /\ kv(parts[k])[1][1] = "idx" \o ToString(f - 1)}
          IN IF hits = {} THEN Absent ELSE Unesc(kv(parts[CHOOSE k \in hits : TRUE])[2])]

Norm(n) == [f \in Fields |-> IF n[f] = <<>> THEN Absent ELSE n[f]]

VARIABLES n, done
vars == <<n, done>>
Init == n \in Ids /\ done = FALSE
Emit == /\ ~done /\ done' = TRUE /\ UNCHANGED n
        /\ PrintT(<<"CASE", ToJson([n |-> n, code |-> Code(n), parts |-> Cardinality(Present(n)),
                                    expect |-> Norm(n)])>>)
Next == Emit
Spec == Init /\ [][Next]_vars

Reversible == Decode(Code(n)) = Norm(n)
\* the separators of the key ("comma", "equals") and of the surrounding storage string
\* ("space") never occur inside an encoded value
NoRawSeparator ==
    \A f \in Present(n) : \A k \in 1..Len(Esc(n[f])) : Esc(n[f])[k] \notin {"comma", "equals", "space"}
\* collision freedom over the whole enumerated space: as many distinct keys as distinct
\* identifiers (evaluated once, as an assumption TLC checks at start-up)
Injective == Cardinality({Code(m) : m \in Ids}) = Cardinality({Norm(m) : m \in Ids})
ASSUME Injective
=============================================================================
