SPECIFICATION Spec
CONSTANTS
  N = 7
  K = 4
  Level = "response"
  Fixed = TRUE
  SampleMod = 0
INVARIANT Contract
INVARIANT Controls


CHECK_DEADLOCK FALSE
