SPECIFICATION MCSpec
CONSTANTS
  Ent = {"kA", "kB", "kC"}
  Algs = {"sha1", "sha224", "sha256", "sha384", "sha512"}
  Muts = {"none"}
  MaxWire = 6
  Shared = FALSE
  KeyCache = FALSE
  MaxGen = 1
  Depth = 14
CHECK_DEADLOCK FALSE
