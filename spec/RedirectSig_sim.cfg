SPECIFICATION MCSpec
CONSTANTS
  Ent = {"kA", "kB", "kC"}
  Algs = {"sha1", "sha224", "sha256", "sha384", "sha512"}
  Muts = {"none"}
  MaxWire = 6
  Shared = FALSE
  Depth = 14
CHECK_DEADLOCK FALSE
