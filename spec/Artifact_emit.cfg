SPECIFICATION Spec
CONSTANTS
  Msgs = {"mA", "mB"}
  Indexes = {1, 9, 10, 16, 26}
  Published = {1, 9, 10, 16}
  MaxUses = 2
INVARIANT ReturnsStored
ACTION_CONSTRAINT EmitEdge
CHECK_DEADLOCK FALSE
