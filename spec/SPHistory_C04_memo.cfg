SPECIFICATION Spec
CONSTANTS
  Memo = "timeByText"
  MsgKeys = {"kIdp1"}
  Edits = {FALSE}
  EnvActs = {"tick"}
  Levels = {"none", "assertion"}
  Deliveries = 2
INVARIANT HistoryIndependent
CHECK_DEADLOCK FALSE
