SPECIFICATION Spec
CONSTANT Fixed = FALSE
INVARIANT PipelineMeetsContract
INVARIANT ContractConsistent
CHECK_DEADLOCK FALSE
