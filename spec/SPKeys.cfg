SPECIFICATION Spec
INVARIANT PipelineMeetsContract
INVARIANT DefaultNeverTrustsEmbedded
CHECK_DEADLOCK FALSE
