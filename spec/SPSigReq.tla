------------------------------ MODULE SPSigReq ------------------------------
(***************************************************************************)
(* C02 -- how the three SP options want_response_signed,                    *)
(* want_assertions_signed and want_assertions_or_response_signed decide     *)
(* acceptance (Entity._parse_response, StatusResponse._loads,               *)
(* AuthnResponse.verify / parse_assertion / _assertion,                     *)
(* SecurityContext.correctly_signed_response).                              *)
(*                                                                         *)
(* Scenario: an otherwise valid response from the IdP; what is signed, and   *)
(* whether each present signature verifies; assertion plain or encrypted    *)
(* (the assertion signature then lives inside the cipher text).             *)
(* Pipeline: the code's two-stage "force the flag, retry without it"        *)
(* procedure, one action per stage; every invocation of the external tool   *)
(* is recorded in `calls`.  Contract: the acceptance table of the property. *)
(***************************************************************************)
EXTENDS Naturals, Sequences, TLC, Json

SigState == {"absent", "valid", "invalid"}
Scn == [wantResp : BOOLEAN, wantAssert : BOOLEAN, wantEither : BOOLEAN,
        respSig : SigState, assertSig : SigState, enc : BOOLEAN]

VARIABLES scn, pc, respIsSigned, assertsAreSigned, verdict, calls
vars == <<scn, pc, respIsSigned, assertsAreSigned, verdict, calls>>

Init == /\ scn \in Scn
        /\ pc = "loadsForced"
        /\ respIsSigned = FALSE /\ assertsAreSigned = FALSE
        /\ verdict = "none" /\ calls = <<>>

Out(s) == IF s = "valid" THEN "OK" ELSE "FAIL"

\* correctly_signed_response(require_response_signature = req)
LoadsCalls  == IF scn.respSig = "absent" THEN <<>> ELSE <<[mode |-> "verify", node |-> "Response", out |-> Out(scn.respSig)]>>
LoadsOK(req) == CASE scn.respSig = "valid"   -> TRUE
                  [] scn.respSig = "invalid" -> FALSE            \* SignatureError: failed to verify
                  [] scn.respSig = "absent"  -> ~req             \* SignatureError: signature missing

\* AuthnResponse.verify with require_signature = req
VerifyCalls == (IF scn.enc THEN <<[mode |-> "decrypt", node |-> "EncryptedData", out |-> "DONE"]>> ELSE <<>>)
               \o (IF scn.assertSig = "absent" THEN <<>>
                   ELSE <<[mode |-> "verify", node |-> "Assertion", out |-> Out(scn.assertSig)]>>)
VerifyOK(req) == CASE scn.assertSig = "valid"   -> TRUE
                   [] scn.assertSig = "invalid" -> FALSE
                   [] scn.assertSig = "absent"  -> ~req

Reject == verdict' = "reject" /\ pc' = "done" /\ UNCHANGED <<scn, respIsSigned, assertsAreSigned>>

LoadsForced ==
    /\ pc = "loadsForced" /\ calls' = calls \o LoadsCalls
    /\ IF LoadsOK(TRUE)
       THEN respIsSigned' = TRUE /\ pc' = "verifyForced" /\ UNCHANGED <<scn, assertsAreSigned, verdict>>
       ELSE IF scn.wantResp THEN Reject                            \* SigverError propagates
       ELSE pc' = "loadsRetry" /\ UNCHANGED <<scn, respIsSigned, assertsAreSigned, verdict>>

LoadsRetry ==
    /\ pc = "loadsRetry" /\ calls' = calls \o LoadsCalls
    /\ IF LoadsOK(scn.wantResp)
       THEN pc' = "verifyForced" /\ UNCHANGED <<scn, respIsSigned, assertsAreSigned, verdict>>
       ELSE Reject

VerifyForced ==
    /\ pc = "verifyForced" /\ calls' = calls \o VerifyCalls
    /\ IF VerifyOK(TRUE)
       THEN assertsAreSigned' = TRUE /\ pc' = "eitherOr" /\ UNCHANGED <<scn, respIsSigned, verdict>>
       ELSE IF scn.wantAssert THEN Reject
       ELSE pc' = "verifyRetry" /\ UNCHANGED <<scn, respIsSigned, assertsAreSigned, verdict>>

VerifyRetry ==
    /\ pc = "verifyRetry" /\ calls' = calls \o VerifyCalls
    /\ IF VerifyOK(scn.wantAssert)
       THEN pc' = "eitherOr" /\ UNCHANGED <<scn, respIsSigned, assertsAreSigned, verdict>>
       ELSE Reject

EitherOr ==
    /\ pc = "eitherOr" /\ UNCHANGED calls
    /\ IF scn.wantEither /\ ~respIsSigned /\ ~assertsAreSigned
       THEN Reject
       ELSE verdict' = "accept" /\ pc' = "done" /\ UNCHANGED <<scn, respIsSigned, assertsAreSigned>>

(***************************************************************************)
(* Contract (the property, as a total table for otherwise valid responses)  *)
(***************************************************************************)
MustAccept == /\ (scn.wantResp => scn.respSig # "absent")
              /\ (scn.wantAssert => scn.assertSig # "absent")
              /\ (scn.wantEither => scn.respSig # "absent" \/ scn.assertSig # "absent")
              /\ scn.respSig # "invalid" /\ scn.assertSig # "invalid"
MustReject == ~MustAccept

Emit == /\ pc = "done" /\ pc' = "emitted"
        /\ PrintT(<<"CASE", ToJson([scn |-> scn, model |-> [verdict |-> verdict, calls |-> calls],
                                    mustAccept |-> MustAccept, mustReject |-> MustReject])>>)
        /\ UNCHANGED <<scn, respIsSigned, assertsAreSigned, verdict, calls>>

Next == LoadsForced \/ LoadsRetry \/ VerifyForced \/ VerifyRetry \/ EitherOr \/ Emit
Spec == Init /\ [][Next]_vars

PipelineMeetsContract == pc \in {"done", "emitted"} => (verdict = "accept" <=> MustAccept)
\* a signature that is present but invalid is never ignored: acceptance implies every recorded
\* verification reported OK
NeverIgnoredInvalid == verdict = "accept" =>
    \A i \in 1..Len(calls) : calls[i].mode = "verify" => calls[i].out = "OK"
\* a missing required signature is never compensated by another one
NoCompensation == verdict = "accept" =>
    /\ (scn.wantResp => scn.respSig = "valid") /\ (scn.wantAssert => scn.assertSig = "valid")
=============================================================================
