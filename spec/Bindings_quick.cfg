SPECIFICATION Spec
CONSTANTS
  Alphabet = {"a", "amp", "eq", "quot", "apos", "lt", "gt", "pct", "plus", "space", "nl", "semi", "hash", "qm", "eacute", "emoji", "entamp", "entlegacy", "entnum", "pctseq", "pctbad", "tplaction", "tplrelay", "tplmsg", "tplempty", "brace", "bslash", "bsesc", "bsgroup", "big", "blankline", "linesep"}
  MaxLen = 1
  FixedSoap = TRUE
  FixedArtifact = TRUE
INVARIANT NoInjection
INVARIANT RoundTrip
CHECK_DEADLOCK FALSE
