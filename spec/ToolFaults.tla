------------------------------ MODULE ToolFaults ------------------------------
(***************************************************************************)
(* C20 -- failures of the external tool never turn into acceptance.         *)
(* Scenario: a fault of the catalogue (XmlSecFaults) injected at the first, *)
(* a later or every invocation of one mode within one operation, at one of  *)
(* the sites where the library runs the tool.  The pipeline part states     *)
(* what the loop over certificates / keys makes of it where that is simple  *)
(* (no fault, every invocation faulted); the binding to the code is the     *)
(* monitor ToolFaultsTrace, which checks the recorded invocations of every  *)
(* replay against the contract.                                             *)
(***************************************************************************)
EXTENDS Naturals, Sequences, FiniteSets, TLC, Json, XmlSecFaults

VerifySites == {"spResponse", "spAssertion", "spEncAssertion", "idpRequest", "metadata"}
DecryptSites == {"spDecrypt"}
OutputSites == {"idpSignAssertion", "idpSignResponse", "idpSignBoth", "idpEncrypt", "idpSignEncrypt"}
Positions == {"first", "later", "every"}
\* order of the certificates (verification) or private keys (decryption) the library tries
Orders == {"single", "rightFirst", "rightSecond"}

Scn == [site : VerifySites, mode : {"verify"}, fault : VerifyFaults \cup {"none", "NotStartable"}, pos : Positions,
        order : Orders, inner : {"valid"}]
       \cup [site : {"spEncAssertion"}, mode : {"decrypt"}, fault : OutputFaults \cup {"none"}, pos : Positions,
             order : {"single"}, inner : {"valid", "invalid"}]
       \cup [site : DecryptSites, mode : {"decrypt"}, fault : OutputFaults \cup {"none", "NotStartable"}, pos : Positions,
             order : Orders, inner : {"valid"}]
       \cup [site : OutputSites, mode : {"sign", "encrypt"}, fault : OutputFaults \cup {"none", "NotStartable"}, pos : Positions,
             order : {"single"}, inner : {"valid"}]
WellFormed(s) ==
    /\ (s.fault = "none" => s.pos = "every")
    /\ (s.fault = "NotStartable" => s.pos = "every")
    /\ (s.site \in {"idpRequest", "metadata"} => s.order = "single")
    /\ (s.site \in OutputSites /\ s.mode = "encrypt" => s.site \in {"idpEncrypt", "idpSignEncrypt"})
    /\ (s.site = "idpEncrypt" => s.mode = "encrypt")
    /\ (s.site \in {"idpSignAssertion", "idpSignResponse", "idpSignBoth"} => s.mode = "sign")

VARIABLES scn, pc
vars == <<scn, pc>>
Init == scn \in {s \in Scn : WellFormed(s)} /\ pc = "start"

\* every run of the faulted mode fails to report success / to produce output
AllFaulted == scn.fault # "none" /\ scn.pos = "every"
\* what the code must make of it
MustReject == AllFaulted /\ scn.site \in VerifySites \cup DecryptSites
MustRaise  == AllFaulted /\ scn.site \in OutputSites
MustAccept == scn.fault = "none" /\ scn.inner = "valid"
Emit == /\ pc = "start" /\ pc' = "emitted" /\ UNCHANGED scn
        /\ PrintT(<<"CASE", ToJson([scn |-> scn, mustReject |-> MustReject, mustRaise |-> MustRaise, mustAccept |-> MustAccept])>>)
Spec == Init /\ [][Emit]_vars
ContractConsistent == ~(MustAccept /\ (MustReject \/ MustRaise))
=============================================================================
