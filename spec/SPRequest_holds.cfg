SPECIFICATION Spec
INVARIANT ArgumentWins
CHECK_DEADLOCK FALSE
