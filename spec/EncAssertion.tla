----------------------------- MODULE EncAssertion -----------------------------
(***************************************************************************)
(* C17 -- encrypted assertions: confidentiality of what the IdP emits        *)
(* (Entity._response / _encrypt_assertion, Server.create_authn_response) and *)
(* "a decrypted assertion is checked like a plain one" on the SP            *)
(* (AuthnResponse.parse_assertion: two decryption rounds, decrypt_assertions, *)
(* _assertion).                                                            *)
(*                                                                         *)
(* producer = "idp": the response is built by the real IdP with the given    *)
(* options; producer = "attacker": a template response whose assertion was   *)
(* mutated (inner) and then encrypted for the SP's public key -- anybody can *)
(* do that.  keys: which of the SP's private keys opens the cipher text.     *)
(***************************************************************************)
EXTENDS Naturals, Sequences, FiniteSets, TLC, Json

\* expired_offset: the session of the inner assertion ended long ago, its SessionNotOnOrAfter written with a numeric zone
\* designator (+00:00: a valid xs:dateTime, not the UTC form; decrypted assertions are not schema-validated again)
Inner == {"none", "badsig", "unsigned", "expired", "notyet", "audience", "solicit", "recipient", "forged_after_signing", "expired_offset"}
\* "perRequest": the assertion is encrypted for a key pair the SP made for this one request (PEFIM: the certificate
\* travelled in the request); the SP hands two such private keys over with the response, the fitting one first; its
\* configured key pairs do not fit
Keys  == {"matchFirst", "matchSecond", "none", "perRequest"}
\* companion: the response also carries a plain, valid (and validly signed) assertion next to the encrypted one
\* spKey: the SP publishes its encryption certificate with use="encryption", or one certificate without a use attribute
\* (good for signing and encryption alike) -- either way it has an encryption certificate
Scn == [producer : {"idp"}, signResp : BOOLEAN, signAssert : BOOLEAN, advice : BOOLEAN, selfContained : BOOLEAN,
        pefim : BOOLEAN, keys : Keys, inner : {"none"}, wantAssert : BOOLEAN, companion : {FALSE},
        \* "methods": the encryption key descriptor lists the algorithms the SP prefers (md:EncryptionMethod: AES-GCM, RSA-OAEP);
        \* "extra_keyname": next to it stands a second encryption key descriptor that holds a ds:KeyName only.  Either way the
        \* SP has an encryption certificate: what is emitted for it is encrypted, or nothing is emitted
        spKey : {"labelled", "unlabelled", "methods", "extra_keyname"},
        \* priorVerify: the same IdP object has just verified a signed AuthnRequest of that SP (looked its *signing*
        \* certificate up); the assertion is encrypted under the encryption certificate all the same
        priorVerify : BOOLEAN,
        \* via: the build options are handed to create_authn_response as arguments, or stand in the IdP's configuration
        \* (sign_response, sign_assertion, encrypt_assertion, encrypted_advice_attributes, encrypt_assertion_self_contained)
        \* and the call names none of them -- the same options either way
        via : {"argument", "config"},
        \* encMain: encrypt_assertion.  FALSE with advice = TRUE: the IdP is asked to encrypt the advice assertion only (the
        \* attributes travel there -- PEFIM); the main assertion, with the subject identifier, stays plain by request
        encMain : BOOLEAN]
       \cup [producer : {"attacker"}, signResp : {FALSE}, signAssert : {TRUE}, advice : {FALSE}, selfContained : {TRUE},
             pefim : {FALSE}, keys : Keys, inner : Inner, wantAssert : BOOLEAN, companion : BOOLEAN, spKey : {"labelled"}, priorVerify : {FALSE},
             via : {"argument"}, encMain : {TRUE}]

\* the prior verification is combined with the plain build options only
WellFormed(s) == /\ s.keys = "perRequest" => /\ s.producer = "idp" /\ ~s.advice /\ ~s.pefim /\ s.selfContained /\ s.spKey = "labelled"
                                             /\ ~s.priorVerify /\ s.via = "argument" /\ s.encMain
                 /\ ~s.encMain => s.advice /\ s.pefim /\ s.keys = "matchFirst" /\ s.spKey = "labelled" /\ ~s.priorVerify /\ s.via = "argument" /\ ~s.wantAssert
                 /\ s.spKey \in {"methods", "extra_keyname"} => ~s.advice /\ ~s.pefim /\ s.selfContained /\ s.keys = "matchFirst" /\ ~s.priorVerify
                                                                 /\ s.via = "argument" /\ s.producer = "idp"
                 /\ s.priorVerify => ~s.advice /\ ~s.pefim /\ s.selfContained /\ s.keys = "matchFirst" /\ s.spKey = "labelled" /\ s.via = "argument"
                 /\ s.via = "config" => s.keys = "matchFirst" /\ s.spKey = "labelled" /\ ~s.wantAssert
VARIABLES scn, pc, plain, sigChecked, verdict
vars == <<scn, pc, plain, sigChecked, verdict>>
Init == scn \in {s \in Scn : WellFormed(s)} /\ pc = "round1" /\ plain = FALSE /\ sigChecked = FALSE /\ verdict = "none"

Done(v) == verdict' = v /\ pc' = "done" /\ UNCHANGED <<scn, plain, sigChecked>>
HasSig == scn.signAssert /\ scn.inner # "unsigned"
SigValid == scn.inner \notin {"badsig", "forged_after_signing"}
\* first decryption round: decrypt_keys tries the SP's keys in order
Round1 == /\ pc = "round1"
          /\ IF scn.keys = "none" THEN pc' = "round2" /\ UNCHANGED <<scn, plain, sigChecked, verdict>>
             ELSE /\ plain' = TRUE
                  \* decrypt_assertions(verified = FALSE): the signature, when there is one, is checked now
                  /\ IF HasSig /\ ~SigValid THEN verdict' = "reject" /\ pc' = "done" /\ UNCHANGED <<scn, sigChecked>>
                     ELSE sigChecked' = HasSig /\ pc' = "checks" /\ UNCHANGED <<scn, verdict>>
\* second round: only entered while something is still encrypted; what shows up only now is
\* checked now (repaired design)
Round2 == /\ pc = "round2"
          /\ Done(IF scn.companion THEN "accept" ELSE "noid")     \* nothing opens the cipher text: no identity from it
\* _assertion(assertion, verified = TRUE) and the checks every assertion gets
Checks == /\ pc = "checks"
          /\ IF scn.wantAssert /\ ~HasSig THEN Done("reject")
             ELSE IF scn.inner \in {"expired", "notyet", "audience", "solicit", "recipient", "expired_offset"} THEN Done("reject")
             ELSE Done("accept")

\* ---- contract
Decryptable == scn.keys # "none"
\* with a valid plain companion an undecryptable assertion leaves the companion's identity: open
InnerBad == \/ scn.inner \in {"badsig", "forged_after_signing", "expired", "notyet", "audience", "solicit", "expired_offset"}
            \/ (scn.inner = "unsigned" /\ scn.wantAssert)
            \/ (~scn.signAssert /\ scn.wantAssert)
\* (with a plain main assertion what the SP accepts is left open here: the statement checked is confidentiality)
MustNoIdentity == scn.encMain /\ ((~Decryptable /\ ~scn.companion) \/ (Decryptable /\ InnerBad))
\* what the same assertion would get in plain (the relational clause: same checks)
PlainWouldReject == scn.inner \in {"badsig", "forged_after_signing", "expired", "notyet", "audience", "solicit", "expired_offset"}
                    \/ ((scn.inner = "unsigned" \/ ~scn.signAssert) /\ scn.wantAssert)
MustAccept == scn.encMain /\ Decryptable /\ scn.inner = "none" /\ (scn.wantAssert => scn.signAssert) /\ ~scn.companion
              /\ (scn.producer = "idp" => scn.selfContained \/ scn.pefim)      \* see DESIGN: non-self-contained output
Confidential == scn.producer = "idp"
Emit == /\ pc = "done" /\ pc' = "emitted" /\ UNCHANGED <<scn, plain, sigChecked, verdict>>
        /\ PrintT(<<"CASE", ToJson([scn |-> scn, model |-> verdict, mustNoIdentity |-> MustNoIdentity,
                                    mustAccept |-> MustAccept, confidential |-> Confidential,
                                    clearBySubject |-> ~scn.encMain])>>)
Next == Round1 \/ Round2 \/ Checks \/ Emit
Spec == Init /\ [][Next]_vars
PipelineMeetsContract == pc \in {"done", "emitted"} =>
    /\ (MustNoIdentity => verdict # "accept") /\ (MustAccept => verdict = "accept")
SameChecks == pc \in {"done", "emitted"} /\ Decryptable => (PlainWouldReject => verdict # "accept")
\* an identity is only ever taken from content that was decrypted and, if signed, verified
NoIdentityFromCipherText == verdict = "accept" /\ ~scn.companion => plain /\ (HasSig => sigChecked)
=============================================================================
