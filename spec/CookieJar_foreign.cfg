SPECIFICATION Spec
CONSTANT AsCoded = TRUE
INVARIANT NoForeignDomain
CHECK_DEADLOCK FALSE
