--------------------------- MODULE SessionCacheMC ---------------------------
(* Model-checking instance of SessionCache: constants, edge emission for the  *)
(* "one implementation test per transition" replay, behaviours for -simulate. *)
EXTENDS SessionCache, Json, TLCExt

AvasSmall == {[a |-> {1}, b |-> {}], [a |-> {2}, b |-> {1}]}
AvasBig   == {[a |-> {1}, b |-> {}], [a |-> {2}, b |-> {1}], [a |-> {1, 2}, b |-> {2}], [a |-> {}, b |-> {}]}

CONSTANT AvaChoice        \* which of the above the Set action draws from
AvaSet == IF AvaChoice = "small" THEN AvasSmall ELSE AvasBig

MCMutators == \/ \E s \in Subj, i \in Src, a \in AvaSet, e \in Exps : Set(s, i, a, e)
              \/ \E s \in Subj, i \in Src : Reset(s, i)
              \/ \E s \in Subj : Delete(s)
              \/ Tick \/ Reopen
MCNext == MCMutators \/ Queries
MCSpec == Init /\ [][MCNext]_vars

Symm == Permutations(Subj) \cup Permutations(Src)

\* every explored transition is printed once (VIEW hides `last`, so each <<store, now>>
\* is expanded once): the harness builds `pre` in the real object and performs `op`
EmitEdge == PrintT(<<"CASE", ToJson([pre |-> store, now |-> now, op |-> last', post |-> store', now2 |-> now'])>>)

MCTypeOK == /\ now \in 0..MaxT
            /\ \A s \in Subj, i \in Src :
                  \/ store[s][i] \in {NoCell, ResetCell}
                  \/ (store[s][i].kind = "info" /\ store[s][i].exp \in Exps /\ store[s][i].ava \in AvaSet)
=============================================================================
