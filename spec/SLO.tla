---------------------------------- MODULE SLO ----------------------------------
(***************************************************************************)
(* Growth beyond the listed properties: SP-initiated single logout           *)
(* (Saml2Client.global_logout / do_logout / handle_logout_response /         *)
(* local_logout, the SP's state cache `self.state`).                         *)
(*                                                                         *)
(* One subject, a set of IdPs the SP holds sessions from.  Each IdP is       *)
(* reachable synchronously (SOAP) or over the front channel (POST/Redirect).  *)
(* The model follows the code step by step:                                 *)
(*   Start          do_logout over all IdPs: SOAP ones are asked and answer  *)
(*                  within the call, front-channel ones get a request in     *)
(*                  flight and an entry in the state cache that shares ONE   *)
(*                  list of remaining IdPs with the other entries of the     *)
(*                  same call (Python list aliasing: `entity_ids`);          *)
(*   IdPAnswers     the IdP ends its session and replies;                    *)
(*   Handle         handle_logout_response: drop the entry; if the remaining *)
(*                  list is exactly [issuer] -> local logout, else remove    *)
(*                  the issuer from the (shared) list and run do_logout      *)
(*                  again over what remains (sending new requests);          *)
(*   Expire         the deadline passes; a later do_logout logs out locally. *)
(* Safety statements checked by TLC are at the bottom; two of them do NOT    *)
(* hold for the code's design and are recorded as observations (DESIGN 15.7). *)
(***************************************************************************)
EXTENDS Naturals, FiniteSets, Sequences, TLC

CONSTANTS IdP,          \* identity providers with a session for the subject
          Soap,         \* the subset reachable over SOAP
          MaxReq        \* bound on request identifiers

VARIABLES spSession,    \* the SP still holds the subject's local session (Population entry)
          idpSession,   \* [IdP -> BOOLEAN]
          state,        \* state cache: request id -> [idp, lst]  (lst: identifier of a shared list)
          lists,        \* shared lists: list id -> set of IdPs still to hear from
          flight,       \* requests in flight on the front channel: set of [id, idp]
          answers,      \* responses in flight: set of [id, idp]
          nextId, nextList, expired, last
vars == <<spSession, idpSession, state, lists, flight, answers, nextId, nextList, expired, last>>

NoEntry == [idp |-> "none", lst |-> 0]
Init == /\ spSession = TRUE /\ idpSession = [i \in IdP |-> TRUE]
        /\ state = [r \in 1..MaxReq |-> NoEntry] /\ lists = [l \in 1..MaxReq |-> {}]
        /\ flight = {} /\ answers = {} /\ nextId = 1 /\ nextList = 1 /\ expired = FALSE
        /\ last = [op |-> "Init"]

Async(S) == S \ Soap
\* do_logout(name_id, S): one request per IdP of S; SOAP IdPs answer inside the call
DoLogout(S, tag) ==
    IF expired
    THEN /\ spSession' = FALSE                                     \* "I've run out of time": local logout anyway
         /\ UNCHANGED <<idpSession, state, lists, flight, answers, nextId, nextList>>
         /\ last' = [op |-> tag, sent |-> {}, local |-> TRUE]
    ELSE LET as == Async(S)
             n == Cardinality(as)
             ids == nextId..(nextId + n - 1)
             assign == CHOOSE f \in [ids -> as] : \A a \in as : \E r \in ids : f[r] = a
         IN /\ nextId + n - 1 <= MaxReq /\ nextList <= MaxReq
            /\ idpSession' = [i \in IdP |-> IF i \in S \cap Soap THEN FALSE ELSE idpSession[i]]
            /\ lists' = [lists EXCEPT ![nextList] = S]             \* the caller's list object, shared by all entries
            /\ state' = [r \in 1..MaxReq |-> IF r \in ids THEN [idp |-> assign[r], lst |-> nextList] ELSE state[r]]
            /\ flight' = flight \cup {[id |-> r, idp |-> assign[r]] : r \in ids}
            /\ nextId' = nextId + n /\ nextList' = nextList + 1
            /\ UNCHANGED <<spSession, answers>>
            /\ last' = [op |-> tag, sent |-> as, local |-> FALSE]

Start == /\ last.op = "Init" /\ DoLogout(IdP, "Start") /\ UNCHANGED expired
IdPAnswers(m) == /\ m \in flight
                 /\ flight' = flight \ {m} /\ answers' = answers \cup {m}
                 /\ idpSession' = [idpSession EXCEPT ![m.idp] = FALSE]
                 /\ last' = [op |-> "IdPAnswers", id |-> m.id, idp |-> m.idp]
                 /\ UNCHANGED <<spSession, state, lists, nextId, nextList, expired>>
\* handle_logout_response(response to request m.id from m.idp)
Handle(m) ==
    /\ m \in answers /\ state[m.id] # NoEntry
    /\ answers' = answers \ {m}
    /\ LET e == state[m.id]  rem == lists[e.lst] IN
       IF rem = {m.idp}
       THEN /\ spSession' = FALSE                                  \* done: local_logout
            /\ state' = [state EXCEPT ![m.id] = NoEntry]
            /\ UNCHANGED <<idpSession, lists, flight, nextId, nextList>>
            /\ last' = [op |-> "Handle", id |-> m.id, sent |-> {}, local |-> TRUE]
       ELSE IF m.idp \notin rem
       THEN \* the issuer was already struck off the shared list by an earlier answer (to a duplicate request):
            \* list.remove raises ValueError after the entry has been deleted
            /\ state' = [state EXCEPT ![m.id] = NoEntry]
            /\ UNCHANGED <<spSession, idpSession, lists, flight, nextId, nextList>>
            /\ last' = [op |-> "Handle", id |-> m.id, sent |-> {}, local |-> FALSE, raises |-> TRUE]
       ELSE \* remove the issuer from the shared list, then do_logout over the rest: new requests, new entries
            LET rest == rem \ {m.idp}
                as == Async(rest)
                n == Cardinality(as)
                ids == nextId..(nextId + n - 1)
                assign == CHOOSE f \in [ids -> as] : \A a \in as : \E r \in ids : f[r] = a
            IN /\ ~expired /\ nextId + n - 1 <= MaxReq
               /\ idpSession' = [i \in IdP |-> IF i \in rest \cap Soap THEN FALSE ELSE idpSession[i]]
               /\ lists' = [lists EXCEPT ![e.lst] = rest]             \* the same list object is handed to do_logout again
               /\ state' = [r \in 1..MaxReq |-> IF r = m.id THEN NoEntry
                                                ELSE IF r \in ids THEN [idp |-> assign[r], lst |-> e.lst] ELSE state[r]]
               /\ flight' = flight \cup {[id |-> r, idp |-> assign[r]] : r \in ids}
               /\ nextId' = nextId + n /\ UNCHANGED <<spSession, nextList>>
               /\ last' = [op |-> "Handle", id |-> m.id, sent |-> as, local |-> FALSE]
    /\ UNCHANGED expired
Expire == /\ ~expired /\ expired' = TRUE /\ last' = [op |-> "Expire"]
          /\ UNCHANGED <<spSession, idpSession, state, lists, flight, answers, nextId, nextList>>
Next == Start \/ (\E m \in flight : IdPAnswers(m)) \/ (\E m \in answers : Handle(m)) \/ Expire
Spec == Init /\ [][Next]_vars

Outstanding == {r \in 1..MaxReq : state[r] # NoEntry}
(***************************************************************************)
(* Statements                                                              *)
(***************************************************************************)
TypeOK == spSession \in BOOLEAN /\ nextId \in 1..(MaxReq + 1)
\* holds: the local session is dropped only when every front-channel IdP has been heard from or time ran out
LocalLogoutOnlyWhenDone == (~spSession /\ ~expired) => \A i \in Async(IdP) : ~idpSession[i]
\* holds: an answer always finds its state entry (no KeyError in handle_logout_response)
AnswerFindsEntry == \A m \in answers : state[m.id] # NoEntry
HandleNeverRaises == last.op = "Handle" => "raises" \notin DOMAIN last
\* does NOT hold for the code's design (nor does HandleNeverRaises): with two front-channel IdPs the first answer makes the SP send
\* a second request to the other one, whose entry and answer survive the local logout
NoDuplicateRequests == \A m, n \in flight \cup answers : m.idp = n.idp => m.id = n.id
NoEntryAfterLocalLogout == ~spSession => Outstanding = {}
\* does NOT hold for the code's design when every IdP is reachable over SOAP: do_logout ends all IdP
\* sessions and returns, nothing ever drops the local session (the application has to)
LocalLogoutHappens == (\A i \in IdP : ~idpSession[i]) /\ flight = {} /\ answers = {} /\ last.op # "Init" => ~spSession
=============================================================================
