------------------------------- MODULE SPRequest -------------------------------
(***************************************************************************)
(* Growth beyond the listed properties: what an authentication request says  *)
(* (Saml2Client.create_authn_request: NameIDPolicy and ForceAuthn from call   *)
(* arguments, configuration and defaults) and what the identity provider      *)
(* reads from it (Server.parse_authn_request).                               *)
(*                                                                         *)
(* The rule a deployer relies on: an argument of the call wins over the       *)
(* configuration, the configuration over the built-in default.  Pipeline is   *)
(* the code's decision procedure step by step; Expected the rule.            *)
(***************************************************************************)
EXTENDS Naturals, Sequences, FiniteSets, TLC, Json

\* name id format: argument of the call / configuration ("unset", one format, a list, the string 'None', the empty string)
ArgFmt == {"unset", "persistent", "empty"}
CfgFmt == {"unset", "persistent", "list_email_first", "None"}
\* allow_create / force_authn as call arguments: the strings "true" / "false", or Python booleans (which the message
\* classes cannot serialise: the request cannot be built -- PythonBooleansWork below is refuted)
ArgBool == {"unset", "true", "false", "pyTrue", "pyFalse"}
CfgBool == {"unset", "true", "false"}
Scn == [argFmt : ArgFmt, cfgFmt : CfgFmt, argCreate : ArgBool, cfgCreate : CfgBool, argForce : ArgBool, cfgForce : CfgBool]

VARIABLES scn, pc, out
vars == <<scn, pc, out>>
Init == scn \in Scn /\ pc = "build" /\ out = [policy |-> "none", format |-> "none", create |-> "none", force |-> "absent"]

\* ---- the code
CodeCreate == IF scn.argCreate # "unset" THEN scn.argCreate                                          \* the argument is used as handed in
              ELSE IF scn.cfgCreate = "true" THEN "true" ELSE "false"
CodeFormat == IF scn.argFmt = "persistent" THEN "persistent"
              ELSE CASE scn.cfgFmt = "unset" -> "transient"
                     [] scn.cfgFmt = "persistent" -> "persistent"
                     [] scn.cfgFmt = "list_email_first" -> "email"
                     [] OTHER -> "absent"                                     \* 'None': a policy without Format
CodeForce == IF scn.argForce # "unset" THEN scn.argForce              \* the keyword argument reaches the message constructor as it is
             ELSE IF scn.cfgForce = "true" THEN "true" ELSE "absent"
Unbuildable == scn.argForce \in {"pyTrue", "pyFalse"} \/ (scn.argCreate \in {"pyTrue", "pyFalse"} /\ scn.argFmt # "empty")
Build == /\ pc = "build" /\ pc' = "done" /\ UNCHANGED scn
         /\ out' = IF Unbuildable THEN [policy |-> "unbuildable", format |-> "-", create |-> "-", force |-> "-"]
                   ELSE IF scn.argFmt = "empty" THEN [policy |-> "absent", format |-> "absent", create |-> "absent", force |-> CodeForce]
                   ELSE [policy |-> "present", format |-> CodeFormat, create |-> CodeCreate, force |-> CodeForce]

\* ---- the rule: argument over configuration over default (default: transient, AllowCreate false, no ForceAuthn)
ExpFormat == IF scn.argFmt = "persistent" THEN "persistent" ELSE CodeFormat
ExpCreate == IF scn.argCreate # "unset" THEN scn.argCreate ELSE IF scn.cfgCreate = "true" THEN "true" ELSE "false"
ExpForce  == CodeForce
Emit == /\ pc = "done" /\ pc' = "emitted" /\ UNCHANGED <<scn, out>>
        /\ PrintT(<<"CASE", ToJson([scn |-> scn, model |-> out, expCreate |-> ExpCreate, expFormat |-> ExpFormat, expForce |-> ExpForce])>>)
Next == Build \/ Emit
Spec == Init /\ [][Next]_vars

ArgumentWins == pc \in {"done", "emitted"} /\ out.policy = "present" => out.format = ExpFormat /\ out.create = ExpCreate
ForceRule == pc \in {"done", "emitted"} /\ out.policy # "unbuildable" => out.force = ExpForce
\* refuted: Python booleans as arguments give a request (they cannot be serialised)
PythonBooleansWork == pc \in {"done", "emitted"} => out.policy # "unbuildable"
=============================================================================
