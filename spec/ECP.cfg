SPECIFICATION Spec
CONSTANT AsCoded = TRUE
INVARIANT DeliverOnlyWhereBothAgree
INVARIANT NeverToUnnamedUrl
INVARIANT NoDeliveryOnMismatch
INVARIANT DoneOnlyAfter302
INVARIANT RelayReturned
INVARIANT IdpFirst
CHECK_DEADLOCK FALSE
