---------------------------- MODULE RedirectSigMC ----------------------------
(* behaviours of RedirectSig for the spec -> code direction: the history of       *)
(* operations is part of the state, every behaviour of length Depth is printed    *)
EXTENDS RedirectSig, Json
CONSTANT Depth
VARIABLE hist
mvars == <<gen, loaded, slot, held, wire, last, hist>>
MCInit == Init /\ hist = <<>>
\* verification steps inside behaviours use the untouched query only (mutations are
\* enumerated by RedirectQuery.tla)
BNext == \/ \E e \in Ent, a \in Algs : Obtain(e, a) \/ SignNow(e, a)
         \/ \E e \in Ent : Sign(e) \/ Rekey(e)
         \/ \E v \in Ent, i \in 1..MaxWire, c \in Certs : Verify(v, i, c, "none")
Step == Len(hist) < Depth /\ BNext /\ hist' = Append(hist, last')
Finish == /\ Len(hist) = Depth /\ hist[Len(hist)].op # "End"
          /\ PrintT(<<"CASE", ToJson(hist)>>)
          /\ hist' = Append(hist, [op |-> "End"]) /\ UNCHANGED vars
MCNext == Step \/ Finish
MCSpec == MCInit /\ [][MCNext]_mvars
\* only behaviours that sign something are worth replaying
Interesting == Len(hist) = Depth => Len(wire) > 0
=============================================================================
