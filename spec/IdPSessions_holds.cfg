SPECIFICATION Spec
CONSTANTS
  Users = {"u1", "u2"}
  MaxLogins = 3
INVARIANT ByIdExact
INVARIANT QueryIsolated
PROPERTY CleanOutComplete
CHECK_DEADLOCK FALSE
