--------------------------- MODULE RedirectSigTrace ---------------------------
(* Code -> spec for C15: executions of the real objects (one thread per entity)   *)
(* with the key that really signed each URL and each verification verdict, must   *)
(* be behaviours of the repaired design (Shared = FALSE).                         *)
EXTENDS RedirectSig, Json, IOUtils, TLCExt
Traces == JsonDeserialize(IOEnv.TRACE_FILE)
VARIABLES tid, l
tvars == <<gen, loaded, slot, held, wire, last, tid, l>>
Ev == Traces[tid][l]
Act == \/ Ev.op = "Obtain" /\ Obtain(Ev.e, Ev.alg)
       \/ Ev.op = "Sign" /\ Sign(Ev.e) /\ last'.key = Ev.key /\ last'.alg = Ev.alg
       \/ Ev.op = "SignNow" /\ SignNow(Ev.e, Ev.alg) /\ last'.key = Ev.key
       \/ Ev.op = "Rekey" /\ Rekey(Ev.e)
       \/ Ev.op = "Verify" /\ Verify(Ev.e, Ev.idx, Ev.cert, "none") /\ last'.ok = Ev.ok
TraceInit == Init /\ tid \in 1..Len(Traces) /\ l = 1 /\ TLCSet(tid, 0)
TraceNext == /\ l <= Len(Traces[tid]) /\ Act /\ l' = l + 1 /\ tid' = tid /\ TLCSet(tid, l)
TraceSpec == TraceInit /\ [][TraceNext]_tvars
AllTracesAccepted ==
    \A t \in 1..Len(Traces) :
        \/ TLCGet(t) = Len(Traces[t])
        \/ PrintT(<<"REJECTED", ToJson([trace |-> t, matched |-> TLCGet(t), of |-> Len(Traces[t]),
                                        next |-> Traces[t][TLCGet(t) + 1]])>>) /\ FALSE
=============================================================================
