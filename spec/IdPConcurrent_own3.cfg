SPECIFICATION Spec
CONSTANTS
  Reqs = {"sp1", "sp2", "sp3"}
  Shared = FALSE
  SignAssertion = TRUE
INVARIANT EncryptedForRecipient
CHECK_DEADLOCK FALSE
