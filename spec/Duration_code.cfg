SPECIFICATION Spec
CHECK_DEADLOCK FALSE
