SPECIFICATION SpecQuiet
INVARIANT AgreesWhenPlain
CHECK_DEADLOCK FALSE
