SPECIFICATION Spec
CONSTANTS
  Slacks = {0, 1, 60, 86400}
  Spellings = {"Z", "fracZ", "noZ", "frac", "fracHighZ", "offPlus", "offMinus"}
INVARIANT PipelineMeetsContract
INVARIANT ContractConsistent
CHECK_DEADLOCK FALSE
