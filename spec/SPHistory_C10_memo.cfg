SPECIFICATION Spec
CONSTANTS
  Memo = "sigById"
  MsgKeys = {"kIdp1", "kIdp1b"}
  Edits = {FALSE, TRUE}
  EnvActs = {"roll"}
  Levels = {"request"}
  Deliveries = 2
INVARIANT HistoryIndependent
CHECK_DEADLOCK FALSE
