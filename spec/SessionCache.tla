---------------------------- MODULE SessionCache ----------------------------
(***************************************************************************)
(* C19 -- the SP session cache (saml2_tophat.cache.Cache, used through      *)
(* saml2_tophat.population.Population by the client).                       *)
(*                                                                         *)
(* State: for every subject (a NameID) and every source (an entity id) the  *)
(* information last stored, with its expiry.  One action per public method; *)
(* the clock is an environment action.  The operational definitions below   *)
(* are written the way the code works (iterate over sources, call Get,      *)
(* collect "oldees"); the contract of the property is written               *)
(* declaratively further down and TLC checks that the two agree in every    *)
(* reachable state.                                                        *)
(*                                                                         *)
(* `last` records the operation just performed with its arguments and its   *)
(* result: it is what the conformance harness replays / validates.          *)
(***************************************************************************)
EXTENDS Naturals, FiniteSets, Sequences, TLC

CONSTANTS Subj,      \* subjects (name identifiers)
          Src,       \* sources (issuers)
          Attr,      \* attribute names
          Val,       \* attribute values
          Exps,      \* expiry instants that may be stored (non-zero)
          MaxT       \* the clock runs 0..MaxT

VARIABLES store, now, last
vars == <<store, now, last>>

NoCell == [exp |-> 0, ava |-> <<>>, kind |-> "absent"]
Ava    == [Attr -> SUBSET Val]
Cell(e, a) == [exp |-> e, ava |-> a, kind |-> "info"]
ResetCell  == [exp |-> 0, ava |-> [x \in Attr |-> {}], kind |-> "reset"]   \* cache.reset: set(.., {}, 0)

EmptyAva == [x \in Attr |-> {}]

TypeOK == /\ now \in 0..MaxT
          /\ \A s \in Subj, i \in Src :
                \/ store[s][i] = NoCell
                \/ store[s][i] = ResetCell
                \/ /\ store[s][i].kind = "info" /\ store[s][i].exp \in Exps
                   /\ store[s][i].ava \in Ava

Known(s)      == {i \in Src : store[s][i].kind # "absent"}     \* the subject has an entry iff this is non-empty
HasSubject(s) == Known(s) # {}

\* time_util.after(exp): "not exp" or now > exp
Expired(c) == c.exp = 0 \/ now > c.exp

(***************************************************************************)
(* Operational results, written like the code.                             *)
(***************************************************************************)
GetResult(s, i, check) ==
    LET c == store[s][i] IN
    IF c.kind = "absent" THEN [r |-> "KeyError"]
    ELSE IF check /\ Expired(c) THEN [r |-> "ToOld"]
    ELSE IF c.kind = "reset" THEN [r |-> "none"]
    ELSE [r |-> "info", ava |-> c.ava, exp |-> c.exp]

RECURSIVE Collect(_, _, _, _, _)
\* iterate over the sequence of entities like Cache.get_identity
Collect(s, ents, check, res, old) ==
    IF ents = <<>> THEN [r |-> "ok", ava |-> res, old |-> old]
    ELSE LET i == Head(ents)
             g == GetResult(s, i, check)
         IN IF g.r = "KeyError" THEN [r |-> "KeyError"]
            ELSE IF g.r \in {"ToOld", "none"} THEN Collect(s, Tail(ents), check, res, old \cup {i})
            ELSE Collect(s, Tail(ents), check, [a \in Attr |-> res[a] \cup g.ava[a]], old)

RECURSIVE SetToSeq(_)
SetToSeq(S) == IF S = {} THEN <<>> ELSE LET x == CHOOSE y \in S : TRUE IN <<x>> \o SetToSeq(S \ {x})

IdentityResult(s, ents, check) ==
    IF ents = {} THEN (IF ~HasSubject(s) THEN [r |-> "ok", ava |-> EmptyAva, old |-> {}]
                       ELSE Collect(s, SetToSeq(Known(s)), check, EmptyAva, {}))
    ELSE Collect(s, SetToSeq(ents), check, EmptyAva, {})

ActiveResult(s, i) ==
    LET c == store[s][i] IN
    IF c.kind # "info" THEN FALSE ELSE now <= c.exp          \* time_util.not_on_or_after

(***************************************************************************)
(* Actions                                                                 *)
(***************************************************************************)
Init == /\ store = [s \in Subj |-> [i \in Src |-> NoCell]]
        /\ now = 0
        /\ last = [op |-> "Init"]

\* Set stores a *copy* of what it is handed: the cell depends on the arguments of this call alone, not on what the caller
\* does with its dictionary afterwards or hands over in a later call (the replay re-uses one dictionary for every call)
Set(s, i, a, e) ==
    /\ store' = [store EXCEPT ![s][i] = Cell(e, a)]
    /\ last' = [op |-> "Set", s |-> s, i |-> i, ava |-> a, exp |-> e, ret |-> [r |-> "ok"]]
    /\ UNCHANGED now

Reset(s, i) ==
    /\ store' = [store EXCEPT ![s][i] = ResetCell]
    /\ last' = [op |-> "Reset", s |-> s, i |-> i, ret |-> [r |-> "ok"]]
    /\ UNCHANGED now

Delete(s) ==
    /\ IF HasSubject(s)
       THEN /\ store' = [store EXCEPT ![s] = [i \in Src |-> NoCell]]
            /\ last' = [op |-> "Delete", s |-> s, ret |-> [r |-> "ok"]]
       ELSE /\ UNCHANGED store
            /\ last' = [op |-> "Delete", s |-> s, ret |-> [r |-> "KeyError"]]
    /\ UNCHANGED now

Get(s, i, check) ==
    /\ last' = [op |-> "Get", s |-> s, i |-> i, check |-> check,
                ret |-> IF HasSubject(s) THEN GetResult(s, i, check) ELSE [r |-> "KeyError"]]
    /\ UNCHANGED <<store, now>>

GetIdentity(s, ents, check) ==
    /\ last' = [op |-> "GetIdentity", s |-> s, ents |-> ents, check |-> check,
                ret |-> IF ents # {} /\ ~HasSubject(s) THEN [r |-> "KeyError"]
                        ELSE IdentityResult(s, ents, check)]
    /\ UNCHANGED <<store, now>>

Active(s, i) ==
    /\ last' = [op |-> "Active", s |-> s, i |-> i, ret |-> [r |-> "bool", v |-> ActiveResult(s, i)]]
    /\ UNCHANGED <<store, now>>

Entities(s) ==
    /\ last' = [op |-> "Entities", s |-> s,
                ret |-> IF HasSubject(s) THEN [r |-> "set", v |-> Known(s)] ELSE [r |-> "KeyError"]]
    /\ UNCHANGED <<store, now>>

Subjects ==
    /\ last' = [op |-> "Subjects", ret |-> [r |-> "set", v |-> {s \in Subj : HasSubject(s)}]]
    /\ UNCHANGED <<store, now>>

\* Population.stale_sources_for_person(name_id) with sources = None
Stale(s) ==
    /\ last' = [op |-> "Stale", s |-> s,
                ret |-> IF HasSubject(s)
                        THEN [r |-> "set", v |-> {i \in Known(s) : ~ActiveResult(s, i)}]
                        ELSE [r |-> "KeyError"]]
    /\ UNCHANGED <<store, now>>

Tick == /\ now < MaxT /\ now' = now + 1 /\ last' = [op |-> "Tick", ret |-> [r |-> "ok"]]
        /\ UNCHANGED store

\* the process restarts (or a second worker opens the same file): a new Cache object over the persistent store.  What was
\* stored is still there -- and stays there when the new object stores something else.  (For the in-memory cache there is
\* nothing to reopen; the replay skips the step.)
Reopen == /\ last' = [op |-> "Reopen", ret |-> [r |-> "ok"]] /\ UNCHANGED <<store, now>>

Mutators == \/ \E s \in Subj, i \in Src, a \in Ava, e \in Exps : Set(s, i, a, e)
            \/ \E s \in Subj, i \in Src : Reset(s, i)
            \/ \E s \in Subj : Delete(s)
            \/ Tick \/ Reopen

Queries == \/ \E s \in Subj, i \in Src, c \in BOOLEAN : Get(s, i, c)
           \/ \E s \in Subj, E \in SUBSET Src, c \in BOOLEAN : GetIdentity(s, E, c)
           \/ \E s \in Subj, i \in Src : Active(s, i)
           \/ \E s \in Subj : Entities(s)
           \/ \E s \in Subj : Stale(s)
           \/ Subjects

Next == Mutators \/ Queries
Spec == Init /\ [][Next]_vars

(***************************************************************************)
(* Contract of C19, declaratively, from the property text.                 *)
(***************************************************************************)
Live(s, check) == {i \in Known(s) : store[s][i].kind = "info" /\ (~check \/ ~Expired(store[s][i]))}

\* "exactly the union of what was stored for that same subject by sources whose expiry
\*  has not passed; expired or reset sources reported as such"
ExactUnion ==
    \A s \in Subj, check \in BOOLEAN :
        HasSubject(s) =>
          LET r == IdentityResult(s, {}, check) IN
          /\ r.r = "ok"
          /\ r.ava = [a \in Attr |-> UNION {store[s][i].ava[a] : i \in Live(s, check)}]
          /\ r.old = Known(s) \ Live(s, check)

\* nothing of an expired or reset source contributes
NoExpiredData ==
    \A s \in Subj : LET r == IdentityResult(s, {}, TRUE) IN
        r.r = "ok" => \A a \in Attr : \A v \in r.ava[a] :
            \E i \in Known(s) : /\ store[s][i].kind = "info" /\ now <= store[s][i].exp
                                /\ v \in store[s][i].ava[a]

\* information stored under one name identifier is never returned for another one:
\* the answer for s is a function of store[s] alone (checked as an action property)
Isolation ==
    [][\A s \in Subj : store'[s] = store[s] =>
          \A check \in BOOLEAN :
             (now' = now => IdentityResult(s, {}, check)' = IdentityResult(s, {}, check))]_vars

\* removal of a subject removes everything about it
DeleteAll == [][\A s \in Subj : (last'.op = "Delete" /\ last'.s = s /\ last'.ret.r = "ok")
                    => /\ ~HasSubject(s)'
                       /\ \A t \in Subj \ {s} : store'[t] = store[t]]_vars

\* queries do not change anything
QueriesPure == [][last'.op \in {"Get", "GetIdentity", "Active", "Entities", "Subjects", "Stale"}
                    => UNCHANGED <<store, now>>]_vars

\* active agrees with get(check=TRUE) for stored information
ActiveAgrees == \A s \in Subj, i \in Src :
    store[s][i].kind = "info" => (ActiveResult(s, i) <=> GetResult(s, i, TRUE).r = "info")

View == <<store, now>>
=============================================================================
