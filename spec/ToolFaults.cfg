SPECIFICATION Spec
INVARIANT ContractConsistent
CHECK_DEADLOCK FALSE
