---------------------------- MODULE RedirectQuery ----------------------------
(***************************************************************************)
(* C15, first sentence: which (mutated) signed queries verify.  Scenario     *)
(* spec: a query signed by entity "own" with algorithm alg, one mutation,    *)
(* one candidate certificate.  The pipeline follows                         *)
(* verify_redirect_signature step by step; the contract is the property.    *)
(***************************************************************************)
EXTENDS Naturals, Sequences, TLC, Json

CONSTANTS Algs, Muts, Fixed

\* RelayState by the characters it contains: the two form encoders in the package (six.moves = the standard library in
\* pack.py, future.backports in sigver.py as pinned) and RFC 3986 quoting differ on exactly these classes
\* "pctliteral": the RelayState text itself contains percent signs and what looks like percent-escapes ("50%25 off"): every
\* encoder spells a percent sign %25, and the verifier works on the values as decoded once -- by the transport, not again
RelayClasses == {"none", "amp", "space", "tilde", "unreserved", "unicode", "pctliteral"}
Scn == [alg : Algs, typ : {"SAMLRequest", "SAMLResponse"}, relay : RelayClasses,
        mut : Muts,
        \* the certificate handed to the verifier: the signer's, another entity's, another entity's that has expired;
        \* backend: whose crypto object runs the check -- another entity's, or (co-hosted entities, the library's own
        \* tests) the signer's, which holds the signing key
        cert : {"own", "other", "other_expired"}, backend : {"other", "signer"},
        \* prior: the receiver has just checked the very same parsed query under another certificate (it loops over the
        \* certificates metadata holds for the peer).  A check is a function of its arguments: it leaves the query as it was.
        prior : {"none", "otherCertFirst"}]
WellFormed(s) == /\ s.backend = "signer" => s.mut \in {"none", "msg_changed"} /\ s.relay \in {"none", "amp"}
                 /\ s.prior # "none" => s.backend = "other" /\ s.mut \in {"none", "msg_changed", "relay_changed"} /\ s.relay \in {"none", "amp"}

\* how an encoder spells a character class (abstractly: two spellings are equal iff the same token)
Spell(enc, class) == CASE class = "tilde" -> IF enc = "form_backport" THEN "pct" ELSE "literal"
                       [] class = "space" -> IF enc = "rfc3986" THEN "pct" ELSE "plus"
                       [] OTHER -> "same"
\* the three places a query string is produced: the string that is signed, the string put on the wire
\* (http_redirect_message), the string the verifier rebuilds from decoded parameters (verify_redirect_signature)
SignEnc == "form_std"
WireEnc == "form_std"
VerifyEnc == IF Fixed THEN "form_std" ELSE "form_backport"
RebuildSame(s) == Spell(SignEnc, s.relay) = Spell(VerifyEnc, s.relay)
WireSame(s) == Spell(SignEnc, s.relay) = Spell(WireEnc, s.relay)

VARIABLES scn, pc, verdict
vars == <<scn, pc, verdict>>

\* ---- the query as the verifier sees it
\* nosigalg_signed: the peer signed the query *without* an algorithm parameter (RSA-SHA1 over the other parameters) and
\* sends none: there is nothing that says how to verify it
HasSigAlg(s)  == s.mut \notin {"sigalg_removed", "nosigalg_signed"}
SigAlgOK(s)   == HasSigAlg(s) /\ s.mut # "sigalg_unsupported"
HasSig(s)     == s.mut # "sig_removed"
HasMsg(s)     == s.mut # "msg_removed"
\* the octet string the verifier rebuilds equals the one that was signed
HasRelay(s)   == s.relay # "none"
SameString(s) == /\ RebuildSame(s) /\ s.mut # "nosigalg_signed"
                 /\ \/ s.mut \in {"none", "reordered", "extra_param"}
                    \/ (s.mut = "relay_removed" /\ ~HasRelay(s)) \/ (s.mut = "relay_changed" /\ ~HasRelay(s))
SigIntact(s)  == s.mut # "sig_changed" /\ s.mut # "sig_other_message"

Init == scn \in {s \in Scn : WellFormed(s)} /\ pc = "get_signer" /\ verdict = "none"

Done(v) == /\ pc' = "done" /\ verdict' = v /\ UNCHANGED scn
           /\ PrintT(<<"CASE", ToJson([scn |-> scn, model |-> v,
                                       mustVerify |-> (scn.mut \in {"none"} /\ scn.cert = "own"),
                                       wireKeyOwn |-> TRUE,
                                       mustNotVerify |-> ~(SameString(scn) /\ SigIntact(scn) /\ SigAlgOK(scn) /\ HasSig(scn)
                                                           /\ HasMsg(scn) /\ scn.cert = "own")])>>)

GetSigner == /\ pc = "get_signer"
             /\ IF ~HasSigAlg(scn) THEN Done("exception")             \* KeyError -> Unsupported
                ELSE IF ~SigAlgOK(scn) THEN Done("none")              \* get_signer gives None; falls through
                ELSE pc' = "order" /\ UNCHANGED <<scn, verdict>>
Order == /\ pc = "order"
         /\ IF ~HasMsg(scn) THEN Done("exception")                   \* neither SAMLRequest nor SAMLResponse
            ELSE IF ~HasSig(scn) THEN Done("exception")              \* del _args['Signature']
            ELSE pc' = "check" /\ UNCHANGED <<scn, verdict>>
Check == /\ pc = "check"
         /\ Done(IF SameString(scn) /\ SigIntact(scn) /\ scn.cert = "own" THEN "true" ELSE "false")
Next == GetSigner \/ Order \/ Check
Spec == Init /\ [][Next]_vars

\* contract: verifies iff own certificate and nothing signed was changed / removed; an
\* unsupported or missing algorithm never verifies
Contract == pc = "done" =>
    /\ (scn.mut = "none" /\ scn.cert = "own" => verdict = "true")
    /\ (scn.cert # "own" => verdict # "true")
    /\ (scn.mut \in {"msg_changed", "relay_changed", "relay_removed", "relay_added", "sigalg_changed",
                     "sigalg_removed", "sigalg_unsupported", "sig_changed", "sig_other_message", "typ_swapped",
                     "msg_removed"} /\ ~SameString(scn) => verdict # "true")
    /\ (~SigAlgOK(scn) => verdict # "true")
\* the octets put on the wire are the octets that were signed (saml-bindings 3.4.4.1: the signature is over the query as transmitted)
WireContract == WireSame(scn)
=============================================================================
