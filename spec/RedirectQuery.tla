---------------------------- MODULE RedirectQuery ----------------------------
(***************************************************************************)
(* C15, first sentence: which (mutated) signed queries verify.  Scenario     *)
(* spec: a query signed by entity "own" with algorithm alg, one mutation,    *)
(* one candidate certificate.  The pipeline follows                         *)
(* verify_redirect_signature step by step; the contract is the property.    *)
(***************************************************************************)
EXTENDS Naturals, Sequences, TLC, Json

CONSTANTS Algs, Muts

Scn == [alg : Algs, typ : {"SAMLRequest", "SAMLResponse"}, relay : BOOLEAN,
        mut : Muts, cert : {"own", "other"}]

VARIABLES scn, pc, verdict
vars == <<scn, pc, verdict>>

\* ---- the query as the verifier sees it
HasSigAlg(s)  == s.mut # "sigalg_removed"
SigAlgOK(s)   == HasSigAlg(s) /\ s.mut # "sigalg_unsupported"
HasSig(s)     == s.mut # "sig_removed"
HasMsg(s)     == s.mut # "msg_removed"
\* the octet string the verifier rebuilds equals the one that was signed
SameString(s) == s.mut \in {"none", "reordered", "extra_param"}
                 \/ (s.mut = "relay_removed" /\ ~s.relay) \/ (s.mut = "relay_changed" /\ ~s.relay)
SigIntact(s)  == s.mut # "sig_changed" /\ s.mut # "sig_other_message"

Init == scn \in Scn /\ pc = "get_signer" /\ verdict = "none"

Done(v) == /\ pc' = "done" /\ verdict' = v /\ UNCHANGED scn
           /\ PrintT(<<"CASE", ToJson([scn |-> scn, model |-> v,
                                       mustVerify |-> (scn.mut \in {"none"} /\ scn.cert = "own"),
                                       mustNotVerify |-> ~(SameString(scn) /\ SigIntact(scn) /\ SigAlgOK(scn) /\ HasSig(scn)
                                                           /\ HasMsg(scn) /\ scn.cert = "own")])>>)

GetSigner == /\ pc = "get_signer"
             /\ IF ~HasSigAlg(scn) THEN Done("exception")             \* KeyError -> Unsupported
                ELSE IF ~SigAlgOK(scn) THEN Done("none")              \* get_signer gives None; falls through
                ELSE pc' = "order" /\ UNCHANGED <<scn, verdict>>
Order == /\ pc = "order"
         /\ IF ~HasMsg(scn) THEN Done("exception")                   \* neither SAMLRequest nor SAMLResponse
            ELSE IF ~HasSig(scn) THEN Done("exception")              \* del _args['Signature']
            ELSE pc' = "check" /\ UNCHANGED <<scn, verdict>>
Check == /\ pc = "check"
         /\ Done(IF SameString(scn) /\ SigIntact(scn) /\ scn.cert = "own" THEN "true" ELSE "false")
Next == GetSigner \/ Order \/ Check
Spec == Init /\ [][Next]_vars

\* contract: verifies iff own certificate and nothing signed was changed / removed; an
\* unsupported or missing algorithm never verifies
Contract == pc = "done" =>
    /\ (scn.mut = "none" /\ scn.cert = "own" => verdict = "true")
    /\ (scn.cert = "other" => verdict # "true")
    /\ (scn.mut \in {"msg_changed", "relay_changed", "relay_removed", "relay_added", "sigalg_changed",
                     "sigalg_removed", "sigalg_unsupported", "sig_changed", "sig_other_message", "typ_swapped",
                     "msg_removed"} /\ ~SameString(scn) => verdict # "true")
    /\ (~SigAlgOK(scn) => verdict # "true")
=============================================================================
