------------------------------ MODULE SPAddress ------------------------------
(***************************************************************************)
(* C05 (and the "same checks" clause of C17) -- addressing and solicitation *)
(* checks of the SP: AuthnResponse.loads, StatusResponse._verify /          *)
(* _validate_destination, AuthnResponse.condition_ok / for_me,              *)
(* get_subject / _bearer_confirmed / verify_recipient, tail of _assertion.  *)
(*                                                                         *)
(* The scenario is the cross product of the property's quantifier.  The     *)
(* pipeline has one action per code step.  Fixed = FALSE is the code as      *)
(* pinned (audience check guarded by allow_unsolicited, any restriction     *)
(* suffices, confirmation InResponseTo compared before decryption only);    *)
(* Fixed = TRUE is the repaired design.                                     *)
(***************************************************************************)
EXTENDS Naturals, Sequences, FiniteSets, TLC, Json

CONSTANT Fixed

Outstanding == {"id1", "id2"}
Irt   == {"id1", "idX", "none"}            \* Response/@InResponseTo
Sirt  == {"id1", "id2", "idX", "none"}     \* bearer SubjectConfirmationData/@InResponseTo
Dest  == {"own", "otherBinding", "patternOnly", "foreign", "none"}
\* "meSlash" / "meUpper": one restriction naming the SP's entity id with a trailing slash / in capitals -- other names
Aud   == {"none", "me", "other", "me_me", "me_other", "other_other", "meAndOther", "meSlash", "meUpper"}
\* which validity bounds the Conditions element carries (the audience restrictions bind whatever the window says)
Window == {"both", "none", "nbOnly", "nooaOnly"}
Recip == {"url", "entityid", "otherBinding", "foreign"}
Bind  == {"post", "redirect"}
\* the third browser binding: the response was fetched by artifact and is parsed with binding = HTTP-Artifact
AllBind == Bind \cup {"artifact"}

\* endpoint: the SP publishes an assertion-consumer endpoint for the arrival binding, or only for the other one
Scn == [irt : Irt, sirt : Sirt, dest : Dest, aud : Aud, recip : Recip, allow : BOOLEAN,
        conv : BOOLEAN, regex : BOOLEAN, binding : AllBind, enc : BOOLEAN, endpoint : {"configured", "otherBindingOnly", "triples"},
        \* a second bearer confirmation with the same window and InResponseTo whose Recipient is ours or somebody else's,
        \* placed before or after the first one
        \* ("otherIrt": our Recipient, but the confirmation names another request -- the other outstanding one)
        conf2 : {"absent", "own", "foreign", "otherIrt"}, conf2first : BOOLEAN,
        \* the application remembers the same came_from for both outstanding requests (same page in two tabs)
        sameFrom : BOOLEAN,
        \* an authentication response over a browser binding, or the answer to an attribute query (synchronous, SOAP:
        \* no solicitation bookkeeping, no Destination check -- but the audience restrictions bind all the same)
        mtype : {"authn", "attribute"}, window : Window,
        \* what the conversation information holds when the application supplies it: entity id, remote address and request URI,
        \* or the last two only (no entity id: a Recipient can then only be one of the SP's own consumer URLs)
        convKind : {"full", "noEntity"}]
\* "triples": the same two endpoints written as (location, binding, index) -- the third form the metadata generator
\* accepts.  Config.endpoint does not unpack it: nothing ever equals such an entry.
\* without an endpoint for the arrival binding only the addressing dimensions are varied
WellFormed(s) == /\ s.endpoint = "otherBindingOnly" =>
                    /\ s.dest \in {"otherBinding", "patternOnly", "foreign", "none"} /\ s.recip \in {"otherBinding", "entityid", "foreign"}
                    /\ s.aud = "me" /\ ~s.enc /\ s.irt = "id1" /\ s.sirt = "id1"
                 /\ (s.endpoint = "triples" => /\ s.aud = "me" /\ ~s.enc /\ s.irt = "id1" /\ s.sirt = "id1" /\ s.conf2 = "absent" /\ ~s.sameFrom
                                             /\ s.mtype = "authn" /\ s.dest # "patternOnly")
                 /\ (s.mtype = "attribute" => /\ s.endpoint = "configured" /\ s.conf2 = "absent" /\ ~s.sameFrom /\ ~s.regex /\ ~s.enc
                                             /\ s.dest = "none" /\ s.irt = "id1" /\ s.sirt = "id1" /\ s.recip = "url" /\ s.binding = "post" /\ ~s.conv)
                 /\ (s.conf2 = "absent" => ~s.conf2first)
                 /\ (s.convKind = "noEntity" => /\ s.conv /\ s.endpoint = "configured" /\ s.conf2 = "absent" /\ ~s.sameFrom /\ ~s.regex /\ s.mtype = "authn"
                                                /\ s.irt = "id1" /\ s.sirt = "id1" /\ s.dest = "own" /\ s.window = "both" /\ s.aud = "me")
                 /\ (s.window # "both" => /\ s.endpoint = "configured" /\ s.conf2 = "absent" /\ ~s.sameFrom /\ ~s.regex /\ s.mtype = "authn"
                                          /\ s.irt = "id1" /\ s.sirt = "id1" /\ s.dest = "own" /\ s.recip = "url")
                 /\ (s.sameFrom => s.irt = "id1" /\ s.sirt \in {"id1", "id2"} /\ s.conf2 = "absent" /\ s.endpoint = "configured"
                                   /\ s.aud = "me" /\ s.dest \in {"own", "none"} /\ ~s.regex)
                 \* (the first confirmation names the request, or no request at all)
                 /\ s.conf2 # "absent" => /\ s.endpoint = "configured" /\ s.aud = "me" /\ s.dest \in {"own", "none"} /\ ~s.regex
                                          /\ s.irt = "id1" /\ s.sirt \in {"id1", "none"}

\* the scenarios, built slice by slice (filtering the full product of Scn costs TLC a minute)
MkW(irt, sirt, dest, aud, recip, regex, binding, enc, endpoint, conf2, conf2first, sameFrom, mtype, conv, window) ==
    [irt : irt, sirt : sirt, dest : dest, aud : aud, recip : recip, allow : BOOLEAN, conv : conv, regex : regex, binding : binding,
     enc : enc, endpoint : endpoint, conf2 : conf2, conf2first : conf2first, sameFrom : sameFrom, mtype : mtype, window : window, convKind : {"full"}]
Mk(irt, sirt, dest, aud, recip, regex, binding, enc, endpoint, conf2, conf2first, sameFrom, mtype, conv) ==
    MkW(irt, sirt, dest, aud, recip, regex, binding, enc, endpoint, conf2, conf2first, sameFrom, mtype, conv, {"both"})
Scenarios ==
    Mk(Irt, Sirt, Dest, Aud, Recip, BOOLEAN, Bind, BOOLEAN, {"configured"}, {"absent"}, {FALSE}, {FALSE}, {"authn"}, BOOLEAN)
    \cup Mk({"id1"}, {"id1"}, {"otherBinding", "patternOnly", "foreign", "none"}, {"me"}, {"otherBinding", "entityid", "foreign"}, BOOLEAN, Bind,
            {FALSE}, {"otherBindingOnly"}, {"absent"}, {FALSE}, {FALSE}, {"authn"}, BOOLEAN)
    \cup Mk({"id1"}, {"id1"}, Dest \ {"patternOnly"}, {"me"}, Recip, BOOLEAN, Bind, {FALSE}, {"triples"}, {"absent"}, {FALSE}, {FALSE}, {"authn"}, BOOLEAN)
    \cup Mk({"id1"}, {"id1"}, {"none"}, Aud, {"url"}, {FALSE}, {"post"}, {FALSE}, {"configured"}, {"absent"}, {FALSE}, {FALSE}, {"attribute"}, {FALSE})
    \cup Mk({"id1"}, {"id1", "id2"}, {"own", "none"}, {"me"}, Recip, {FALSE}, Bind, BOOLEAN, {"configured"}, {"absent"}, {FALSE}, {TRUE}, {"authn"}, BOOLEAN)
    \cup Mk({"id1"}, {"id1", "none"}, {"own", "none"}, {"me"}, Recip, {FALSE}, Bind, BOOLEAN, {"configured"}, {"own", "foreign", "otherIrt"}, BOOLEAN, {FALSE}, {"authn"}, BOOLEAN)
    \cup Mk(Irt, Sirt, {"own", "foreign", "none"}, {"me"}, {"url", "foreign"}, {FALSE}, {"artifact"}, {FALSE}, {"configured"}, {"absent"}, {FALSE}, {FALSE},
            {"authn"}, BOOLEAN)
    \cup MkW({"id1"}, {"id1"}, {"own"}, Aud, {"url"}, {FALSE}, Bind, BOOLEAN, {"configured"}, {"absent"}, {FALSE}, {FALSE}, {"authn"}, BOOLEAN,
             Window \ {"both"})
ConvSlice == [irt : {"id1"}, sirt : {"id1"}, dest : {"own"}, aud : {"me"}, recip : Recip, allow : BOOLEAN, conv : {TRUE}, regex : {FALSE},
              binding : Bind, enc : BOOLEAN, endpoint : {"configured"}, conf2 : {"absent"}, conf2first : {FALSE}, sameFrom : {FALSE},
              mtype : {"authn"}, window : {"both"}, convKind : {"noEntity"}]
ASSUME \A s \in ConvSlice : s \in Scn /\ WellFormed(s)
ASSUME \A s \in Scenarios : s \in Scn /\ WellFormed(s)

\* audience restrictions as a sequence of sets of audiences
Restr(a) == CASE a = "none" -> <<>>
              [] a = "me" -> <<{"me"}>>
              [] a = "other" -> <<{"other"}>>
              [] a = "me_me" -> <<{"me"}, {"me"}>>
              [] a = "me_other" -> <<{"me"}, {"other"}>>
              [] a = "other_other" -> <<{"other"}, {"other2"}>>
              [] a = "meAndOther" -> <<{"other", "me"}>>
              [] a = "meSlash" -> <<{"meSlash"}>>
              [] a = "meUpper" -> <<{"meUpper"}>>

VARIABLES scn, pc, cameFrom, verdict
vars == <<scn, pc, cameFrom, verdict>>

Init == scn \in Scenarios \cup ConvSlice /\ pc = "loads" /\ cameFrom = "none" /\ verdict = "none"

Reject == verdict' = "reject" /\ pc' = "done" /\ UNCHANGED <<scn, cameFrom>>
Goto(p) == pc' = p /\ UNCHANGED <<scn, cameFrom, verdict>>

\* AuthnResponse.loads (both browser bindings are asynchronous hops)
Loads ==
    /\ pc = "loads"
    /\ IF scn.mtype = "attribute" THEN Goto("conditions")          \* synchronous hop: asynchop is off
       ELSE IF scn.irt \in Outstanding
       THEN IF ~scn.enc /\ (scn.sirt # scn.irt \/ scn.conf2 = "otherIrt")      \* check_subject_confirmation_in_response_to: plain assertions only,
            THEN Reject                            \* an absent InResponseTo (None) differs as well
            ELSE cameFrom' = scn.irt /\ pc' = "destination" /\ UNCHANGED <<scn, verdict>>
       ELSE IF scn.allow THEN Goto("destination") ELSE Reject

\* _validate_destination
DestOK == CASE scn.dest = "none" -> TRUE
            [] scn.regex -> scn.dest \in {"own", "otherBinding", "patternOnly"}     \* the pattern decides alone
            [] scn.endpoint = "otherBindingOnly" -> FALSE                           \* no return_addrs: "x not in None" raises
            [] scn.endpoint = "triples" -> FALSE                                    \* return_addrs holds tuples
            [] OTHER -> scn.dest = "own"                                            \* return_addrs of this binding
Destination == pc = "destination" /\ IF DestOK THEN Goto("conditions") ELSE Reject

ForMeAny == Len(Restr(scn.aud)) = 0 \/ \E i \in 1..Len(Restr(scn.aud)) : "me" \in Restr(scn.aud)[i]
ForMeAll == \A i \in 1..Len(Restr(scn.aud)) : "me" \in Restr(scn.aud)[i]
Conditions ==
    /\ pc = "conditions"
    /\ IF Fixed THEN (IF ForMeAll THEN Goto("subject") ELSE Reject)
       ELSE IF ~scn.allow /\ ~ForMeAny THEN Reject ELSE Goto("subject")

\* get_subject: _bearer_confirmed, verify_recipient; then the tail of _assertion
\* every confirmation that passes _bearer_confirmed has its Recipient verified (get_subject raises at the first foreign one)
RecipOK == /\ ~scn.conv \/ (scn.recip = "entityid" /\ scn.convKind = "full") \/ (scn.recip = "url" /\ scn.endpoint = "configured")
           /\ ~scn.conv \/ scn.conf2 # "foreign"
Subject ==
    /\ pc = "subject"
    /\ LET cf == IF cameFrom = "none" /\ scn.sirt \in Outstanding THEN scn.sirt ELSE cameFrom
           bearerBad == cameFrom = "none" /\ scn.sirt = "idX" /\ ~scn.allow
           \* repaired: the comparison of loads is repeated on the assertion actually used
           lateBad == Fixed /\ scn.irt \in Outstanding /\ (scn.sirt # scn.irt \/ scn.conf2 = "otherIrt")
       IN IF scn.mtype = "attribute" THEN verdict' = "accept" /\ pc' = "done" /\ UNCHANGED <<scn, cameFrom>>
          ELSE IF bearerBad \/ ~RecipOK \/ (~scn.allow /\ cf = "none") \/ lateBad
          THEN Reject
          ELSE verdict' = "accept" /\ pc' = "done" /\ cameFrom' = cf /\ UNCHANGED scn

(***************************************************************************)
(* Contract, from the property text                                        *)
(***************************************************************************)
AudOK == \A i \in 1..Len(Restr(scn.aud)) : "me" \in Restr(scn.aud)[i]
DestAllowed == scn.dest = "none" \/ (scn.dest = "own" /\ scn.endpoint \in {"configured", "triples"})
               \/ (scn.regex /\ scn.dest \in {"otherBinding", "patternOnly"})
Solicited == scn.irt \in Outstanding /\ (scn.sirt = "none" \/ scn.sirt = scn.irt) /\ scn.conf2 # "otherIrt"
MustReject == \/ ~AudOK
              \/ ~DestAllowed
              \/ (scn.conv /\ scn.recip \in {"foreign", "otherBinding"})
              \/ (scn.conv /\ scn.conf2 = "foreign")
              \/ (scn.mtype = "authn" /\ ~scn.allow /\ ~Solicited)
\* the fully conformant shapes (the property is an "only if"; nothing else is demanded to pass)
MustAccept == /\ scn.endpoint = "configured" /\ AudOK /\ scn.conf2 \notin {"foreign", "otherIrt"} /\ scn.dest \in {"own", "none"} /\ scn.recip \in {"url"} \cup (IF scn.conv /\ scn.convKind = "full" THEN {"entityid"} ELSE {})
              /\ \/ (scn.irt = "id1" /\ scn.sirt = "id1")
                 \/ (scn.allow /\ scn.irt = "none" /\ scn.sirt = "none")
ExpectedCameFrom == IF scn.mtype = "authn" /\ scn.irt \in Outstanding THEN scn.irt ELSE "unspecified"

Emit == /\ pc = "done" /\ pc' = "emitted"
        /\ PrintT(<<"CASE", ToJson([scn |-> scn, model |-> [verdict |-> verdict, cameFrom |-> cameFrom],
                                    mustAccept |-> MustAccept, mustReject |-> MustReject,
                                    cameFrom |-> ExpectedCameFrom])>>)
        /\ UNCHANGED <<scn, cameFrom, verdict>>

Next == Loads \/ Destination \/ Conditions \/ Subject \/ Emit
Spec == Init /\ [][Next]_vars

PipelineMeetsContract == pc \in {"done", "emitted"} =>
    /\ (MustReject => verdict = "reject")
    /\ (MustAccept => verdict = "accept")
ContractConsistent == ~(MustAccept /\ MustReject)
=============================================================================
