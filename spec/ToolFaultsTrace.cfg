SPECIFICATION TraceSpec
CHECK_DEADLOCK FALSE
