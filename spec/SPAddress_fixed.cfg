SPECIFICATION Spec
CONSTANT Fixed = TRUE
INVARIANT PipelineMeetsContract
INVARIANT ContractConsistent
CHECK_DEADLOCK FALSE
