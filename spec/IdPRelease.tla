------------------------------ MODULE IdPRelease ------------------------------
(***************************************************************************)
(* C07 -- what an IdP / AA releases: assertion.Policy.restrict / filter,    *)
(* filter_on_attributes, filter_attribute_value_assertions,                 *)
(* post_entity_categories, Assertion.apply_policy, Server.setup_assertion   *)
(* (best effort after MissingValue).                                        *)
(*                                                                         *)
(* Fixed = FALSE: after MissingValue the assertion is built from the         *)
(* identity as handed in (pinned).  Fixed = TRUE: the policy is re-applied   *)
(* leniently (requirements treated as wishes) before constructing.           *)
(***************************************************************************)
EXTENDS Naturals, Sequences, FiniteSets, TLC, Json
CONSTANT Fixed

Attrs == {"givenName", "mail", "title"}
Vals  == {"v1", "v2"}
\* "V2": the value v2 written in capitals -- another value (values are data: compared as they are)
IdVals == Vals \cup {"V2"}
AnyVal   == IdVals \cup {"v9"}                    \* "no value constraint"
\* research & scholarship releases these of ours (entity_category/refeds.py)
\* the swamid release table keys most of its bundles by a *pair* of categories (research-and-education together with
\* eu-adequate-protection / nren-service / hei-service): a provider in only one of the two is entitled to nothing by it
Entitled(hasCat) == IF hasCat THEN {"givenName", "mail"} ELSE {}
\* the GEANT code of conduct (entity_category/edugain.py) releases on request only: of ours mail, and only to a provider
\* in the category that lists it as *required* -- what it merely marks optional is not released by it
EntitledCoco(sw, required) == IF sw = "coco" THEN {"mail"} \cap required ELSE {}
EntitledSwamid(hasCat, sw) == (IF hasCat THEN {"givenName", "mail"} ELSE {}) \cup (IF sw = "re_eu" THEN {"givenName", "mail"} ELSE {})

\* a1v1twice: the same value set as a1v1only, configured as two overlapping patterns that both match v1
\* a1unanchored: givenName restricted by a pattern without anchors ("two") that occurs inside v2 ("val-two") but at the start
\* of no value: the patterns are matched from the start of the value, so nothing of givenName is allowed
Policies == {"none", "names12", "a1v1only", "a1v1twice", "a1unanchored", "perSP_a1", "perSP_fallback_a2", "ec", "ec_names1", "ec_swamid", "ec_coco"}
\* attribute restrictions that apply to this SP: "none" or [attr -> allowed values] on the listed attributes
RestrOf(p) == CASE p = "names12" -> [a \in {"givenName", "mail"} |-> AnyVal]
                [] p \in {"a1v1only", "a1v1twice"} -> [a \in {"givenName", "mail"} |-> IF a = "givenName" THEN {"v1"} ELSE AnyVal]
                [] p = "a1unanchored" -> [a \in {"givenName", "mail"} |-> IF a = "givenName" THEN {} ELSE AnyVal]
                [] p = "perSP_a1" -> [a \in {"givenName"} |-> AnyVal]
                [] p = "perSP_fallback_a2" -> [a \in {"mail"} |-> AnyVal]
                [] p = "ec_names1" -> [a \in {"givenName"} |-> AnyVal]
                [] OTHER -> <<>>                \* no restriction
HasRestr(p) == p \notin {"none", "ec", "ec_swamid", "ec_coco"}
EcInForce(p) == p \in {"ec", "ec_names1", "ec_swamid", "ec_coco"}

Decls == {"none", "req_a1", "req_a1_v2", "req_a3_opt_a2", "opt_a2", "req_a1_v9", "req_a2"}
Req(d) == CASE d = "req_a1" -> [a \in {"givenName"} |-> AnyVal]
            [] d = "req_a1_v2" -> [a \in {"givenName"} |-> {"v2"}]
            [] d = "req_a3_opt_a2" -> [a \in {"title"} |-> AnyVal]
            [] d = "req_a1_v9" -> [a \in {"givenName"} |-> {"v9"}]
            [] d = "req_a2" -> [a \in {"mail"} |-> AnyVal]
            [] OTHER -> <<>>
Opt(d) == CASE d = "req_a3_opt_a2" -> [a \in {"mail"} |-> AnyVal]
            [] d = "opt_a2" -> [a \in {"mail"} |-> AnyVal]
            [] OTHER -> <<>>

Identities == {i \in [Attrs -> SUBSET IdVals] : /\ i["mail"] \in {{}, {"v1"}} /\ i["title"] \in {{}, {"v1"}}
                                                 /\ i["givenName"] \in {{}, {"v1"}, {"v1", "v2"}, {"V2"}, {"v1", "V2"}}}
\* the server is long-lived and serves many providers with one compiled policy: prev is the provider it served just before
\* (with the full identity), if any.  What it releases now is a function of the present request alone.
Prev == {[served |-> FALSE, decl |-> "none", hasCat |-> FALSE]} \cup [served : {TRUE}, decl : Decls, hasCat : BOOLEAN]
\* typed: the application hands the values over as byte strings instead of text (same characters).  A value that cannot
\* be held against a pattern is not thereby allowed.
Scn == [ident : Identities, upper : BOOLEAN, policy : Policies, decl : Decls, hasCat : BOOLEAN, failOnMissing : BOOLEAN, prev : Prev,
        typed : BOOLEAN,
        \* split: the application's identity holds givenName under two spellings of the name (givenName: the first value,
        \* GivenName: the others).  It is one attribute: the bound on what is released is the bound on all its values.
        split : BOOLEAN,
        \* swamid categories the provider declares besides; "rs_support": it declares research-and-scholarship under
        \* entity-category-*support* (what an IdP says about itself), which entitles to nothing
        swamidCat : {"none", "re_only", "re_eu", "rs_support", "coco"}]
WellFormed(s) == /\ s.split => ~s.prev.served /\ ~s.upper /\ ~s.typed /\ s.swamidCat = "none" /\ s.ident["givenName"] = {"v1", "v2"}
                                   /\ s.policy \in {"none", "names12", "a1v1only", "a1unanchored", "ec"}
                 /\ s.policy = "a1unanchored" => ~s.prev.served /\ ~s.typed /\ s.swamidCat = "none"
                 /\ s.typed => ~s.prev.served /\ ~s.upper
                 /\ s.swamidCat \in {"re_only", "re_eu"} => s.policy = "ec_swamid" /\ ~s.prev.served /\ ~s.typed /\ ~s.upper
                 /\ s.swamidCat = "rs_support" => s.policy \in {"ec", "ec_swamid", "ec_names1"} /\ ~s.prev.served /\ ~s.typed /\ ~s.upper /\ ~s.hasCat
                 /\ s.policy = "ec_swamid" => ~s.prev.served /\ ~s.typed
                 /\ s.swamidCat = "coco" => s.policy = "ec_coco" /\ ~s.hasCat
                 /\ s.policy = "ec_coco" => ~s.prev.served /\ ~s.typed /\ ~s.upper /\ s.swamidCat \in {"none", "coco"}
                 /\ s.decl = "req_a2" => s.policy \in {"none", "ec_coco"} /\ ~s.prev.served /\ ~s.typed

VARIABLES scn, pc, ava, outcome
vars == <<scn, pc, ava, outcome>>
Init == scn \in {s \in Scn : WellFormed(s)} /\ pc = "apply" /\ ava = scn.ident /\ outcome = "none"

Empty == [a \in Attrs |-> {}]
Keep(f, S) == [a \in Attrs |-> IF a \in S THEN f[a] ELSE {}]
\* filter_attribute_value_assertions with restrictions r (attributes not listed go, values must match)
ByRestr(f, r) == [a \in Attrs |-> IF a \in DOMAIN r THEN f[a] \cap r[a] ELSE {}]
Declared(d) == DOMAIN Req(d) \cup DOMAIN Opt(d)
\* filter_on_attributes: what is asked for, values narrowed to the declared ones
OnAttributes(f, d) == [a \in Attrs |-> IF a \in DOMAIN Req(d) THEN f[a] \cap Req(d)[a]
                                        ELSE IF a \in DOMAIN Opt(d) THEN f[a] \cap Opt(d)[a] ELSE {}]
\* MissingValue: a required attribute is missing (and that counts) or none of its required values is there
Missing(f, d) == \E a \in DOMAIN Req(d) :
                    \/ (f[a] = {} /\ scn.failOnMissing)
                    \/ (f[a] # {} /\ f[a] \cap Req(d)[a] = {})

Ent == CASE scn.policy = "ec_swamid" -> EntitledSwamid(scn.hasCat, scn.swamidCat)
         [] scn.policy = "ec_coco" -> EntitledCoco(scn.swamidCat, DOMAIN Req(scn.decl))
         [] OTHER -> Entitled(scn.hasCat)
\* Policy.filter.  lenient = requirements treated as wishes (no MissingValue)
Filter(f, lenient) ==
    LET s1 == IF EcInForce(scn.policy) THEN Keep(f, Ent)
              ELSE IF Declared(scn.decl) # {} THEN OnAttributes(f, scn.decl) ELSE f
        s2 == IF HasRestr(scn.policy) THEN ByRestr(s1, RestrOf(scn.policy)) ELSE s1
    IN s2
Raises == ~EcInForce(scn.policy) /\ Declared(scn.decl) # {} /\ Missing(scn.ident, scn.decl)

Apply == /\ pc = "apply"
         /\ IF Raises THEN pc' = "bestEffort" /\ UNCHANGED <<scn, ava, outcome>>
            ELSE ava' = Filter(scn.ident, FALSE) /\ pc' = "construct" /\ UNCHANGED <<scn, outcome>>
\* setup_assertion after MissingValue (best effort is always on for authn responses)
BestEffort == /\ pc = "bestEffort"
              /\ ava' = IF Fixed THEN Filter(scn.ident, TRUE) ELSE scn.ident
              /\ pc' = "construct" /\ UNCHANGED <<scn, outcome>>
Construct == pc = "construct" /\ outcome' = "assertion" /\ pc' = "done" /\ UNCHANGED <<scn, ava>>

(***************************************************************************)
(* Contract: what may be released at most                                  *)
(***************************************************************************)
Allowed == [a \in Attrs |->
    LET byIdent == scn.ident[a]
        byRestr == IF HasRestr(scn.policy) THEN (IF a \in DOMAIN RestrOf(scn.policy) THEN RestrOf(scn.policy)[a] ELSE {}) ELSE AnyVal
        byEc    == IF EcInForce(scn.policy) THEN (IF a \in Ent THEN AnyVal ELSE {}) ELSE AnyVal
        \* the SP's declaration applies when it declares anything and no entity-category rule is in force
        byDecl  == IF ~EcInForce(scn.policy) /\ Declared(scn.decl) # {}
                   THEN (IF a \in DOMAIN Req(scn.decl) THEN Req(scn.decl)[a]
                         ELSE IF a \in DOMAIN Opt(scn.decl) THEN Opt(scn.decl)[a] ELSE {})
                   ELSE AnyVal
    IN byIdent \cap byRestr \cap byEc \cap byDecl]
Within(f) == \A a \in Attrs : f[a] \subseteq Allowed[a]
\* no over-filtering in the plain case: no declaration, no categories -> everything the restrictions allow
MustReleaseAll == ~EcInForce(scn.policy) /\ Declared(scn.decl) = {}
\* the ways a release is asked for: an authentication response, the answer to an attribute query, the answer to an attribute
\* query that names the attributes it is after.  The bound is the same on each: naming an attribute adds no right to it.
Paths == {"authn", "attribute", "attribute_named"}

Emit == /\ pc = "done" /\ pc' = "emitted" /\ UNCHANGED <<scn, ava, outcome>>
        /\ PrintT(<<"CASE", ToJson([scn |-> scn, model |-> ava, allowed |-> Allowed, raises |-> Raises,
                                    mustReleaseAll |-> MustReleaseAll, paths |-> Paths])>>)
Next == Apply \/ BestEffort \/ Construct \/ Emit
Spec == Init /\ [][Next]_vars
PipelineMeetsContract == pc \in {"done", "emitted"} => Within(ava) /\ (MustReleaseAll => ava = Allowed)
=============================================================================
