SPECIFICATION Spec
CONSTANT Mode = "roundtrip"
CHECK_DEADLOCK FALSE
