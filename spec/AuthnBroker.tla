----------------------------- MODULE AuthnBroker -----------------------------
(***************************************************************************)
(* Growth beyond the listed properties: authn_context.AuthnBroker, the      *)
(* registry an identity provider consults to decide which authentication    *)
(* methods satisfy a RequestedAuthnContext (class reference + comparison     *)
(* exact / minimum / maximum / better).                                     *)
(*                                                                         *)
(* The registry is a sequence of entries [cls, method, level] in insertion   *)
(* order (add()).  PickOp is _pick_by_class_ref transcribed step by step     *)
(* (first entry of the class, the other entries of the class, then every     *)
(* other entry compared with the level reached so far).  PickSet is what the *)
(* comparison means: every registered method whose level stands in the       *)
(* requested relation to the level of the requested class.                  *)
(*                                                                         *)
(* TLC enumerates every registry up to MaxEntries entries and every request; *)
(* each (registry, request) is replayed into the real AuthnBroker and the    *)
(* returned list compared with PickOp (sequence) and PickSet (set).          *)
(***************************************************************************)
EXTENDS Naturals, Sequences, FiniteSets, TLC, Json

CONSTANTS Classes, Levels, MaxEntries
Cmps == {"exact", "minimum", "maximum", "better"}
Entry == [cls : Classes, level : Levels]
\* the method of the i-th entry is named after its position: "m1", "m2", ...

Rel(cmp, a, b) == CASE cmp = "exact" -> a = b
                    [] cmp = "minimum" -> b >= a
                    [] cmp = "maximum" -> b <= a
                    [] OTHER -> b > a

VARIABLES reg, req, pc
vars == <<reg, req, pc>>

Registries == UNION {[1..n -> Entry] : n \in 0..MaxEntries}
Init == reg \in Registries /\ req \in [cls : Classes, cmp : Cmps] /\ pc = "pick"

RefsOf(c) == SelectSeq([i \in 1..Len(reg) |-> i], LAMBDA i : reg[i].cls = c)
\* the level after walking the other entries of the class: it moves whenever the comparison holds
RECURSIVE Walk(_, _, _)
Walk(cmp, lvl, refs) == IF refs = <<>> THEN lvl
                        ELSE Walk(cmp, IF Rel(cmp, lvl, reg[Head(refs)].level) THEN reg[Head(refs)].level ELSE lvl, Tail(refs))
PickOp ==
    LET refs == RefsOf(req.cls) IN
    IF refs = <<>> THEN <<>>
    ELSE LET first == IF req.cmp = "better" THEN <<>> ELSE <<refs[1]>>
             same  == Tail(refs)                                        \* always appended, whatever the comparison
             lvl   == Walk(req.cmp, reg[refs[1]].level, Tail(refs))
             rest  == SelectSeq([i \in 1..Len(reg) |-> i],
                                LAMBDA i : reg[i].cls # req.cls /\ Rel(req.cmp, lvl, reg[i].level))
         IN first \o same \o rest
Range(q) == {q[i] : i \in 1..Len(q)}

\* what the comparison means, relative to the (first) entry of the requested class
PickSet == LET refs == RefsOf(req.cls) IN
           IF refs = <<>> THEN {}
           ELSE {i \in 1..Len(reg) : Rel(req.cmp, reg[refs[1]].level, reg[i].level)}

UniqueClasses == \A i, j \in 1..Len(reg) : reg[i].cls = reg[j].cls => i = j
Sorted(q) == \A i, j \in 1..Len(q) : i < j => reg[q[i]].level >= reg[q[j]].level

Emit == /\ pc = "pick" /\ pc' = "done" /\ UNCHANGED <<reg, req>>
        /\ PrintT(<<"CASE", ToJson([reg |-> reg, req |-> req, op |-> PickOp, set |-> PickSet, unique |-> UniqueClasses])>>)
Spec == Init /\ [][Emit]_vars

\* with one method per class (the assumption add() documents) the procedure computes exactly the comparison
MeansComparison == UniqueClasses => Range(PickOp) = PickSet
\* statements that do NOT hold (checked in separate configurations, expected counterexamples):
\* several methods per class: the other methods of the class are returned whatever the comparison says
MeansComparisonAlways == Range(PickOp) = PickSet
\* "ordered according to security level" (docstring of pick)
OrderedByLevel == Sorted(PickOp)
=============================================================================
