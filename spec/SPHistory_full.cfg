SPECIFICATION Spec
CONSTANTS
  Memo = "none"
  MsgKeys = {"kIdp1", "kIdp1b", "kAttacker"}
  Edits = {FALSE, TRUE}
  EnvActs = {"tick", "roll"}
  Levels = {"none", "response", "assertion"}
  Deliveries = 2
INVARIANT HistoryIndependent
CHECK_DEADLOCK FALSE
