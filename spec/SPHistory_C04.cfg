SPECIFICATION Spec
CONSTANTS
  Memo = "none"
  MsgKeys = {"kIdp1"}
  Edits = {FALSE}
  EnvActs = {"tick"}
  Levels = {"none", "assertion"}
  Deliveries = 2
INVARIANT HistoryIndependent
CHECK_DEADLOCK FALSE
