-------------------------- MODULE SessionCacheTrace --------------------------
(* Code -> spec: executions recorded from the real Cache / Population objects   *)
(* (operation, arguments, observed result after every public call) are replayed *)
(* through the actions of SessionCache; an event is matched only if the result  *)
(* the specification computes equals the one observed.  Many traces per JVM:    *)
(* the trace id is part of the state, TLCSet registers keep the number of       *)
(* matched events per trace, the POSTCONDITION requires every trace consumed.   *)
EXTENDS SessionCache, Json, IOUtils, TLCExt

Traces == JsonDeserialize(IOEnv.TRACE_FILE)      \* sequence of traces; trace = sequence of events

VARIABLES tid, l
tvars == <<store, now, last, tid, l>>

ToSet(q) == {q[k] : k \in 1..Len(q)}
AvaOf(j) == [x \in Attr |-> ToSet(j[x])]

\* the observed result, in the shape the specification uses
RetOf(j) ==
    CASE j.r = "info" -> [r |-> "info", ava |-> AvaOf(j.ava), exp |-> j.exp]
      [] j.r = "ok" /\ "ava" \in DOMAIN j -> [r |-> "ok", ava |-> AvaOf(j.ava), old |-> ToSet(j.old)]
      [] j.r = "set"  -> [r |-> "set", v |-> ToSet(j.v)]
      [] j.r = "bool" -> [r |-> "bool", v |-> j.v]
      [] OTHER -> [r |-> j.r]

Ev == Traces[tid][l]

TraceInit == /\ Init
             /\ tid \in 1..Len(Traces)
             /\ l = 1
             /\ TLCSet(tid, 0)

Step(A) == /\ l <= Len(Traces[tid])
           /\ A
           /\ l' = l + 1
           /\ tid' = tid
           /\ TLCSet(tid, l)

Matches == last'.ret = RetOf(Ev.ret)

TSet    == Ev.op = "Set"    /\ Set(Ev.s, Ev.i, AvaOf(Ev.ava), Ev.exp) /\ Matches
TReset  == Ev.op = "Reset"  /\ Reset(Ev.s, Ev.i) /\ Matches
TDelete == Ev.op = "Delete" /\ Delete(Ev.s) /\ Matches
TGet    == Ev.op = "Get"    /\ Get(Ev.s, Ev.i, Ev.check) /\ Matches
TIdent  == Ev.op = "GetIdentity" /\ GetIdentity(Ev.s, ToSet(Ev.ents), Ev.check) /\ Matches
TActive == Ev.op = "Active" /\ Active(Ev.s, Ev.i) /\ Matches
TEnts   == Ev.op = "Entities" /\ Entities(Ev.s) /\ Matches
TStale  == Ev.op = "Stale"  /\ Stale(Ev.s) /\ Matches
TSubj   == Ev.op = "Subjects" /\ Subjects /\ Matches
TTick   == /\ Ev.op = "Tick" /\ now' = Ev.to /\ Ev.to >= now
           /\ last' = [op |-> "Tick", ret |-> [r |-> "ok"]] /\ UNCHANGED store

TReopen == Ev.op = "Reopen" /\ Reopen
TraceNext == Step(TSet \/ TReset \/ TDelete \/ TGet \/ TIdent \/ TActive \/ TEnts \/ TStale \/ TSubj \/ TTick \/ TReopen)
TraceSpec == TraceInit /\ [][TraceNext]_tvars

\* the contract invariants are evaluated in every state of every recorded execution
Consumed(t) == TLCGet(t) = Len(Traces[t])
AllTracesAccepted ==
    \A t \in 1..Len(Traces) :
        \/ Consumed(t)
        \/ PrintT(<<"REJECTED", ToJson([trace |-> t, matched |-> TLCGet(t), of |-> Len(Traces[t]),
                                        next |-> Traces[t][TLCGet(t) + 1]])>>) /\ FALSE
=============================================================================
