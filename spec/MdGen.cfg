SPECIFICATION Spec
INVARIANT PipelineMeetsContract
CHECK_DEADLOCK FALSE
