SPECIFICATION Spec
CONSTANT AsCoded = TRUE
INVARIANT SegmentBoundary
CHECK_DEADLOCK FALSE
