----------------------------- MODULE IdentDBTrace -----------------------------
(* Code -> spec for C18: recorded executions of the real IdentDB (operation,     *)
(* arguments, observed result and the full projected state after every call)     *)
(* must be behaviours of IdentDB.tla.  Texts are already mapped to tokens.        *)
EXTENDS IdentDB, Json, IOUtils, TLCExt

Traces == JsonDeserialize(IOEnv.TRACE_FILE)
VARIABLES tid, l
tvars == <<fwd, rev, fresh, last, tid, l>>

ToSet(q) == {q[k] : k \in 1..Len(q)}
Ev == Traces[tid][l]

RetOf(j) ==
    CASE j.r = "nameid"  -> [r |-> "nameid", n |-> j.n, new |-> j.new, amb |-> IF "amb" \in DOMAIN last'.ret THEN last'.ret.amb ELSE FALSE]
      [] j.r = "nameids" -> [r |-> "nameids", ns |-> ToSet(j.ns)]
      [] j.r = "user"    -> [r |-> "user", u |-> j.u]
      [] OTHER -> [r |-> j.r]

\* the state the real object shows after the call is the specification's state
StateMatches ==
    /\ \A u \in User : Range(fwd'[u]) = ToSet(Ev.fwd[u]) /\ Len(fwd'[u]) = Len(Ev.fwd[u])
    /\ \A k \in 1..Len(Ev.rev) : rev'[Ev.rev[k][1]] = Ev.rev[k][2]

Matches == /\ (last'.ret.r = "any" \/ last'.ret = RetOf(Ev.ret))
           /\ StateMatches

IsUnknown == "n" \in DOMAIN Ev.args /\ Ev.args.n.tok = 0

Act ==
    \/ Ev.op = "Persistent" /\ Persistent(Ev.args.u, Ev.args.sp, Ev.args.nq)
    \/ Ev.op = "Transient"  /\ Transient(Ev.args.u, Ev.args.sp, Ev.args.nq)
    \/ Ev.op = "Construct"  /\ Construct(Ev.args.u, Ev.args.sp, Ev.args.fmt)
    \/ Ev.op = "FindLocal"  /\ FindLocal(Ev.args.tok)
    \/ Ev.op = "FindNameid" /\ FindNameid(Ev.args.u, Ev.args.sp, Ev.args.fmt)
    \/ Ev.op = "RemoveRemote" /\ ~IsUnknown /\ RemoveRemote(Ev.args.n)
    \/ Ev.op = "RemoveRemoteStale" /\ RemoveRemoteStale(Ev.args.n)
    \/ Ev.op = "Manage"  /\ ~IsUnknown /\ Manage(Ev.args.n, Ev.args.spid)
    \/ Ev.op = "Mapping" /\ ~IsUnknown /\ Mapping(Ev.args.n, Ev.args.fmt, Ev.args.sp, Ev.args.allow)
    \/ Ev.op = "RemoveLocal" /\ (RemoveLocalFails(Ev.args.u) \/ RemoveLocalOk(Ev.args.u))
    \/ Ev.op \in {"RemoveRemote", "Manage", "Mapping", "FindLocalUnknown"} /\ IsUnknown /\ Unknown(Ev.op)

TraceInit == Init /\ tid \in 1..Len(Traces) /\ l = 1 /\ TLCSet(tid, 0)
TraceNext == /\ l <= Len(Traces[tid])
             /\ Act /\ Matches
             /\ l' = l + 1 /\ tid' = tid
             /\ TLCSet(tid, l)
TraceSpec == TraceInit /\ [][TraceNext]_tvars

AllTracesAccepted ==
    \A t \in 1..Len(Traces) :
        \/ TLCGet(t) = Len(Traces[t])
        \/ PrintT(<<"REJECTED", ToJson([trace |-> t, matched |-> TLCGet(t), of |-> Len(Traces[t]),
                                        next |-> Traces[t][TLCGet(t) + 1]])>>) /\ FALSE
=============================================================================
