SPECIFICATION Spec
CONSTANTS
  Memo = "none"
  MsgKeys = {"kIdp1", "kIdp1b", "kAttacker"}
  Edits = {FALSE, TRUE}
  EnvActs = {"tick", "roll"}
  Levels = {"request"}
  Deliveries = 2
INVARIANT HistoryIndependent
CHECK_DEADLOCK FALSE
