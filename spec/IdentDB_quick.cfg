SPECIFICATION Spec
CONSTANTS
  User = {u1, u2}
  SPq = {"s1", "s2"}
  NQs = {"q"}
  SPIDs = {"p1"}
  MaxTok = 2
VIEW View
INVARIANT TypeOK
INVARIANT TwoWay
INVARIANT NoDangling
INVARIANT UniqueText
INVARIANT NoDuplicates
PROPERTY Fresh
PROPERTY Stable
PROPERTY NoCrossLink
PROPERTY ManageKeepsUser
PROPERTY RemovalIsLocal
PROPERTY RemoveLocalAtomic
ACTION_CONSTRAINT EmitEdge
CHECK_DEADLOCK FALSE
