--------------------------------- MODULE Eptid ---------------------------------
(***************************************************************************)
(* Growth beyond the listed properties: eptid.Eptid / EptidShelve, the store  *)
(* of eduPersonTargetedID values an identity provider hands out: one opaque   *)
(* identifier per (service provider, user), stable over time, telling nothing  *)
(* to one provider about the identifier another one sees.                     *)
(*                                                                         *)
(* Names are token sequences (text concatenation = \o), so that the store key  *)
(* the code builds -- sp + "__" + user, one string -- can be compared with the  *)
(* pair (sp, user) it stands for.  A scenario is a sequence of lookups, with a  *)
(* restart of the process (the shelve file is reopened) between any two.       *)
(***************************************************************************)
EXTENDS Naturals, Sequences, FiniteSets, TLC, Json
CONSTANT AsCoded

Sps   == {<<"a">>, <<"a", "__", "b">>, <<"e">>}
Users == {<<"c">>, <<"b", "__", "c">>, <<"d">>}
Get == [sp : Sps, user : Users]
Ops == UNION {[1..n -> Get] : n \in 1..3}
Scn == [ops : Ops, restartAfter : 0..2, backend : {"memory", "shelve"}]

\* the key a value is stored under
Key(g) == IF AsCoded THEN g.sp \o <<"__">> \o g.user ELSE <<g.sp, g.user>>
\* the value made for a lookup that finds nothing: names the provider it was made for (the hash covers user, sp, secret)
Make(g) == [sp |-> g.sp, user |-> g.user]

\* the in-memory store forgets at a restart (values are recomputed, and come out the same); the shelve keeps
RECURSIVE Run(_, _, _)
Run(s, i, db) ==
    IF i > Len(s.ops) THEN <<>>
    ELSE LET g == s.ops[i]
             d == IF s.restartAfter = i - 1 /\ i > 1 /\ s.backend = "memory" THEN <<>> ELSE db     \* restart before lookup i
             k == Key(g)
             v == IF k \in DOMAIN d THEN d[k] ELSE Make(g)
         IN <<v>> \o Run(s, i + 1, [x \in DOMAIN d \cup {k} |-> IF x = k THEN v ELSE d[x]])

VARIABLES scn, pc
vars == <<scn, pc>>
Init == scn \in Scn /\ pc = "emit"
Answers == Run(scn, 1, <<>>)
Emit == /\ pc = "emit" /\ pc' = "done" /\ UNCHANGED scn
        /\ PrintT(<<"CASE", ToJson([scn |-> scn, answers |-> Answers])>>)
Spec == Init /\ [][Emit]_vars

N == Len(scn.ops)
\* the identifier handed out for a lookup is one made for that provider and that user
OwnValue == \A i \in 1..N : Answers[i].sp = scn.ops[i].sp /\ Answers[i].user = scn.ops[i].user
\* two lookups give the same identifier only if they are the same lookup
Injective == \A i, j \in 1..N : Answers[i] = Answers[j] => scn.ops[i] = scn.ops[j]
\* the same lookup always gives the same identifier, restart or not
Stable == \A i, j \in 1..N : scn.ops[i] = scn.ops[j] => Answers[i] = Answers[j]
=============================================================================
