------------------------------- MODULE WebSSOSim -------------------------------
(* behaviours of WebSSO for replay into a real Saml2Client and Server (history printed at the end) *)
EXTENDS WebSSO, Json
CONSTANT Depth
VARIABLE hist
svars == <<nextReq, outstanding, atIdp, wire, epoch, sessions, entries, consumed, last, hist>>
Proj == [outstanding |-> outstanding, sessions |-> sessions, op |-> last]
SimInit == Init /\ hist = <<>>
Step == /\ Len(hist) < Depth /\ Next /\ hist' = Append(hist, Proj')
Finish == /\ Len(hist) = Depth /\ hist[Len(hist)].op.op # "End"
          /\ PrintT(<<"CASE", ToJson(hist)>>)
          /\ hist' = Append(hist, [outstanding |-> {}, sessions |-> {}, op |-> [op |-> "End"]])
          /\ UNCHANGED vars
SimNext == Step \/ Finish
SimSpec == SimInit /\ [][SimNext]_svars
=============================================================================
