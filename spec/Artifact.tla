------------------------------- MODULE Artifact -------------------------------
(***************************************************************************)
(* Growth beyond the listed properties: the HTTP-Artifact exchange           *)
(* (Entity.use_artifact / create_artifact, artifact2destination,             *)
(* create_artifact_resolve, parse_artifact_resolve, create_artifact_response,*)
(* parse_artifact_resolve_response).                                        *)
(*                                                                         *)
(* An issuer keeps a store artifact -> message.  An artifact is              *)
(* B64(TypeCode EndpointIndex SourceID MessageHandle); the handle is fresh   *)
(* for every use.  The receiver decodes the artifact, finds the issuer by    *)
(* SourceID in metadata, picks the issuer's artifact-resolution endpoint     *)
(* with the decoded index, sends ArtifactResolve there and gets the stored   *)
(* message back.                                                           *)
(*                                                                         *)
(* The endpoint index travels as two characters.  EncodeIndex / DecodeIndex  *)
(* transcribe the two directions of the code: written as two lower-case      *)
(* hexadecimal digits ("%.2x"), read back as a *decimal* number, and when    *)
(* that fails as the decimal reading of the hexadecimal dump of the two      *)
(* characters.                                                             *)
(***************************************************************************)
EXTENDS Naturals, Sequences, FiniteSets, TLC, Json

CONSTANTS Msgs,        \* messages
          Indexes,     \* endpoint indexes an issuer may name (0..255)
          Published,   \* the indexes of the issuer's artifact-resolution endpoints in metadata
          MaxUses

HexDigits == <<"0", "1", "2", "3", "4", "5", "6", "7", "8", "9", "a", "b", "c", "d", "e", "f">>
EncodeIndex(i) == <<HexDigits[(i \div 16) + 1], HexDigits[(i % 16) + 1]>>
DigitVal(c) == CHOOSE v \in 0..15 : HexDigits[v + 1] = c
IsDec(c) == DigitVal(c) <= 9
\* ASCII code of a hexadecimal digit character
Ascii(c) == IF IsDec(c) THEN 48 + DigitVal(c) ELSE 97 + (DigitVal(c) - 10)
\* int(hexlify(two characters)): the four hexadecimal digits of the two ASCII codes read as a decimal number
\* (the codes are 0x30..0x39 and 0x61..0x66: all their digits are decimal digits)
DumpAsDecimal(cs) == (Ascii(cs[1]) \div 16) * 1000 + (Ascii(cs[1]) % 16) * 100 + (Ascii(cs[2]) \div 16) * 10 + (Ascii(cs[2]) % 16)
DecodeIndex(cs) == IF IsDec(cs[1]) /\ IsDec(cs[2]) THEN DigitVal(cs[1]) * 10 + DigitVal(cs[2]) ELSE DumpAsDecimal(cs)

VARIABLES store,     \* the issuer's store: set of [handle, idx, msg]
          next,      \* next fresh handle
          last
vars == <<store, next, last>>
Init == store = {} /\ next = 1 /\ last = [op |-> "Init"]

\* use_artifact(message, endpoint_index)
Use(m, i) == /\ next <= MaxUses
             /\ store' = store \cup {[handle |-> next, idx |-> i, msg |-> m]}
             /\ next' = next + 1
             /\ last' = [op |-> "Use", msg |-> m, idx |-> i, handle |-> next, wire |-> EncodeIndex(i)]
\* artifact2destination + ArtifactResolve / ArtifactResponse for an artifact the issuer handed out
Resolve(h) == /\ \E e \in store : e.handle = h
              /\ LET e == CHOOSE x \in store : x.handle = h
                     d == DecodeIndex(EncodeIndex(e.idx))
                 IN last' = [op |-> "Resolve", handle |-> h, decoded |-> d,
                             dest |-> IF d \in Published THEN d ELSE 999,         \* 999: no endpoint found ("Missing endpoint location")
                             msg |-> e.msg]
              /\ UNCHANGED <<store, next>>
\* an artifact nobody handed out (well-formed, unknown handle)
ResolveUnknown == /\ last' = [op |-> "ResolveUnknown", error |-> TRUE] /\ UNCHANGED <<store, next>>
Next == (\E m \in Msgs, i \in Indexes : Use(m, i)) \/ (\E h \in 1..MaxUses : Resolve(h)) \/ ResolveUnknown
Spec == Init /\ [][Next]_vars

\* one implementation test per transition
EmitEdge == PrintT(<<"CASE", ToJson([store |-> store, step |-> last'])>>)
\* ---- statements
\* the message that comes back is the one stored under exactly that artifact
ReturnsStored == last.op = "Resolve" => \E e \in store : e.handle = last.handle /\ e.msg = last.msg
HandlesFresh == \A a, b \in store : a.handle = b.handle => a = b
\* the ArtifactResolve goes to the endpoint the issuer named.  Refuted for every index above 9.
IndexRoundTrip == last.op = "Resolve" =>
    LET e == CHOOSE x \in store : x.handle = last.handle IN (e.idx \in Published => last.dest = e.idx)
\* SAML: an artifact is for one use.  Refuted: the store is never emptied.
OneTimeUse == [][last'.op = "Resolve" => \A e \in store : e.handle = last'.handle => e \notin store']_vars
=============================================================================
