SPECIFICATION Spec
CONSTANTS
  Msgs = {"mA", "mB"}
  Indexes = {1}
  Published = {1, 9, 10, 16}
  MaxUses = 3
INVARIANT ReturnsStored
INVARIANT HandlesFresh
PROPERTY OneTimeUse
CHECK_DEADLOCK FALSE
