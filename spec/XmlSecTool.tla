------------------------------ MODULE XmlSecTool ------------------------------
(***************************************************************************)
(* Contract of the external program xmlsec1 as this code base uses it       *)
(* (DESIGN.md section 3.1, T0-T7), over an abstract document tree.  The real *)
(* program is absent from the sandbox; harness/standin/xmlsec1 is an         *)
(* executable implementation of this contract and is checked against the    *)
(* verdicts TLC computes here (every replayed document carries ToolTable).   *)
(*                                                                         *)
(*  T1  --id-attr:ID <name> registers the ID attribute of every element of   *)
(*      that name; two registered elements with one value: error.           *)
(*  T2  --node-id i: start node = the registered element with ID i; none:    *)
(*      error.  Without --node-id the document element is the start node.   *)
(*  T3  the operated signature is the FIRST ds:Signature in document order   *)
(*      in the subtree of the start node.                                   *)
(*  T4  every Reference is resolved by registered ID; the enveloped-         *)
(*      signature transform removes the operated signature's subtree from    *)
(*      the referenced node set; the digest of what is left must equal the   *)
(*      stored one; SignedInfo must verify under the key given on the        *)
(*      command line only.                                                  *)
(*  T5  a successful verification prints a line OK; everything else (FAIL,   *)
(*      error exit, death by signal, garbled or no output) is not success -- *)
(*      the fault catalogue below names the ways (C20).                     *)
(*  T6/T7 signing fills the operated template and writes the document;       *)
(*      encryption replaces the selected node by EncryptedData for the given *)
(*      certificate; decryption opens the first EncryptedData only with the  *)
(*      matching private key; no output on failure.                         *)
(*  T8  a Reference may carry further transforms the tool knows; an XPath    *)
(*      filter transform narrows the node set that is digested.  Level       *)
(*      "assertion_filtered": the issuer's assertion signature carries such  *)
(*      a filter, one that leaves the assertion's own content (subject,       *)
(*      attributes) out -- the tool verifies it whatever that content is.    *)
(***************************************************************************)
EXTENDS Naturals, Sequences, FiniteSets, TLC, XmlSecFaults

CONSTANT Level       \* "assertion", "response" or "both": what the issuer signed ("assertion_filtered": T8)
LevelBase == IF Level = "assertion_filtered" THEN "assertion" ELSE Level
\* the genuine signature of that origin carries a filter transform
Filtered(o) == Level = "assertion_filtered" /\ o = "A"

NoId == "none"
Ids  == {"r", "a", "x"}

VARIABLES kind,      \* Node -> element kinds \cup {"Sig", "free"}
          ida,       \* Node -> Ids \cup {NoId}      ID attribute
          content,   \* Node -> {"genuine", "forged", "-"}   own content
          kids,      \* Node -> Seq(Node)
          root,
          sorig      \* Node -> {"A", "R", "X", "-"}  which genuine signature a Sig node is a copy of ("X": attacker-made)

(***************************************************************************)
(* The genuine signatures                                                  *)
(***************************************************************************)
\* Reference/@URI inside the (immutable) SignedInfo.  Origin "X" is a signature the attacker made himself:
\* it references the forged element "x" and never verifies under the issuer's key
SRef(o) == CASE o = "A" -> "a" [] o = "R" -> "r" [] OTHER -> "x"
SigT(o) == <<"Sig", o, <<>>>>                            \* a signature as it contributes to an enclosing digest
AsrtPlain == <<"Asrt", "a", IF Level = "assertion_filtered" THEN "*" ELSE "genuine", <<>>>>
AsrtSigned == <<"Asrt", "a", "genuine", <<SigT("A")>>>>
Dig(o) == IF o = "A" THEN AsrtPlain
          ELSE IF o = "X" THEN <<"never">>
          ELSE <<"Resp", "r", "genuine", <<IF Level = "both" THEN AsrtSigned ELSE AsrtPlain>>>>

(***************************************************************************)
(* Tree helpers                                                            *)
(***************************************************************************)
RECURSIVE Dfs(_)
RECURSIVE DfsSeq(_)
DfsSeq(q) == IF q = <<>> THEN <<>> ELSE Dfs(Head(q)) \o DfsSeq(Tail(q))
Dfs(n) == <<n>> \o DfsSeq(kids[n])                     \* document order
Range(q) == {q[i] : i \in 1..Len(q)}
Sub(n) == Range(Dfs(n))
Attached == Sub(root)
Parent(n) == CHOOSE p \in Attached : n \in Range(kids[p])
Without(q, x) == SelectSeq(q, LAMBDA y : y # x)
ChildrenOfKind(e, k) == SelectSeq(kids[e], LAMBDA c : kind[c] = k)

\* f: digested through the filter of T8 -- the content of assertions is not part of what is digested
RECURSIVE HashF(_, _, _)
RECURSIVE HashSeqF(_, _, _)
HashSeqF(q, excl, f) == IF q = <<>> THEN <<>>
                        ELSE IF Head(q) = excl THEN HashSeqF(Tail(q), excl, f)
                        ELSE <<HashF(Head(q), excl, f)>> \o HashSeqF(Tail(q), excl, f)
HashF(n, excl, f) == IF kind[n] = "Sig" THEN <<"Sig", sorig[n], HashSeqF(kids[n], excl, f)>>
                     ELSE <<kind[n], ida[n], IF f /\ kind[n] = "Asrt" THEN "*" ELSE content[n], HashSeqF(kids[n], excl, f)>>
Hash(n, excl) == HashF(n, excl, FALSE)

(***************************************************************************)
(* The external tool (XmlSecTool T1-T4), verification with the IdP's key    *)
(***************************************************************************)
Registered(k) == {n \in Attached : kind[n] = k /\ ida[n] # NoId}                       \* T1
DupIds(k)     == \E m, n \in Registered(k) : m # n /\ ida[m] = ida[n]
ById(k, i)    == {n \in Registered(k) : ida[n] = i}
FirstSig(n)   == LET d == SelectSeq(Dfs(n), LAMBDA m : kind[m] = "Sig")                \* T3
                 IN IF d = <<>> THEN 0 ELSE d[1]
\* verify --id-attr:ID <k> [--node-id i]: no node id -> the document element is the start node
ToolOK(k, i) ==
    /\ ~DupIds(k)
    /\ (i # NoId => ById(k, i) # {})                                                   \* T2
    /\ LET st == IF i = NoId THEN root ELSE CHOOSE n \in ById(k, i) : TRUE
           s  == FirstSig(st)
       IN /\ s # 0
          /\ sorig[s] # "X"                                        \* only the key given on the command line is trusted
          /\ ById(k, SRef(sorig[s])) # {}                                              \* T4: reference resolves
          /\ LET t == CHOOSE n \in ById(k, SRef(sorig[s])) : TRUE
             IN /\ t \notin Sub(s)             \* enveloped transform: nothing is left of a target inside the signature
                /\ HashF(t, s, Filtered(sorig[s])) = Dig(sorig[s])

ToolTable == {[k |-> k, i |-> i, ok |-> ToolOK(k, i)] : k \in {"Resp", "Asrt"}, i \in Ids \cup {NoId}}
=============================================================================
