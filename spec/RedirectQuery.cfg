SPECIFICATION Spec
CONSTANTS
  Fixed = TRUE
  Algs = {"sha1", "sha224", "sha256", "sha384", "sha512"}
  Muts = {"none", "msg_changed", "msg_removed", "relay_changed", "relay_removed", "relay_added", "sigalg_changed", "sigalg_removed", "sigalg_unsupported", "sig_changed", "sig_removed", "sig_other_message", "typ_swapped", "reordered", "extra_param", "nosigalg_signed"}
INVARIANT Contract
INVARIANT WireContract
CHECK_DEADLOCK FALSE
