SPECIFICATION Spec
CONSTANT Mode = "roundtrip"
INVARIANT TablesWellFormed
INVARIANT AbstractRoundTrip
CHECK_DEADLOCK FALSE
