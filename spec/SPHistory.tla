------------------------------ MODULE SPHistory ------------------------------
(***************************************************************************)
(* C02 / C03 / C04 (and the "present content" clause of C01) over time.     *)
(*                                                                         *)
(* The scenario specifications decide one response on a fresh receiver.  A   *)
(* service provider is a long-lived object in a long-lived process: it       *)
(* receives many responses, its clock moves, its metadata is reloaded (key   *)
(* roll-over).  This module specifies the receiver over such a history:      *)
(*                                                                         *)
(*   Deliver(m)  one call of parse_authn_request_response with message m     *)
(*   Tick        the clock leaves the validity window of the messages        *)
(*   Roll        metadata is reloaded: the issuer's signing key is replaced  *)
(*                                                                         *)
(* Messages are fixed texts (same identifiers, same time stamps, same        *)
(* signature value on every delivery): [id, key, edited] = which request     *)
(* it answers and which identifiers it carries, which key signed it, whether *)
(* signed content was altered after signing.                                *)
(*                                                                         *)
(* The design the properties state is memoryless: the verdict on a delivery  *)
(* is a function of the message and of the clock and metadata at that        *)
(* moment (Oracle).  Memo names what a receiver remembers between            *)
(* deliveries; "none" is the design, the others are plausible optimisations  *)
(* (remember verified signatures by identifier, remember the issuer's        *)
(* certificate, remember that a time stamp was judged valid) that TLC shows  *)
(* to violate HistoryIndependent -- the vacuity controls of this module.     *)
(* Every behaviour of the memoryless design is replayed into one real        *)
(* Saml2Client and each verdict compared with Oracle.  With Levels =          *)
(* {"request"} the same module describes an identity provider receiving      *)
(* signed requests (C10): keys are the requester's, the window is the        *)
(* one-day IssueInstant window.                                              *)
(***************************************************************************)
EXTENDS Naturals, Sequences, FiniteSets, TLC, Json

CONSTANTS Memo,          \* "none" | "sigById" | "certByIssuer" | "timeByText"
          MsgKeys,       \* keys messages are signed with
          Edits,         \* subset of BOOLEAN: altered after signing?
          EnvActs,       \* subset of {"tick", "roll"}
          Levels,        \* signature level in force: "response", "assertion", "none" (unsigned, nothing required)
          Deliveries     \* deliveries per behaviour

Ids == {"m1", "m2"}
Msg == [id : Ids, key : MsgKeys, edited : Edits]
OldKey == "kIdp1"
NewKey == "kIdp1b"

VARIABLES level, clock, mdKey, mem, log, pc
vars == <<level, clock, mdKey, mem, log, pc>>

NoMem == [sigs |-> {}, cert |-> "none", times |-> {}]
Init == /\ level \in Levels /\ clock = "inside" /\ mdKey = OldKey /\ mem = NoMem /\ log = <<>> /\ pc = "run"

Delivered == Len(SelectSeq(log, LAMBDA e : e.op = "deliver"))
SeenBefore(id) == \E i \in 1..Len(log) : log[i].op = "deliver" /\ log[i].msg.id = id

\* ---- the property: what the verdict must be, from the message and the present environment alone
SigGood(m, k) == level = "none" \/ (~m.edited /\ m.key = k)
Oracle(m) == SigGood(m, mdKey) /\ clock = "inside"

\* ---- the receiver, with what it remembers
SigPasses(m) ==
    CASE Memo = "sigById"      -> m.id \in mem.sigs \/ SigGood(m, mdKey)
      [] Memo = "certByIssuer" -> IF mem.cert # "none" /\ SigGood(m, mem.cert) THEN TRUE ELSE SigGood(m, mdKey)
      [] OTHER                 -> SigGood(m, mdKey)
TimePasses(m) == IF Memo = "timeByText" /\ m.id \in mem.times THEN TRUE ELSE clock = "inside"
Accepts(m) == SigPasses(m) /\ TimePasses(m)
Remember(m) ==
    [sigs  |-> IF level # "none" /\ SigPasses(m) THEN mem.sigs \cup {m.id} ELSE mem.sigs,
     cert  |-> IF level = "none" THEN mem.cert
               ELSE IF mem.cert # "none" /\ SigGood(m, mem.cert) THEN mem.cert
               ELSE IF SigGood(m, mdKey) THEN mdKey ELSE "none",
     times |-> IF clock = "inside" THEN mem.times \cup {m.id} ELSE mem.times]

Deliver(m) ==
    /\ pc = "run" /\ Delivered < Deliveries
    /\ (level = "none" => m.key = CHOOSE k \in MsgKeys : TRUE) /\ (level = "none" => ~m.edited)
    /\ log' = Append(log, [op |-> "deliver", msg |-> m, clock |-> clock, mdKey |-> mdKey,
                           verdict |-> IF Accepts(m) THEN "accept" ELSE "reject",
                           mustReject |-> ~Oracle(m),
                           \* a conformant message is not refused the first time it is seen (replay detection is left open)
                           mustAccept |-> Oracle(m) /\ ~SeenBefore(m.id)])
    /\ mem' = Remember(m)
    /\ UNCHANGED <<level, clock, mdKey, pc>>
Tick == /\ pc = "run" /\ "tick" \in EnvActs /\ clock = "inside" /\ Delivered < Deliveries
        /\ clock' = "after" /\ log' = Append(log, [op |-> "tick"])
        /\ UNCHANGED <<level, mdKey, mem, pc>>
Roll == /\ pc = "run" /\ "roll" \in EnvActs /\ mdKey = OldKey /\ Delivered < Deliveries
        /\ mdKey' = NewKey /\ log' = Append(log, [op |-> "roll"])
        /\ UNCHANGED <<level, clock, mem, pc>>
Finish == /\ pc = "run" /\ Delivered = Deliveries /\ pc' = "done"
          /\ PrintT(<<"CASE", ToJson([level |-> level, hist |-> log])>>)
          /\ UNCHANGED <<level, clock, mdKey, mem, log>>
Next == (\E m \in Msg : Deliver(m)) \/ Tick \/ Roll \/ Finish
Spec == Init /\ [][Next]_vars

HistoryIndependent == \A i \in 1..Len(log) : log[i].op = "deliver" =>
    /\ (log[i].mustReject => log[i].verdict = "reject")
    /\ (log[i].mustAccept => log[i].verdict = "accept")
=============================================================================
