-------------------------------- MODULE MdStore --------------------------------
(***************************************************************************)
(* C16 -- the metadata store serves exactly what valid, unexpired metadata   *)
(* declares (mdstore.MetadataStore / InMemoryMetaData: load, service,        *)
(* certs, entity_categories, attribute_requirement; parse_and_check_signature). *)
(*                                                                         *)
(* A small federation is fixed by the sets below (endpoint facts, key facts, *)
(* categories, requested attributes); a scenario varies validity dates,      *)
(* signature state of the aggregate, whether a verification certificate is   *)
(* configured, a duplicate declaration of one entity in a second source and  *)
(* the load order.  Load is one action per source; every query of the        *)
(* universe is then answered from the loaded state and compared with the     *)
(* declarative contract.                                                   *)
(***************************************************************************)
EXTENDS Naturals, Sequences, FiniteSets, TLC, Json

Ents == {"e1", "e2", "e3"}
Binds == {"redirect", "post", "soap"}
Roles == {"idpsso", "spsso", "attribute_authority"}
E(e, r, s, b, l, i) == [e |-> e, role |-> r, svc |-> s, b |-> b, loc |-> l, idx |-> i, src |-> "A"]
\* endpoint declarations; e1 is IdP and SP at once, e2 an SP, e3 an attribute authority (in source B)
FactsA == { E("e1", "idpsso", "single_sign_on_service", "redirect", "loc1", 0),
            E("e1", "idpsso", "single_sign_on_service", "post", "loc2", 0),
            E("e1", "idpsso", "single_logout_service", "soap", "loc3", 0),
            E("e1", "spsso", "assertion_consumer_service", "post", "loc4", 1),
            E("e2", "spsso", "assertion_consumer_service", "post", "loc5", 1),
            E("e2", "spsso", "assertion_consumer_service", "redirect", "loc6", 2),
            E("e2", "spsso", "single_logout_service", "redirect", "loc7", 0) }
FactsB == { [E("e3", "attribute_authority", "attribute_service", "soap", "loc8", 0) EXCEPT !.src = "B"] }
\* the duplicate declaration of e1 in source B: other location, other key
FactsDup == { [E("e1", "idpsso", "single_sign_on_service", "redirect", "locDup", 0) EXCEPT !.src = "B"] }
K(e, r, u, k, s) == [e |-> e, role |-> r, use |-> u, key |-> k, src |-> s]
KeysA == { K("e1", "idpsso", "signing", "kIdp1", "A"), K("e1", "idpsso", "encryption", "kIdp1b", "A"),
           K("e1", "spsso", "none", "kSp", "A"), K("e2", "spsso", "signing", "kSpEnc1", "A"),
           K("e2", "spsso", "encryption", "kSpEnc2", "A") }
KeysB == { K("e3", "attribute_authority", "signing", "kIdp2", "B") }
KeysDup == { K("e1", "idpsso", "signing", "kAttacker", "B") }
Cats == [e \in Ents |-> IF e = "e2" THEN {"cat1", "cat2"} ELSE {}]
Required == [e \in Ents |-> IF e = "e2" THEN {"givenName"} ELSE {}]
\* mail: no isRequired attribute; title: isRequired="false"; sn: isRequired="0" (the other legal spelling of false)
Optional == [e \in Ents |-> IF e = "e2" THEN {"mail", "title", "sn"} ELSE {}]

\* pastOffset: an instant in the past written with a numeric time-zone offset (+02:00) instead of the UTC form the metadata
\* schema profile demands; read naively (offset dropped, or applied with the wrong sign) it would lie in the future.  The
\* library's schema validation refuses such a document as a whole.
Validity == {"absent", "future", "past", "pastOffset"}
Scn == [vuDoc : Validity, vuE1 : Validity, sig : {"none", "valid", "invalid", "wrapped"}, cert : BOOLEAN,
        dupe : BOOLEAN, order : {"AB", "BA"},
        \* bLoose: source B is a remote source configured with its own option check_validity = false (source A then comes
        \* from a file or another URL).  A per-source option binds that source only.
        bLoose : BOOLEAN,
        \* how the signed remote source A gets into the store: MetadataStore.load("remote", ...) or the new-style
        \* configuration list handed to MetadataStore.imp (class saml2_tophat.mdstore.MetaDataExtern)
        via : {"load", "imp"},
        \* reload: source A (a file or a URL) was loaded before with older content -- other keys, other locations, an extra
        \* category -- and every query was asked once; then it is loaded again with the present content.  What is served
        \* afterwards is the present content.
        reload : BOOLEAN,
        \* how e2 declares its two entity categories: two values of one Attribute, two Attribute elements of the same Name,
        \* two EntityAttributes containers -- the same declaration three ways
        catLayout : {"one", "twoAttributes", "twoContainers"}]

VARIABLES scn, pc, loaded     \* loaded: sequence of sources registered, in load order
vars == <<scn, pc, loaded>>
\* a tampered or wrapped aggregate is only meaningful where a verification certificate is configured
\* (without one it is simply another document)
WellFormed(s) == /\ s.catLayout # "one" => /\ s.sig = "none" /\ ~s.cert /\ ~s.dupe /\ s.order = "AB" /\ ~s.bLoose /\ s.via = "load" /\ ~s.reload
                                           /\ s.vuDoc = "absent" /\ s.vuE1 = "absent"
                 /\ s.sig \in {"invalid", "wrapped"} => s.cert
                 /\ (s.bLoose => s.order = "BA" /\ s.sig \in {"none", "valid"})
                 /\ (s.via = "imp" => s.cert /\ ~s.bLoose)
                 /\ (s.reload => s.via = "load" /\ ~s.bLoose /\ s.sig \in {"none", "valid"} /\ s.vuDoc \in {"absent", "future"} /\ s.vuE1 # "pastOffset")      \* (a refresh that fails leaves the earlier content in place: not modelled)
                 /\ (s.vuDoc = "pastOffset" \/ s.vuE1 = "pastOffset") => s.sig \in {"none", "valid"}
Init == scn \in {s \in Scn : WellFormed(s)} /\ pc = "load1" /\ loaded = <<>>

\* a source is registered iff parsing and checking succeed
NotUtc == scn.vuDoc = "pastOffset" \/ scn.vuE1 = "pastOffset"
LoadsOK(src) == IF src = "B" THEN TRUE
                ELSE /\ scn.vuDoc # "past" /\ ~NotUtc
                     /\ (scn.cert /\ scn.sig # "none" => scn.sig = "valid")
First  == IF scn.order = "AB" THEN "A" ELSE "B"
Second == IF scn.order = "AB" THEN "B" ELSE "A"
Load1 == pc = "load1" /\ pc' = "load2" /\ loaded' = (IF LoadsOK(First) THEN <<First>> ELSE <<>>) /\ UNCHANGED scn
Load2 == pc = "load2" /\ pc' = "query" /\ loaded' = (IF LoadsOK(Second) THEN Append(loaded, Second) ELSE loaded) /\ UNCHANGED scn

Facts(src) == IF src = "A" THEN FactsA ELSE FactsB \cup (IF scn.dupe THEN FactsDup ELSE {})
Keys(src)  == IF src = "A" THEN KeysA ELSE KeysB \cup (IF scn.dupe THEN KeysDup ELSE {})
\* entities a registered source serves (expired entities are dropped when the source is parsed)
Serves(src) == {f.e : f \in Facts(src)} \ (IF src = "A" /\ scn.vuE1 = "past" THEN {"e1"} ELSE {})
RangeOf(q) == {q[i] : i \in 1..Len(q)}
Sources(e) == SelectSeq(loaded, LAMBDA s : e \in Serves(s))      \* in load order
Live(e) == Sources(e) # <<>>

\* ---- operational answers (MetadataStore iterates its sources in load order, first hit wins)
Locs(src, e, r, s, b) == {f.loc : f \in {g \in Facts(src) : g.e = e /\ g.role = r /\ g.svc = s /\ g.b = b}}
HasRole(src, e, r) == \E f \in Facts(src) : f.e = e /\ f.role = r
RECURSIVE FirstHit(_, _, _, _, _)
FirstHit(srcs, e, r, s, b) ==
    IF srcs = <<>> THEN {}
    ELSE IF Locs(Head(srcs), e, r, s, b) # {} THEN Locs(Head(srcs), e, r, s, b) ELSE FirstHit(Tail(srcs), e, r, s, b)
Service(e, r, s, b) ==
    IF ~Live(e) \/ ~\E src \in RangeOf(Sources(e)) : HasRole(src, e, r) THEN [r |-> "UnknownSystemEntity"]
    ELSE IF FirstHit(Sources(e), e, r, s, b) = {} THEN [r |-> "UnsupportedBinding"]
    ELSE [r |-> "set", v |-> FirstHit(Sources(e), e, r, s, b)]
CertsOf(src, e, r, u) == {k.key : k \in {x \in Keys(src) : x.e = e /\ (r = "any" \/ x.role = r) /\ x.use \in {u, "none"}}}
Certs(e, r, u) == IF ~Live(e) THEN [r |-> "KeyError"]
                  ELSE IF r # "any" /\ ~HasRole(Sources(e)[1], e, r) THEN [r |-> "KeyError"]     \* ent["<role>_descriptor"]
                  ELSE [r |-> "set", v |-> CertsOf(Sources(e)[1], e, r, u)]

\* ---- contract: what may be answered
Declaring(e) == {src \in {"A", "B"} : e \in {f.e : f \in Facts(src)}}
\* sources whose declaration of e may be served at all
Valid(src, e) == /\ src \in RangeOf(loaded)
                 /\ ~(src = "A" /\ e = "e1" /\ scn.vuE1 = "past")
AcceptableService(e, r, s, b) ==
    LET vs == {src \in Declaring(e) : Valid(src, e)} IN
    IF vs = {} THEN {[r |-> "UnknownSystemEntity"]}
    ELSE LET sets == {Locs(src, e, r, s, b) : src \in vs} \ {{}} IN
         IF sets # {} THEN {[r |-> "set", v |-> x] : x \in sets}
         ELSE IF \E src \in vs : HasRole(src, e, r) THEN {[r |-> "UnsupportedBinding"]}
         ELSE {[r |-> "UnknownSystemEntity"], [r |-> "UnsupportedBinding"]}     \* known entity without the role: open
AcceptableCerts(e, r, u) ==
    LET vs == {src \in Declaring(e) : Valid(src, e)} IN
    IF vs = {} THEN {[r |-> "KeyError"], [r |-> "set", v |-> {}]}
    ELSE {[r |-> "set", v |-> CertsOf(src, e, r, u)] : src \in vs} \cup
         (IF r # "any" /\ \E src \in vs : ~HasRole(src, e, r) THEN {[r |-> "KeyError"]} ELSE {})

AllE == Ents \cup {"unknown"}
SvcQueries == {<<"single_sign_on_service", "idpsso">>, <<"single_logout_service", "idpsso">>,
               <<"assertion_consumer_service", "spsso">>, <<"single_logout_service", "spsso">>,
               <<"attribute_service", "attribute_authority">>}
Answers ==
    {[q |-> "service", e |-> e, svc |-> sq[1], role |-> sq[2], b |-> b, model |-> Service(e, sq[2], sq[1], b),
      ok |-> AcceptableService(e, sq[2], sq[1], b)] : e \in AllE, sq \in SvcQueries, b \in Binds}
    \cup {[q |-> "certs", e |-> e, role |-> r, use |-> u, model |-> Certs(e, r, u), ok |-> AcceptableCerts(e, r, u)]
            : e \in AllE, r \in Roles \cup {"any"}, u \in {"signing", "encryption"}}
    \cup {[q |-> "cats", e |-> e, model |-> IF Live(e) THEN [r |-> "set", v |-> Cats[e]] ELSE [r |-> "set", v |-> {}],
           ok |-> {IF e \in Ents /\ \E src \in Declaring(e) : Valid(src, e) THEN [r |-> "set", v |-> Cats[e]] ELSE [r |-> "set", v |-> {}],
                   [r |-> "KeyError"]}] : e \in AllE}
    \* attribute_requirement: what the (served) declaration of the entity asks for; nothing for anybody else
    \cup {[q |-> "attrreq", e |-> e,
           model |-> IF e \in Ents /\ Live(e) /\ Required[e] \cup Optional[e] # {} THEN [r |-> "attrs", req |-> Required[e], opt |-> Optional[e]]
                     ELSE [r |-> "none"],
           ok |-> IF e \in Ents /\ (\E src \in Declaring(e) : Valid(src, e)) /\ Required[e] \cup Optional[e] # {}
                  THEN {[r |-> "attrs", req |-> Required[e], opt |-> Optional[e]]}
                  ELSE {[r |-> "none"], [r |-> "attrs", req |-> {}, opt |-> {}]}] : e \in AllE}

Emit == /\ pc = "query" /\ pc' = "done" /\ UNCHANGED <<scn, loaded>>
        /\ PrintT(<<"CASE", ToJson([scn |-> scn, loaded |-> loaded, answers |-> Answers,
                                    facts |-> FactsA \cup FactsB \cup (IF scn.dupe THEN FactsDup ELSE {}),
                                    keys |-> KeysA \cup KeysB \cup (IF scn.dupe THEN KeysDup ELSE {})])>>)
Next == Load1 \/ Load2 \/ Emit
Spec == Init /\ [][Next]_vars

\* the operational store answers within the contract, for every query of the universe
PipelineMeetsContract == pc = "query" => \A a \in Answers : a.model \in a.ok
\* nothing from expired or unverified sources
NoExpired == pc = "query" /\ scn.vuDoc \in {"past", "pastOffset"} => "A" \notin RangeOf(loaded)
SignedOnly == pc = "query" /\ scn.cert /\ scn.sig \in {"invalid", "wrapped"} => "A" \notin RangeOf(loaded)
=============================================================================
