SPECIFICATION Spec
INVARIANT PipelineMeetsContract
INVARIANT SameChecks
INVARIANT NoIdentityFromCipherText
CHECK_DEADLOCK FALSE
