----------------------------- MODULE XmlSecFaults -----------------------------
(* T5 of the tool contract: the fault catalogue of the external program (C20).   *)
(* Each name is an action of the fault-injecting stand-in harness/standin/xmlsec1. *)
\* the ways a tool run can fail to report success (actions of the fault-injecting stand-in)
VerifyFaults == {"ExitError", "KilledBySignal", "EmptyOutput", "TruncatedOutput", "Garbled",
                 "OkInsideText1", "OkInsideText2", "OkInsideText3", "OkInsideText4", "OkInsideText5",
                 "OkInsideText6",
                 \* the letters OK on a line of their own between bytes that are not valid in any text encoding
                 "UndecodableAroundOk1", "UndecodableAroundOk2"}
OutputFaults == {"ExitError", "KilledBySignal", "NoOutputFile", "EmptyOutput", "Garbled"}
\* a run reports success iff it was not faulted and the check itself succeeded
Reports(ok, fault) == ok /\ fault = "none"

=============================================================================
