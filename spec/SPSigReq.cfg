SPECIFICATION Spec
INVARIANT PipelineMeetsContract
INVARIANT NeverIgnoredInvalid
INVARIANT NoCompensation
CHECK_DEADLOCK FALSE
