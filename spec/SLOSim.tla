--------------------------------- MODULE SLOSim ---------------------------------
(* behaviours of SLO for replay into the real Saml2Client (history printed at the end) *)
EXTENDS SLO, Json
CONSTANT Depth
VARIABLE hist
svars == <<spSession, idpSession, state, lists, flight, answers, nextId, nextList, expired, last, hist>>
Proj == [sp |-> spSession, out |-> {[id |-> r, idp |-> state[r].idp, rem |-> lists[state[r].lst]] : r \in Outstanding},
         op |-> last]
SimInit == Init /\ hist = <<>>
Step == /\ Len(hist) < Depth /\ Next /\ hist' = Append(hist, Proj')
Finish == /\ (Len(hist) = Depth \/ ~ENABLED Next) /\ Len(hist) > 0 /\ hist[Len(hist)].op.op # "End"
          /\ PrintT(<<"CASE", ToJson(hist)>>)
          /\ hist' = Append(hist, [sp |-> spSession, out |-> {}, op |-> [op |-> "End"]])
          /\ UNCHANGED vars
SimNext == Step \/ Finish
SimSpec == SimInit /\ [][SimNext]_svars
=============================================================================
