------------------------------ MODULE IdPRequest ------------------------------
(***************************************************************************)
(* C10 -- incoming requests are validated before they reach the             *)
(* application: Entity._parse_request (receiver addresses, unravel),        *)
(* Request._loads (signature_check, valid_instance), Request._verify        *)
(* (version, destination, issue instant).                                   *)
(*                                                                         *)
(* Fixed = FALSE: the destination is compared only with the endpoints       *)
(* configured for the binding the request arrived on (none configured: not  *)
(* compared at all).  Fixed = TRUE: with none for that binding, the          *)
(* endpoints of the service on any binding are used.                        *)
(* Fixed = FALSE also has the certificate-only shortcut of _check_signature:   *)
(* with want_authn_requests_only_with_valid_cert a signature that did not     *)
(* verify is let through when the certificate it was tried with is           *)
(* acceptable ("if verified or only_valid_cert").                            *)
(* The signature part is the SigDoc model with relied = {request}; here a    *)
(* wrapped request is one more kind of signature state.                     *)
(***************************************************************************)
EXTENDS Naturals, Sequences, FiniteSets, TLC, Json
CONSTANT Fixed

\* the SOAP queries an IdP / attribute authority / decision point answers besides the attribute query
Queries == {"attrquery", "authnquery", "authzquery", "assertionid", "nameidmapping", "managenameid"}
Types == {"authn", "logout_idp", "logout_sp"} \cup Queries
Bindings == {"redirect", "post", "soap"}
\* wrapped: a forged request carrying the genuine signature (which references the genuine request nested below it);
\* wrapped_ownref: a forged request whose own Signature child references the forged request itself (a copy with the
\* Reference rewritten: it cannot verify) placed after an Extensions element that holds the genuine signed request -- the
\* tool operates on the first Signature below the start node, which is the genuine one
\* wrapped_prefix: as wrapped, the forged request's identifier extending the genuine one ("req1" / "req1-2")
Sigs == {"none", "valid", "invalid", "wrapped", "wrapped_ownref", "wrapped_prefix"}
\* version_*: another Version than the string "2.0" (an older one; another spelling of the number two);
\* stale26h / future26h: IssueInstant 26 hours away -- outside the window by less than any time-zone offset
Muts == {"none", "dest_foreign", "dest_absent", "dest_other_binding", "stale", "future", "stale26h", "future26h", "version_11", "version_2",
         \* stale_offset / future_offset: IssueInstant 30 hours away, written as local time with a numeric zone designator
         \* (+14:00 / -12:00) -- not the UTC form SAML demands; read without the designator it would fall inside the window
         "stale_offset", "future_offset",
         \* dest_extends: a Destination that begins with an own endpoint and goes on (path, host suffix)
         \* bad_enum: an attribute of an enumerated type with a value outside the enumeration (Comparison="strongest")
         "dest_extends_path", "dest_extends_host", "bad_enum",
         \* schema_reqattr: a required attribute is missing on an element further down (IDPEntry without ProviderID, a queried
         \* Attribute without Name); body_first_other / body_two: a SOAP Body that holds a second element -- a response in front
         \* of the request, or two requests (the Body of a SOAP-bound SAML message holds exactly that message)
         "schema_reqattr", "body_first_other", "body_two",
         "wrong_root", "schema", "schema_child",      \* a required attribute / a required child element is missing
         "garbled_base64", "garbled_deflate", "truncated_xml", "not_xml"}
\* issuerKey: metadata holds a signing key for the requester, or none
Scn == [rtype : Types, binding : Bindings, sig : Sigs, want : BOOLEAN, mut : Muts, endpoint : {"configured", "otherBindingOnly"},
        issuerKey : {"known", "nokey"},
        certOnly : BOOLEAN,          \* want_authn_requests_only_with_valid_cert (implies that requests must be signed)
        tz : {"UTC", "east9", "west8"}]      \* time zone of the receiving process: instants are UTC whatever it is
WellFormed(s) ==
    /\ (s.rtype = "authn" => s.binding \in {"redirect", "post"})
    /\ (s.rtype \in Queries => s.binding = "soap" /\ s.endpoint = "configured")
    /\ (s.binding = "redirect" => s.sig = "none")                 \* redirect signatures live in the query (C15)
    /\ (s.rtype = "logout_sp" => ~s.want)                         \* the option is an IdP option
    /\ (s.mut = "garbled_deflate" => s.binding = "redirect")
    /\ (s.mut = "schema_child" => s.rtype \in {"authn", "assertionid"})
    /\ (s.mut = "bad_enum" => s.rtype = "authn")
    /\ (s.mut = "schema_reqattr" => s.rtype \in {"authn", "attrquery"})
    /\ (s.mut \in {"body_first_other", "body_two"} => s.binding = "soap")
    /\ (s.mut \in {"dest_extends_path", "dest_extends_host"} => s.endpoint = "configured")   \* the request types with a child of minimum occurrence 1
    /\ (s.mut = "garbled_base64" => s.binding # "soap")
    /\ (s.endpoint = "otherBindingOnly" => s.binding = "post")    \* receiver publishes a redirect endpoint only
    /\ (s.mut = "dest_other_binding" => s.endpoint = "configured" /\ s.rtype \notin Queries)
    /\ (s.issuerKey = "nokey" => s.sig \in {"valid", "invalid"} /\ s.mut = "none" /\ s.endpoint = "configured")
    /\ (s.tz # "UTC" => s.mut \in {"none", "stale26h", "future26h"} /\ s.sig = "none" /\ ~s.want /\ ~s.certOnly /\ s.issuerKey = "known"
                          /\ s.endpoint = "configured")
    /\ (s.certOnly => s.rtype \in {"authn", "logout_idp", "attrquery"} /\ s.issuerKey = "known" /\ s.endpoint = "configured"
                      /\ s.mut \in {"none", "dest_foreign", "stale"} /\ ~s.want)

VARIABLES scn, pc, verdict
vars == <<scn, pc, verdict>>
Init == scn \in {s \in Scn : WellFormed(s)} /\ pc = "unravel" /\ verdict = "none"
Refuse == verdict' = "refuse" /\ pc' = "done" /\ UNCHANGED scn
Goto(p) == pc' = p /\ UNCHANGED <<scn, verdict>>

Unravel == pc = "unravel" /\ IF scn.mut \in {"garbled_base64", "garbled_deflate", "body_first_other", "body_two"} \/ scn.rtype = "authzquery" THEN Refuse ELSE Goto("signature")
\* signature_check: parse as the expected type, then _check_signature when a signature is there
Signature ==
    /\ pc = "signature"
    /\ IF scn.mut \in {"truncated_xml", "not_xml", "wrong_root"} THEN Refuse
       ELSE IF scn.sig = "none" THEN (IF scn.want \/ scn.certOnly THEN Refuse ELSE Goto("schema"))
       ELSE IF scn.issuerKey = "nokey" THEN Refuse          \* MissingKey: nothing to verify the signature with
       ELSE IF scn.sig = "valid" THEN Goto("schema")
       ELSE IF scn.sig = "invalid" /\ scn.certOnly /\ ~Fixed THEN Goto("schema")      \* pinned: "if verified or only_valid_cert"
       ELSE Refuse                                          \* invalid; wrapped (repaired _check_signature)
Schema == pc = "schema" /\ IF scn.mut \in {"schema", "schema_child", "schema_reqattr", "stale_offset", "future_offset", "bad_enum"} THEN Refuse ELSE Goto("verify")
\* Request._verify
DestChecked == scn.endpoint = "configured" \/ Fixed
Verify ==
    /\ pc = "verify"
    /\ IF scn.mut \in {"dest_foreign", "dest_other_binding", "dest_extends_path", "dest_extends_host"} /\ DestChecked
       THEN Refuse
       ELSE IF scn.mut \in {"stale", "future", "stale26h", "future26h", "version_11", "version_2"} THEN Refuse
       ELSE verdict' = "hand" /\ pc' = "done" /\ UNCHANGED scn

\* ---- contract
MustRefuse == \/ scn.mut \in {"dest_foreign", "stale", "future", "stale26h", "future26h", "version_11", "version_2", "wrong_root", "schema", "schema_child", "stale_offset", "future_offset", "dest_extends_path", "dest_extends_host", "bad_enum", "schema_reqattr", "body_first_other", "body_two", "garbled_base64",
                              "garbled_deflate", "truncated_xml", "not_xml"}
              \/ scn.sig \in {"invalid", "wrapped", "wrapped_ownref", "wrapped_prefix"}
              \/ (scn.sig # "none" /\ scn.issuerKey = "nokey")          \* a signature must verify under the issuer's metadata key
              \/ ((scn.want \/ scn.certOnly) /\ scn.sig = "none")
\* (the property is an "only if"; acceptance of valid requests is demanded as a sanity condition, except for the
\* authorisation-decision query, for which soap.py has no envelope parser: it can never be received over SOAP)
MustHand == /\ scn.rtype # "authzquery"
            /\ scn.mut \in {"none", "dest_absent"} /\ scn.endpoint = "configured" /\ scn.issuerKey = "known"
            /\ (scn.sig = "valid" \/ (scn.sig = "none" /\ ~scn.want /\ ~scn.certOnly))
Emit == /\ pc = "done" /\ pc' = "emitted" /\ UNCHANGED <<scn, verdict>>
        /\ PrintT(<<"CASE", ToJson([scn |-> scn, model |-> verdict, mustRefuse |-> MustRefuse, mustHand |-> MustHand])>>)
Next == Unravel \/ Signature \/ Schema \/ Verify \/ Emit
Spec == Init /\ [][Next]_vars
PipelineMeetsContract == pc \in {"done", "emitted"} =>
    (MustRefuse => verdict = "refuse") /\ (MustHand => verdict = "hand")
=============================================================================
