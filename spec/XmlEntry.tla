------------------------------- MODULE XmlEntry -------------------------------
(***************************************************************************)
(* C11 -- no XML entry point resolves entities, DTD content or external      *)
(* resources.  A hostile document is a set of constructs wrapped around an   *)
(* otherwise valid message of the type the entry point expects; the entry    *)
(* point table (constant EntryPoints) is extracted from the code at check    *)
(* time.  The pipeline is the defusing parser every call site must use       *)
(* (entity declarations refused at the declaration, nothing external ever    *)
(* fetched); Defused = FALSE models a plain parser (internal entities        *)
(* expanded) to show that the contract distinguishes the two.               *)
(***************************************************************************)
EXTENDS Naturals, Sequences, FiniteSets, TLC, Json
CONSTANTS EntryPoints, Defused, MaxConstructs

EntityDecls == {"entity_internal", "entity_external_file", "entity_external_http", "entity_parameter", "entity_chain"}
\* decl_latin1 / decl_utf16text: the document is handed over as text whose XML declaration names another
\* encoding than the one the text will be encoded in
\* additional_location: (metadata documents) an md:AdditionalMetadataLocation pointing at the canary host -- a pointer the
\* document offers, never something to be fetched because the document says so
Harmless   == {"doctype_plain", "external_dtd", "xinclude", "stylesheet_pi", "utf16", "bom", "decl_latin1", "decl_utf16text",
               "additional_location"}
\* bad_*: a complete document handed over as bytes that are not valid in its encoding (stray byte, overlong form,
\* cut multi-byte character, lone UTF-16 surrogate): a fatal error for any XML processor
BadEncoding == {"bad_utf8_byte", "bad_utf8_overlong", "bad_utf8_cut", "bad_utf16_surrogate"}
\* leading_text / leading_headers / trailing_text: a complete document with something that is not XML in front of it (a form
\* field name, an HTTP status line and headers) or behind it
Malformed  == {"truncate_open_tag", "truncate_mid_text", "truncate_before_close", "not_xml", "empty",
               "leading_text", "leading_headers", "trailing_text"} \cup BadEncoding
Constructs == EntityDecls \cup Harmless \cup Malformed
\* constructs that cannot be combined in one document
Compatible(w) == /\ Cardinality(w \cap Malformed) <= 1
                 /\ Cardinality(w \cap ({"utf16", "bom", "decl_latin1", "decl_utf16text"} \cup BadEncoding)) <= 1
                 /\ Cardinality(w \cap (EntityDecls \cup {"doctype_plain", "external_dtd"})) <= 1     \* one DOCTYPE
                 /\ ("not_xml" \in w \/ "empty" \in w => Cardinality(w) = 1)
\* built from below (SUBSET Constructs has millions of members)
Upto(n) == {{}} \cup {{a} : a \in Constructs}
           \cup (IF n >= 2 THEN {{a, b} : a \in Constructs, b \in Constructs} ELSE {})
           \cup (IF n >= 3 THEN {{a, b, c} : a \in Constructs, b \in Constructs, c \in Constructs} ELSE {})
Words == {w \in Upto(MaxConstructs) : Compatible(w)}
ASSUME MaxConstructs \in 1..3

VARIABLES entry, word, pc, outcome, io
vars == <<entry, word, pc, outcome, io>>
Init == entry \in EntryPoints /\ word \in Words /\ pc = "parse" /\ outcome = "none" /\ io = FALSE
Parse == /\ pc = "parse" /\ pc' = "done" /\ UNCHANGED <<entry, word>>
         /\ IF word \cap Malformed # {} THEN outcome' = "refused" /\ io' = FALSE
            ELSE IF word \cap EntityDecls # {}
                 THEN IF Defused THEN outcome' = "refused" /\ io' = FALSE            \* EntitiesForbidden
                      ELSE outcome' = "object" /\ io' = FALSE                        \* plain expat: internal entities expanded
            ELSE outcome' = "object" /\ io' = FALSE
\* a declaration that contradicts the actual encoding may be refused or parsed; with entity declarations it is refused
MustRefuse == word \cap EntityDecls # {} \/ word \cap Malformed # {}
Emit == /\ pc = "done" /\ pc' = "emitted" /\ UNCHANGED <<entry, word, outcome, io>>
        /\ PrintT(<<"CASE", ToJson([entry |-> entry, word |-> word, model |-> outcome, mustRefuse |-> MustRefuse])>>)
Next == Parse \/ Emit
Spec == Init /\ [][Next]_vars
Contract == pc \in {"done", "emitted"} => ~io /\ (MustRefuse => outcome = "refused")
=============================================================================
