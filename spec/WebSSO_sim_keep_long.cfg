SPECIFICATION SimSpec
CONSTANTS
  Users = {"u1", "u2"}
  MaxReq = 2
  MaxResp = 3
  AllowUnsolicited = FALSE
  Forget = FALSE
  Depth = 12
CHECK_DEADLOCK FALSE
