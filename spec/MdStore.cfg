SPECIFICATION Spec
INVARIANT PipelineMeetsContract
INVARIANT NoExpired
INVARIANT SignedOnly
CHECK_DEADLOCK FALSE
