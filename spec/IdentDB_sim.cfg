SPECIFICATION SimSpec
CONSTANTS
  User = {u1, u2, u3}
  SPq = {"s1", "s2", "s3"}
  NQs = {"q", ""}
  SPIDs = {"p1", "p2"}
  MaxTok = 12
  Depth = 40
CHECK_DEADLOCK FALSE
