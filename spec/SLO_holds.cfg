SPECIFICATION Spec
CONSTANTS
  IdP = {"i1", "i2", "i3"}
  Soap = {"i3"}
  MaxReq = 6
INVARIANT TypeOK
INVARIANT LocalLogoutOnlyWhenDone
INVARIANT AnswerFindsEntry
CHECK_DEADLOCK FALSE
