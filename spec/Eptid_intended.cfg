SPECIFICATION Spec
CONSTANT AsCoded = FALSE
INVARIANT Stable
INVARIANT OwnValue
INVARIANT Injective
CHECK_DEADLOCK FALSE
