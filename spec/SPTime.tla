-------------------------------- MODULE SPTime --------------------------------
(***************************************************************************)
(* C04 -- validity windows: StatusResponse.issue_instant_ok,                *)
(* AuthnResponse.authn_statement_ok / condition_ok / _bearer_confirmed,     *)
(* validate.validate_on_or_after / validate_before, session_info().         *)
(*                                                                         *)
(* Time is integer seconds relative to now = 0.  A scenario chooses which   *)
(* optional bounds are present, puts one of them ("focus") on a grid of     *)
(* offsets around the edge that matters for it, keeps the others            *)
(* comfortably valid, and chooses the allowance and the time-stamp          *)
(* spelling.  The pipeline evaluates the checks in the code's order; the    *)
(* contract is the property (instants equal to an edge are left open).      *)
(***************************************************************************)
EXTENDS Integers, Sequences, FiniteSets, TLC, Json

CONSTANTS Slacks, Spellings

Day == 86400
Far == 200000
Bounds == {"cNB", "cNOOA", "sNOOA", "sNB", "sess"}             \* optional bounds
Focus  == Bounds \cup {"issueLow", "issueHigh", "cOrder", "sOrder"}
\* distinguished instants, as distances from the harness clock (1700000000): the Unix epoch itself -- the value a
\* "no time" test mistakes for absence -- and 2^31 seconds after it
EpochD == -1700000000
Y2038D == 447483648
Ds == {-Far, -2, -1, 0, 1, 2, Far, EpochD, Y2038D}            \* distance from the edge, in seconds
Ks == {0, 1, 2}                                               \* additional multiples of the allowance

\* conf2: a second bearer confirmation, comfortably valid, before or after the one the scenario varies
Conf2 == {"none", "validFirst", "validSecond"}
\* stmt2: a second AuthnStatement after the one the scenario varies, its SessionNotOnOrAfter comfortably valid or long past.
\* (The library takes exactly one statement: two are refused as such, which the acceptance side leaves open.)
Stmt2 == {"none", "valid", "expired"}
Scn == [present : SUBSET Bounds, focus : Focus, d : Ds, k : Ks, slack : Slacks, spelling : Spellings, conf2 : Conf2, stmt2 : Stmt2,
        tz : {"UTC", "east9", "west5"},          \* time zone of the SP process: instants are UTC whatever it is
        \* the Conditions element holds an AudienceRestriction, or nothing but its two time attributes
        condKids : {"audience", "none"}]

Comfort(b) == IF b \in {"cNB", "sNB"} THEN -3 * Day ELSE 3 * Day

\* the instant a bound carries in scenario s; "absent" when it is not in the document
Val(s, b) ==
    IF b \notin s.present THEN 0          \* never used: every use is guarded by P(b)
    ELSE CASE s.focus = b /\ b \in {"cNOOA", "sNOOA", "sess"} -> (0 - s.slack) + s.d + s.k * s.slack
           [] s.focus = b /\ b \in {"cNB", "sNB"}             -> s.slack - s.d - s.k * s.slack
           [] s.focus = "cOrder" /\ b = "cNB"   -> 10 + s.d
           [] s.focus = "cOrder" /\ b = "cNOOA" -> 10
           [] s.focus = "sOrder" /\ b = "sNB"   -> 10 + s.d
           [] s.focus = "sOrder" /\ b = "sNOOA" -> 10
           [] OTHER -> Comfort(b)
Issue(s) == CASE s.focus = "issueLow"  -> 0 - Day - s.slack + s.d + s.k * s.slack
              [] s.focus = "issueHigh" -> Day + s.slack - s.d - s.k * s.slack
              [] OTHER -> -5

\* scenarios that make sense: the focused bound is present; order scenarios need both ends and an
\* allowance that lets both ends pass on their own
WellFormed(s) ==
    /\ (s.focus \in Bounds => s.focus \in s.present)
    /\ (s.focus = "cOrder" => {"cNB", "cNOOA"} \subseteq s.present /\ s.slack >= 60 /\ s.d \in -2..2 /\ s.k = 0)
    /\ (s.focus = "sOrder" => {"sNB", "sNOOA"} \subseteq s.present /\ s.slack >= 60 /\ s.d \in -2..2 /\ s.k = 0)
    /\ (s.k > 0 => s.slack > 0 /\ s.d # Far /\ s.d # -Far)
    /\ (s.focus \in {"issueLow", "issueHigh"} => s.d # -Far)
    /\ (s.d \in {EpochD, Y2038D} => /\ s.focus \in {"cNOOA", "sNOOA", "sess"} /\ s.slack = 0 /\ s.k = 0 /\ s.spelling = "Z"
                                    /\ s.conf2 = "none" /\ s.stmt2 = "none" /\ s.tz = "UTC")
    /\ (s.condKids = "none" => /\ s.focus \in {"cNB", "cNOOA", "cOrder"} /\ s.k = 0 /\ s.spelling = "Z" /\ s.conf2 = "none" /\ s.stmt2 = "none"
                               /\ s.tz = "UTC" /\ s.slack \in {0, 60} /\ s.d \notin {EpochD, Y2038D})
    /\ (s.conf2 # "none" => s.focus \in {"sNOOA", "sNB", "sOrder"} /\ s.k = 0 /\ s.spelling = "Z")
    /\ (s.spelling \in {"offPlus", "offMinus"} => s.k = 0 /\ s.slack \in {0, 60})
    /\ (s.tz # "UTC" => s.conf2 = "none" /\ s.stmt2 = "none" /\ s.k = 0 /\ s.spelling = "Z" /\ s.slack \in {0, 60} /\ s.d \in {-2, 2, -Far, Far})
    /\ (s.stmt2 # "none" => s.conf2 = "none" /\ s.k = 0 /\ s.spelling = "Z" /\ s.slack \in {0, 60} /\ s.d \in {-Far, Far} /\ s.focus \in {"sess", "cNOOA"})

VARIABLES scn, pc, verdict, nooa
vars == <<scn, pc, verdict, nooa>>

Init == /\ scn \in {s \in Scn : WellFormed(s)} /\ pc = "issue" /\ verdict = "none" /\ nooa = 0

Reject  == verdict' = "reject" /\ pc' = "done" /\ UNCHANGED <<scn, nooa>>
Goto(p) == pc' = p /\ UNCHANGED <<scn, verdict, nooa>>
P(b) == b \in scn.present
V(b) == Val(scn, b)

\* validate_on_or_after: raises when now > nooa + slack;  validate_before: raises when nb > now + slack
TooOld(b)   == P(b) /\ 0 > V(b) + scn.slack
TooEarly(b) == P(b) /\ V(b) > scn.slack

\* issue_instant_ok compares time tuples: datetime.timetuple() carries tm_isdst = -1, gmtime 0, so an
\* instant equal to the lower edge passes and one equal to the upper edge does not
\* spellings with a numeric time-zone offset ("offPlus": +02:00, "offMinus": -05:00) denote the same instants; SAML
\* demands the UTC form, the library's schema validation refuses everything else (valid_date_time), so such a response
\* never gets as far as the time checks -- and must never be accepted outside a window either
Offsets == {"offPlus", "offMinus"}
IssueInstant == /\ pc = "issue"
                /\ IF scn.spelling \in Offsets THEN Reject
                   ELSE IF Issue(scn) < 0 - Day - scn.slack \/ Issue(scn) >= Day + scn.slack THEN Reject ELSE Goto("authn")
AuthnStmt    == pc = "authn" /\ IF scn.stmt2 # "none" \/ TooOld("sess") THEN Reject ELSE Goto("conditions")
Conditions   == /\ pc = "conditions"
                /\ IF \/ (P("cNB") /\ P("cNOOA") /\ V("cNOOA") < V("cNB"))
                      \/ TooOld("cNOOA") \/ TooEarly("cNB")
                   THEN Reject ELSE Goto("bearer")
\* _bearer_confirmed: a confirmation outside its window, or whose NotBefore is later than its NotOnOrAfter
\* (repaired: used to be skipped), fails the response; one with a NotBefore only is merely not confirmed and
\* skipped -- with no other confirmation left there is no valid subject confirmation
Inverted == P("sNB") /\ P("sNOOA") /\ V("sNOOA") < V("sNB")
Unconfirmed == P("sNB") /\ ~P("sNOOA")
Bearer == /\ pc = "bearer"
          /\ IF \/ TooOld("sNOOA") \/ TooEarly("sNB") \/ Inverted
                \/ (Unconfirmed /\ scn.conf2 = "none")
             THEN Reject
             ELSE /\ verdict' = "accept" /\ pc' = "done" /\ UNCHANGED scn
                  /\ nooa' = IF P("sess") THEN V("sess") ELSE IF P("cNOOA") THEN V("cNOOA") ELSE 0

(***************************************************************************)
(* Contract                                                                *)
(***************************************************************************)
NooaBounds == {"cNOOA", "sNOOA", "sess"}
NbBounds == {"cNB", "sNB"}
MustReject ==
    \/ scn.stmt2 = "expired"                                        \* any SessionNotOnOrAfter that is present
    \/ \E b \in NooaBounds : P(b) /\ 0 - scn.slack > V(b)          \* now, widened, later than a NotOnOrAfter
    \/ \E b \in NbBounds : P(b) /\ scn.slack < V(b)                \* now, widened, earlier than a NotBefore
    \/ (P("cNB") /\ P("cNOOA") /\ V("cNB") > V("cNOOA"))
    \/ (P("sNB") /\ P("sNOOA") /\ V("sNB") > V("sNOOA"))
    \/ Issue(scn) > Day + scn.slack \/ Issue(scn) < 0 - Day - scn.slack
\* profile-conformant shape, every present bound satisfied with more than the allowance to spare
MustAccept ==
    /\ scn.stmt2 = "none"
    /\ scn.spelling \notin Offsets                 \* not the UTC form: not profile-conformant
    /\ "sNOOA" \in scn.present /\ "sNB" \notin scn.present
    /\ \A b \in NooaBounds : P(b) => V(b) > scn.slack
    /\ \A b \in NbBounds : P(b) => V(b) < 0 - scn.slack
    /\ (P("cNB") /\ P("cNOOA") => V("cNB") < V("cNOOA"))
    /\ Issue(scn) < Day - scn.slack /\ Issue(scn) > scn.slack - Day
ExpiryKnown == P("sess") \/ P("cNOOA")
ExpectedExpiry == IF P("sess") THEN V("sess") ELSE V("cNOOA")

Emit == /\ pc = "done" /\ pc' = "emitted"
        /\ PrintT(<<"CASE", ToJson([scn |-> [present |-> scn.present, focus |-> scn.focus, d |-> scn.d, k |-> scn.k,
                                             slack |-> scn.slack, spelling |-> scn.spelling, conf2 |-> scn.conf2, stmt2 |-> scn.stmt2, tz |-> scn.tz,
                                             condKids |-> scn.condKids],
                                    vals |-> [b \in Bounds |-> IF P(b) THEN ToString(V(b)) ELSE "absent"], issue |-> Issue(scn),
                                    model |-> verdict, mustAccept |-> MustAccept, mustReject |-> MustReject,
                                    expiry |-> IF ExpiryKnown THEN ToString(ExpectedExpiry) ELSE "unspecified"])>>)
        /\ UNCHANGED <<scn, verdict, nooa>>
Next == IssueInstant \/ AuthnStmt \/ Conditions \/ Bearer \/ Emit
Spec == Init /\ [][Next]_vars

PipelineMeetsContract == pc \in {"done", "emitted"} =>
    /\ (MustReject => verdict = "reject") /\ (MustAccept => verdict = "accept")
    /\ (verdict = "accept" /\ ExpiryKnown => nooa = ExpectedExpiry)
ContractConsistent == ~(MustAccept /\ MustReject)
=============================================================================
