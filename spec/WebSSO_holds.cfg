SPECIFICATION Spec
CONSTANTS
  Users = {"u1", "u2"}
  MaxReq = 2
  MaxResp = 3
  AllowUnsolicited = FALSE
  Forget = TRUE
INVARIANT TypeOK
INVARIANT SessionHasCause
PROPERTY SolicitedOnly
PROPERTY NoLateLogin
PROPERTY LogoutIsTargeted
PROPERTY NoReplay
CHECK_DEADLOCK FALSE
