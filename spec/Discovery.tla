------------------------------- MODULE Discovery -------------------------------
(***************************************************************************)
(* Growth beyond the listed properties: the identity-provider discovery      *)
(* protocol (Base.create_discovery_service_request /                         *)
(* parse_discovery_service_response).  Same token model of a URL as          *)
(* Bindings.tla: structural separators are tokens of their own, payload      *)
(* characters are escaped or left alone as urlencode does.                   *)
(*                                                                         *)
(* Request: discovery-service URL (with or without a query of its own) +     *)
(* entityID, return, policy, returnIDParam, isPassive.  An independent reader *)
(* must recover exactly the parameters that were given, the service's own     *)
(* parameter included (RequestExact).  GlueFixed = FALSE is the code: the     *)
(* parameters are always attached with "?".                                  *)
(* Response: the URL the user comes back with; the identifier is the first    *)
(* value of the agreed parameter, "" when it is absent (ResponseExact).       *)
(***************************************************************************)
EXTENDS Naturals, Sequences, FiniteSets, TLC, Json
CONSTANTS Alphabet, GlueFixed

Strings == {<<>>} \cup {<<c>> : c \in Alphabet}
None == <<"none">>
Passive == {"absent", "true", "false"}
Scn == [kind : {"request"}, dsq : BOOLEAN, entity : Strings \ {<<>>}, ret : Strings \cup {None}, policy : {None, <<"a">>},
        idparam : {None, <<"a">>, <<"amp">>}, passive : Passive, value : {None}, other : {FALSE}]
       \cup [kind : {"response"}, dsq : BOOLEAN, entity : {<<"a">>}, ret : {None}, policy : {None}, idparam : {None, <<"a">>, <<"amp">>},
             passive : {"absent"}, value : Strings \cup {None}, other : BOOLEAN]

UrlSafe == {"a", "2"}
UrlEsc(s) == [i \in 1..Len(s) |-> IF s[i] \in UrlSafe THEN s[i] ELSE "pct_" \o s[i]]
Param(name, val) == <<name, "EQ">> \o val
RECURSIVE JoinAmp(_)
JoinAmp(ps) == IF ps = <<>> THEN <<>> ELSE IF Len(ps) = 1 THEN ps[1] ELSE ps[1] \o <<"AMP">> \o JoinAmp(Tail(ps))
Service(s) == IF s.dsq THEN <<"ds", "QM", "x", "EQ", "one">> ELSE <<"ds">>
Glue(s) == IF s.dsq /\ GlueFixed THEN <<"AMP">> ELSE <<"QM">>
ReqParams(s) ==
    << Param("entityID", UrlEsc(s.entity)) >>
    \o (IF s.policy # None THEN << Param("policy", UrlEsc(s.policy)) >> ELSE <<>>)
    \o (IF s.idparam # None THEN << Param("returnIDParam", UrlEsc(s.idparam)) >> ELSE <<>>)
    \o (IF s.ret # None THEN << Param("return", UrlEsc(s.ret)) >> ELSE <<>>)
    \o (IF s.passive # "absent" THEN << Param("isPassive", <<s.passive>>) >> ELSE <<>>)
Wire(s) == Service(s) \o Glue(s) \o JoinAmp(ReqParams(s))

RECURSIVE SplitAt(_, _, _)
SplitAt(q, sep, cur) == IF q = <<>> THEN <<cur>>
                        ELSE IF Head(q) = sep THEN <<cur>> \o SplitAt(Tail(q), sep, <<>>)
                        ELSE SplitAt(Tail(q), sep, Append(cur, Head(q)))
AllChars == Alphabet \cup {"a", "2", "one", "true", "false"}
UnescTok(t) == IF \E c \in AllChars : t = "pct_" \o c THEN CHOOSE c \in AllChars : t = "pct_" \o c ELSE t
Unesc(s) == [i \in 1..Len(s) |-> UnescTok(s[i])]
QueryOf(w) == LET parts == SplitAt(w, "QM", <<>>) IN IF Len(parts) = 2 THEN parts[2] ELSE <<"MALFORMED">>
ParamsRead(w) == LET ps == SplitAt(QueryOf(w), "AMP", <<>>) IN
                 [i \in 1..Len(ps) |-> LET kv == SplitAt(ps[i], "EQ", <<>>) IN
                                       IF Len(kv) = 2 /\ Len(kv[1]) = 1 THEN <<kv[1][1], Unesc(kv[2])>> ELSE <<"MALFORMED", ps[i]>>]
Range(q) == {q[i] : i \in 1..Len(q)}
Expected(s) ==
    (IF s.dsq THEN {<<"x", <<"one">>>>} ELSE {}) \cup {<<"entityID", s.entity>>}
    \cup (IF s.policy # None THEN {<<"policy", s.policy>>} ELSE {})
    \cup (IF s.idparam # None THEN {<<"returnIDParam", s.idparam>>} ELSE {})
    \cup (IF s.ret # None THEN {<<"return", s.ret>>} ELSE {})
    \cup (IF s.passive # "absent" THEN {<<"isPassive", <<s.passive>>>>} ELSE {})

VARIABLES scn, pc
vars == <<scn, pc>>
Init == scn \in Scn /\ pc = "go"
RequestExact == scn.kind = "request" =>
    /\ Range(ParamsRead(Wire(scn))) = Expected(scn)
    /\ Len(ParamsRead(Wire(scn))) = Cardinality(Expected(scn))
Emit == /\ pc = "go" /\ pc' = "done" /\ UNCHANGED scn
        /\ PrintT(<<"CASE", ToJson([scn |-> scn, modelOK |-> RequestExact])>>)
Spec == Init /\ [][Emit]_vars
=============================================================================
