SPECIFICATION Spec
CONSTANTS
  Ent = {"kA", "kB", "kC"}
  Algs = {"sha1", "sha256"}
  Muts = {"none", "msg_changed"}
  MaxWire = 3
  Shared = FALSE
  KeyCache = TRUE
  MaxGen = 1
INVARIANT TypeOK
INVARIANT KeyOwnership
INVARIANT VerifiesOnlyOwn
VIEW View
CHECK_DEADLOCK FALSE
