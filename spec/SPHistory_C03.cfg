SPECIFICATION Spec
CONSTANTS
  Memo = "none"
  MsgKeys = {"kIdp1", "kIdp1b", "kAttacker"}
  Edits = {FALSE}
  EnvActs = {"roll"}
  Levels = {"response", "assertion"}
  Deliveries = 2
INVARIANT HistoryIndependent
CHECK_DEADLOCK FALSE
