SPECIFICATION Spec
CONSTANTS
  Memo = "none"
  MsgKeys = {"kIdp1", "kIdp1b"}
  Edits = {FALSE, TRUE}
  EnvActs = {"tick", "roll"}
  Levels = {"assertion"}
  Deliveries = 3
INVARIANT HistoryIndependent
CHECK_DEADLOCK FALSE
