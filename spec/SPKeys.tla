-------------------------------- MODULE SPKeys --------------------------------
(***************************************************************************)
(* C03 -- which keys a signature is trusted under:                          *)
(* SecurityContext._check_signature (certificate selection),                *)
(* MetaData.certs(entity, "any", "signing"), only_use_keys_in_metadata.     *)
(*                                                                         *)
(* Federation: idp1 with one of several key-descriptor layouts (or missing  *)
(* from metadata), idp2 with its own signing key.  Scenario: who the signed *)
(* element claims as Issuer, which key really signed, which certificate is  *)
(* embedded in the signature's KeyInfo, the flag, the signature level.      *)
(***************************************************************************)
EXTENDS Naturals, Sequences, FiniteSets, TLC, Json

\* "kBexp": a key whose certificate expired years ago
Keys == {"kIdp1", "kIdp1b", "kIdp2", "kAttacker", "kBexp"}
\* "signExpired": the signing certificate metadata holds for idp1 has expired.  It is still the only key metadata names for
\* idp1: whatever the receiver makes of its dates, no other key becomes trusted in its place.
\* "noStore": the receiver has no metadata at all (nothing configured, or a store with no source): nobody is known, and with
\* the default setting nothing in a message can change that
Layouts == {"sign", "sign2", "encOnly", "noUse", "signAndEnc", "noKeys", "absent", "signExpired", "noStore"}
\* key descriptors (key, use) of idp1 per layout; "none" = no use attribute
Descr(l) == CASE l = "sign"   -> {<<"kIdp1", "signing">>}
              [] l = "sign2"  -> {<<"kIdp1", "signing">>, <<"kIdp1b", "signing">>}
              [] l = "encOnly" -> {<<"kIdp1", "encryption">>}
              [] l = "noUse"  -> {<<"kIdp1", "none">>}
              [] l = "signAndEnc" -> {<<"kIdp1", "signing">>, <<"kIdp1b", "encryption">>}
              [] l = "signExpired" -> {<<"kBexp", "signing">>}
              [] OTHER -> {}
\* "idp1case": the identifier of idp1 in another letter case -- another entity, one that metadata does not know
Issuers == {"idp1", "idp2", "unknown", "idp1case"}
\* level "request": the same certificate selection on the other side -- an identity provider receiving a signed
\* AuthnRequest; "idp1" / "idp2" then name two service providers in the receiver's metadata (the keys are just keys)
Scn == [layout : Layouts, issuer : Issuers, signKey : Keys, embedded : Keys \cup {"none"},
        flag : BOOLEAN, level : {"response", "assertion", "request"},
        \* for assertion-level signatures: the Issuer of the enclosing (unsigned) Response -- the same entity, or one of the
        \* known identity providers.  Trust follows the Issuer of the element that is signed, not the envelope it travels in.
        outer : {"same", "idp1", "idp2"},
        \* priorEnc: the same metadata store was asked for the issuer's *encryption* certificates just before (as an entity
        \* does whenever it encrypts something for that peer).  What is trusted for signing does not depend on it.
        priorEnc : BOOLEAN,
        \* respIssuer: a signed Response that carries no Issuer element of its own (the assertion inside names scn.issuer).
        \* The signed element then names nobody: no metadata key is the right one for it.
        respIssuer : {"present", "absent"},
        \* certOnly: (requests) the receiver has want_authn_requests_only_with_valid_cert set.  It adds a demand, it opens
        \* no other source of keys.
        certOnly : BOOLEAN]
WellFormed(s) == /\ (s.layout = "noStore" => s.level \in {"response", "assertion"} /\ s.outer = "same" /\ ~s.priorEnc /\ s.respIssuer = "present" /\ ~s.certOnly)
                 /\ (s.respIssuer = "absent" => s.level = "response" /\ s.outer = "same" /\ ~s.priorEnc /\ s.issuer \in {"idp1", "idp2"})
                 /\ (s.certOnly => s.level = "request" /\ ~s.priorEnc /\ s.outer = "same")
                 /\ (s.signKey = "kBexp" \/ s.embedded = "kBexp") => s.layout = "signExpired"
                 /\ s.layout = "signExpired" => s.outer = "same" /\ ~s.priorEnc
                 /\ s.outer # "same" => s.level = "assertion" /\ s.outer # s.issuer
                 /\ s.priorEnc => s.outer = "same" /\ s.layout \in {"signAndEnc", "encOnly", "sign"} /\ s.embedded = "none"

VARIABLES scn, pc, certs, verdict
vars == <<scn, pc, certs, verdict>>

\* the entity the signed element itself names
SignedIssuer == IF scn.respIssuer = "absent" THEN "nobody" ELSE scn.issuer
InMetadata(i)  == scn.layout # "noStore" /\ (i = "idp2" \/ (i = "idp1" /\ scn.layout # "absent"))
Descriptors(i) == IF scn.layout = "noStore" THEN {} ELSE IF i = "idp2" THEN {<<"kIdp2", "signing">>} ELSE IF i = "idp1" THEN Descr(scn.layout) ELSE {}
\* the signing certificates metadata holds for an entity: use="signing" or no use attribute
Trusted(i) == {d[1] : d \in {x \in Descriptors(i) : x[2] \in {"signing", "none"}}}

Init == scn \in {s \in Scn : WellFormed(s)} /\ pc = "select" /\ certs = {} /\ verdict = "none"
Done(v) == verdict' = v /\ pc' = "done" /\ UNCHANGED <<scn, certs>>
\* certificate selection of _check_signature
Select == /\ pc = "select"
          /\ LET md == IF InMetadata(SignedIssuer) THEN Trusted(SignedIssuer) ELSE {}
                 cs == IF md = {} /\ ~scn.flag THEN (IF scn.embedded = "none" THEN {} ELSE {scn.embedded}) ELSE md
             IN IF cs = {} THEN Done("reject")                      \* MissingKey
                ELSE certs' = cs /\ pc' = "verify" /\ UNCHANGED <<scn, verdict>>
\* one tool run per certificate until one verifies
\* (a response without Issuer gets no further than the signature layer: the SP reads the issuer next and fails)
Verify == pc = "verify" /\ Done(IF scn.signKey \in certs /\ scn.respIssuer = "present" THEN "accept" ELSE "reject")

MayAccept == \/ scn.signKey \in Trusted(SignedIssuer)
             \/ (~scn.flag /\ Trusted(SignedIssuer) = {} /\ scn.signKey = scn.embedded)
MustReject == ~MayAccept
\* (whether a signature under the expired certificate itself still counts is left open)
MustAccept == scn.signKey \in Trusted(SignedIssuer) /\ scn.outer = "same" /\ scn.signKey # "kBexp" /\ ~scn.certOnly

Emit == /\ pc = "done" /\ pc' = "emitted"
        /\ PrintT(<<"CASE", ToJson([scn |-> scn, model |-> verdict, mustAccept |-> MustAccept, mustReject |-> MustReject,
                                    descriptors |-> Descr(scn.layout)])>>)
        /\ UNCHANGED <<scn, certs, verdict>>
Next == Select \/ Verify \/ Emit
Spec == Init /\ [][Next]_vars
PipelineMeetsContract == pc \in {"done", "emitted"} =>
    (MustReject => verdict = "reject") /\ (MustAccept => verdict = "accept")
\* embedded certificates are never trusted with the default setting
DefaultNeverTrustsEmbedded == pc \in {"done", "emitted"} /\ scn.flag /\ verdict = "accept" => scn.signKey \in Trusted(SignedIssuer)
=============================================================================
