SPECIFICATION SimSpec
CONSTANTS
  IdP = {"i1", "i2", "i3"}
  Soap = {"i3"}
  MaxReq = 8
  Depth = 12
CHECK_DEADLOCK FALSE
