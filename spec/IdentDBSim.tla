------------------------------ MODULE IdentDBSim ------------------------------
EXTENDS IdentDBMC
CONSTANT Depth
VARIABLE hist
svars == <<fwd, rev, fresh, last, hist>>
SimInit == Init /\ hist = <<>>
\* removal of a local user is nondeterministic in the specification: the code decides, so
\* it is left to the recorded traces (code -> spec); behaviours do not contain it
Step == /\ Len(hist) < Depth
        /\ Next
        /\ last'.op \notin {"RemoveLocal", "RemoveRemoteStale"}
        /\ hist' = Append(hist, last')
Finish == /\ Len(hist) = Depth \/ (fresh > MaxTok /\ Len(hist) > 5)
          /\ Len(hist) = 0 \/ hist[Len(hist)].op # "End"
          /\ PrintT(<<"CASE", ToJson(hist)>>)
          /\ hist' = Append(hist, [op |-> "End"])
          /\ UNCHANGED vars
SimNext == Step \/ Finish
SimSpec == SimInit /\ [][SimNext]_svars
=============================================================================
