SPECIFICATION Spec
CONSTANTS
  Alphabet = {"a", "amp", "eq", "qm", "hash", "pct", "plus", "space", "eacute", "slash", "colon"}
  GlueFixed = FALSE

CHECK_DEADLOCK FALSE
