------------------------------ MODULE IdPAnswer ------------------------------
(***************************************************************************)
(* C09 -- where an IdP answers: Entity.response_args / pick_binding over the *)
(* requester's metadata (MetadataStore.assertion_consumer_service /         *)
(* single_logout_service).                                                 *)
(***************************************************************************)
EXTENDS Naturals, Sequences, FiniteSets, TLC, Json

Post == "POST"  Redirect == "Redirect"  Artifact == "Artifact"  Soap == "SOAP"
SimpleSign == "SimpleSign"            \* HTTP-POST-SimpleSign: a binding of its own, not HTTP-POST
\* ACS endpoints of sp1 per metadata layout, in document order: <<binding, location, index>>
Layouts == {"L1", "L2", "L3", "L4", "L5"}
Acs(l) == CASE l = "L1" -> << <<Post, "url1", 1>> >>
            [] l = "L2" -> << <<Post, "url1", 1>>, <<Post, "url2", 2>>, <<Redirect, "url3", 3>> >>
            [] l = "L3" -> << <<Redirect, "url3", 1>> >>
            [] l = "L4" -> << <<Artifact, "url4", 2>>, <<Post, "url1", 1>> >>
            [] l = "L5" -> << <<SimpleSign, "url5", 1>>, <<Redirect, "url3", 2>> >>
Slo(l) == IF l \in {"L3", "L5"} THEN <<>> ELSE << <<Soap, "slo1", 0>>, <<Redirect, "slo2", 0>> >>
AcsOther == << <<Post, "urlB", 1>> >>                \* the other SP (sp2)
SloOther == << <<Redirect, "sloB", 0>> >>

\* "sp1-slash" / "sp1-case": sp1's entity id with a trailing slash / in another letter case -- names nobody registered
Issuers == {"sp1", "sp2", "unknown", "sp1-slash", "sp1-case"}
Known(i) == i \in {"sp1", "sp2"}
\* the entity ids of the providers are URNs, or URLs (what most federations use)
IdStyles == {"urn", "url"}
Urls == {"absent", "url1", "url2", "url3", "url5", "urlB", "url1-case", "url1-slash", "url1-query", "url1-port", "url1-prefix", "url1-parent", "url1-pct",
         \* url1 under another scheme, without a scheme
         "url1-http", "url1-noscheme", "unregistered"}
Indexes == {"absent", "1", "2", "9"}
PBind == {"absent", Post, Redirect, Artifact, "PAOS", "bogus"}
\* the server is long-lived: prev is the authentication request it answered just before (none, sp1 naming url1, sp2 naming
\* urlB).  Where it answers now is a function of the present request and the requester's metadata alone.
Prev == {"none", "sp1_url1", "sp2_urlB"}
\* signed: the authentication request carries a valid enveloped signature of the requester (delivered over HTTP-POST).  A
\* signature authenticates the requester; it does not register endpoints.
Scn == [typ : {"authn"}, layout : Layouts, issuer : Issuers, url : Urls, index : Indexes, pbinding : PBind, prev : Prev, signed : BOOLEAN,
        idStyle : IdStyles]
       \cup [typ : {"logout"}, layout : Layouts, issuer : Issuers, url : {"absent"}, index : {"absent"}, pbinding : {"absent"}, prev : Prev,
             signed : {FALSE}, idStyle : IdStyles]
WellFormed(s) == /\ s.signed => Known(s.issuer) /\ s.prev = "none" /\ s.index = "absent"
                 /\ s.url = "url5" => s.layout = "L5" /\ s.prev = "none" /\ ~s.signed
                 /\ s.layout = "L5" => s.prev = "none" /\ ~s.signed /\ s.idStyle = "urn"
                 /\ s.idStyle = "url" => s.prev = "none" /\ ~s.signed /\ s.layout \in {"L1", "L2"} /\ s.index = "absent"
                 /\ s.issuer \in {"sp1-slash", "sp1-case"} => s.prev = "none" /\ ~s.signed /\ s.index = "absent"

VARIABLES scn, pc, result
vars == <<scn, pc, result>>
Init == scn \in {s \in Scn : WellFormed(s)} /\ pc = "pick" /\ result = <<"none", "none">>

Endpoints(s) == IF s.issuer = "sp1" THEN (IF s.typ = "authn" THEN Acs(s.layout) ELSE Slo(s.layout))
                ELSE IF s.issuer = "sp2" THEN (IF s.typ = "authn" THEN AcsOther ELSE SloOther) ELSE <<>>
Registered(s) == {<<Endpoints(s)[i][1], Endpoints(s)[i][2]>> : i \in 1..Len(Endpoints(s))}
OfBinding(q, b) == SelectSeq(q, LAMBDA e : e[1] = b)

\* the bindings tried, in order
Tried == IF scn.pbinding # "absent" THEN <<scn.pbinding>>
         ELSE IF scn.typ = "authn" THEN <<Post, Redirect, Artifact>> ELSE <<Soap, Redirect, Post, Artifact>>

Err == <<"error", "error">>
RECURSIVE Pick(_)
Pick(bs) ==
    IF bs = <<>> THEN Err
    ELSE LET srvs == OfBinding(Endpoints(scn), Head(bs)) IN
         IF srvs = <<>> THEN Pick(Tail(bs))
         ELSE IF scn.url # "absent"
              THEN (IF \E i \in 1..Len(srvs) : srvs[i][2] = scn.url THEN <<Head(bs), scn.url>> ELSE Pick(Tail(bs)))
              ELSE <<Head(bs), srvs[1][2]>>          \* the index of an AuthnRequest is never looked at

Answer == /\ pc = "pick" /\ pc' = "done" /\ UNCHANGED scn
          /\ result' = IF ~Known(scn.issuer) THEN Err ELSE Pick(Tried)

\* ---- contract
MustRefuse == \/ ~Known(scn.issuer)
              \/ (scn.url # "absent" /\ \A e \in Registered(scn) : e[2] # scn.url)
ResultOK(r) == r = Err \/ (r \in Registered(scn) /\ (scn.url # "absent" => r[2] = scn.url))
\* (an endpoint registered under a binding the IdP does not answer over -- HTTP-POST-SimpleSign -- obliges to nothing)
TriedSet == {Tried[i] : i \in 1..Len(Tried)}
Answerable(s) == {<<Endpoints(s)[i][1], Endpoints(s)[i][2]>> : i \in {j \in 1..Len(Endpoints(s)) : Endpoints(s)[j][1] \in TriedSet}}
MustAnswer == /\ Known(scn.issuer) /\ scn.pbinding = "absent"
              /\ \/ (scn.url = "absent" /\ Answerable(scn) # {})
                 \/ (scn.url # "absent" /\ \E e \in Answerable(scn) : e[2] = scn.url)
Emit == /\ pc = "done" /\ pc' = "emitted" /\ UNCHANGED <<scn, result>>
        /\ PrintT(<<"CASE", ToJson([scn |-> scn, model |-> result, mustRefuse |-> MustRefuse, mustAnswer |-> MustAnswer,
                                    registered |-> Registered(scn)])>>)
Next == Answer \/ Emit
Spec == Init /\ [][Next]_vars
PipelineMeetsContract == pc \in {"done", "emitted"} =>
    /\ ResultOK(result) /\ (MustRefuse => result = Err) /\ (MustAnswer => result # Err)
=============================================================================
