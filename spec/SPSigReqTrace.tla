---------------------------- MODULE SPSigReqTrace ----------------------------
(* Monitor for C02 (code -> spec): per replayed scenario the invocations of the     *)
(* external tool recorded at the process boundary and the verdict observed at the   *)
(* public API.  The contract operators of SPSigReq are reused, not its pipeline     *)
(* order: a refactoring that reorders checks is not an alarm.                       *)
EXTENDS SPSigReq, IOUtils, TLCExt
Traces == JsonDeserialize(IOEnv.TRACE_FILE)
VARIABLES tid, l, okResp, okAssert
tvars == <<vars, tid, l, okResp, okAssert>>
T == Traces[tid]
TraceInit == /\ tid \in 1..Len(Traces) /\ l = 1
             /\ scn = Traces[tid].scn /\ pc = "trace" /\ verdict = "none" /\ calls = <<>>
             /\ respIsSigned = FALSE /\ assertsAreSigned = FALSE
             /\ okResp = "none" /\ okAssert = "none"
\* the outcome of the last verification of each kind of element
Consume == /\ pc = "trace" /\ l <= Len(T.calls)
           /\ LET c == T.calls[l] IN
              /\ calls' = Append(calls, c)
              /\ okResp' = IF c.mode = "verify" /\ c.node = "Response" THEN c.out ELSE okResp
              /\ okAssert' = IF c.mode = "verify" /\ c.node = "Assertion" THEN c.out ELSE okAssert
           /\ l' = l + 1
           /\ UNCHANGED <<scn, pc, verdict, respIsSigned, assertsAreSigned, tid>>
Why == IF T.verdict = "accept" /\ ~MustAccept THEN "accepted against the table"
       ELSE IF T.verdict # "accept" /\ MustAccept THEN "rejected against the table"
       ELSE IF T.verdict = "accept" /\ scn.respSig # "absent" /\ okResp # "OK" THEN "accepted without a successful verification of the response signature"
       ELSE IF T.verdict = "accept" /\ scn.assertSig # "absent" /\ okAssert # "OK" THEN "accepted without a successful verification of the assertion signature"
       ELSE "ok"
End == /\ pc = "trace" /\ l = Len(T.calls) + 1
       /\ verdict' = T.verdict /\ pc' = "done" /\ l' = l + 1
       /\ IF Why = "ok" THEN TRUE ELSE PrintT(<<"REJECTED", ToJson([trace |-> tid, why |-> Why])>>)
       /\ UNCHANGED <<scn, calls, respIsSigned, assertsAreSigned, tid, okResp, okAssert>>
TraceNext == Consume \/ End
TraceSpec == TraceInit /\ [][TraceNext]_tvars
=============================================================================
