SPECIFICATION Spec
CONSTANT AsCoded = TRUE
INVARIANT Completes
CHECK_DEADLOCK FALSE
