---------------------------------- MODULE ECP ----------------------------------
(***************************************************************************)
(* Growth beyond the listed properties: the Enhanced Client or Proxy        *)
(* profile as this code base plays it -- ecp_client.Client (the client),     *)
(* ecp.ecp_auth_request / ecp.handle_ecp_authn_response (the service         *)
(* provider's side), ecp.ecp_response (the identity provider's side).        *)
(*                                                                         *)
(* Three parties and a network the client drives:                           *)
(*   P1  the SP answers the client's first request with a PAOS envelope:     *)
(*       AuthnRequest in the body, paos:Request (responseConsumerURL) and    *)
(*       ecp:RelayState in the header                                        *)
(*   P2  the client posts the AuthnRequest to the IdP's SOAP endpoint (with  *)
(*       the user's credentials) and reads Response + ecp:Response           *)
(*       (AssertionConsumerServiceURL) from the reply                        *)
(*   P3  if the two URLs agree the client posts the Response (and the relay  *)
(*       state) to that URL; if not it posts a SOAP fault there and fails    *)
(*                                                                         *)
(* The scenario fixes what the two servers do (honest or not); the actions   *)
(* are the client's steps, one per network exchange or decision.  `sent` is   *)
(* the history of what the client put on the network.                        *)
(***************************************************************************)
EXTENDS Naturals, Sequences, FiniteSets, TLC, Json

\* AsCoded = TRUE: the client as the code has it; FALSE: as the profile (and the code's comments) intend it.  They differ
\* in two steps, both on the refusing side:
\*  - on a URL mismatch the code builds the fault from a *tuple* (soap_fault(error)), which raises TypeError: no fault is
\*    ever sent and the caller sees TypeError instead of SAMLError
\*  - without an ecp:RelayState header block the code hands [None] to use_soap as header list: AttributeError, nothing is
\*    posted to the SP -- a conversation without relay state never completes
CONSTANT AsCoded

\* where a message goes: the identity provider's SOAP endpoint, the SP's endpoint for PAOS responses, a URL of somebody else
Urls == {"idp", "spPaos", "foreign"}

Scn == [\* the responseConsumerURL the SP's envelope names ("missing": the envelope has no paos:Request header block)
        spRc : {"own", "foreign", "missing"},
        relay : BOOLEAN,
        \* the identity provider's reply: a SOAP envelope with Response and ecp:Response, an HTTP error, something that is
        \* not a SOAP envelope, an envelope without the ecp:Response header block
        idpReply : {"ok", "http500", "notsoap", "noEcpHeader"},
        \* the AssertionConsumerServiceURL the identity provider states: the endpoint the SP's metadata registers for PAOS
        \* (an honest provider), or another URL
        idpAcs : {"registered", "foreign"},
        \* what the SP's PAOS endpoint answers to the final POST
        spFinal : {"302", "200", "500"},
        \* the SP's endpoint for PAOS responses has the URL of its HTTP-POST consumer endpoint, or one of its own.
        \* handle_ecp_authn_response checks the Destination against the *POST* endpoints only: as coded, an SP with a PAOS
        \* URL of its own cannot take the response (it answers with an error)
        paosLayout : {"shared", "own"}]
WellFormed(s) == /\ s.idpReply # "ok" => s.idpAcs = "registered"
                 /\ s.spRc = "missing" => s.idpReply = "ok" /\ s.idpAcs = "registered" /\ s.spFinal = "302"
                 /\ s.paosLayout = "own" => s.spFinal = "302" /\ s.idpReply = "ok"

VARIABLES scn, pc, sent, done, err
vars == <<scn, pc, sent, done, err>>
Init == scn \in {s \in Scn : WellFormed(s)} /\ pc = "parseSp" /\ sent = <<>> /\ done = FALSE /\ err = "none"

Rc == IF scn.spRc = "own" THEN "spPaos" ELSE "foreign"                 \* the URL the SP's envelope names
Acs == IF scn.idpAcs = "registered" THEN "spPaos" ELSE "foreign"        \* the URL the IdP's reply names
Fail(e) == err' = e /\ pc' = "failed" /\ UNCHANGED <<scn, done>>
\* every request the client sends carries the user's credentials (HTTPBase.send adds them whenever they are set)
Msg(to, kind) == [to |-> to, kind |-> kind, auth |-> TRUE, relay |-> kind = "idpResponse" /\ scn.relay]

\* parse_sp_ecp_response
ParseSp == /\ pc = "parseSp"
           /\ IF scn.spRc = "missing" THEN Fail("BadRequest") /\ UNCHANGED sent
              ELSE pc' = "toIdp" /\ UNCHANGED <<scn, sent, done, err>>
\* phase2, first half: the request goes to the identity provider
ToIdp == /\ pc = "toIdp"
         /\ sent' = Append(sent, Msg("idp", "authnRequest"))
         /\ CASE scn.idpReply = "http500" -> Fail("SAMLError")
              [] scn.idpReply = "notsoap" -> Fail("XmlParseError")
              [] scn.idpReply = "noEcpHeader" -> Fail("AttributeError")          \* _ecp_response stays None
              [] OTHER -> pc' = "compare" /\ UNCHANGED <<scn, done, err>>
\* phase2, second half: the two URLs are compared
Compare == /\ pc = "compare"
           /\ IF Rc = Acs THEN pc' = "toSp" /\ UNCHANGED <<scn, sent, done, err>>
              ELSE IF AsCoded THEN Fail("TypeError") /\ UNCHANGED sent
              ELSE sent' = Append(sent, Msg(Rc, "fault")) /\ Fail("SAMLError")
\* phase 3
ToSp == /\ pc = "toSp"
        /\ IF AsCoded /\ ~scn.relay THEN Fail("AttributeError") /\ UNCHANGED sent
           ELSE /\ sent' = Append(sent, Msg(Rc, "idpResponse"))
                /\ IF scn.spFinal = "302" /\ (~AsCoded \/ scn.paosLayout = "shared" \/ Rc # "spPaos") THEN done' = TRUE /\ pc' = "finished" /\ UNCHANGED <<scn, err>>
                   ELSE Fail("SAMLError")
Emit == /\ pc \in {"failed", "finished"} /\ pc' = "emitted" /\ UNCHANGED <<scn, sent, done, err>>
        /\ PrintT(<<"CASE", ToJson([scn |-> scn, sent |-> sent, done |-> done, err |-> err])>>)
Next == ParseSp \/ ToIdp \/ Compare \/ ToSp \/ Emit
Spec == Init /\ [][Next]_vars

Range(q) == {q[i] : i \in 1..Len(q)}
\* the identity provider's response is handed only to the URL both servers name
DeliverOnlyWhereBothAgree == \A m \in Range(sent) : m.kind = "idpResponse" => m.to = Rc /\ Rc = Acs
\* ... in particular never to a URL the identity provider did not name
NeverToUnnamedUrl == \A m \in Range(sent) : m.kind = "idpResponse" => m.to = Acs
\* a disagreement is reported to the SP-named URL as a fault, and the conversation fails
FaultOnMismatch == pc \in {"failed", "finished", "emitted"} /\ scn.spRc # "missing" /\ scn.idpReply = "ok" /\ Rc # Acs
                   => ~done /\ \E m \in Range(sent) : m.kind = "fault" /\ m.to = Rc
\* (does not hold as coded: ECP_fault.cfg)
\* a conversation in which both servers are honest and the SP takes the response completes, relay state or not
\* (does not hold as coded: ECP_norelay.cfg)
Completes == pc \in {"failed", "finished", "emitted"} /\ scn.spRc = "own" /\ scn.idpReply = "ok" /\ scn.idpAcs = "registered" /\ scn.spFinal = "302"
             => done
\* whatever else happens on a mismatch, the response goes nowhere
NoDeliveryOnMismatch == Rc # Acs => \A m \in Range(sent) : m.kind # "idpResponse"
\* done only after the SP took the response
DoneOnlyAfter302 == done => scn.spFinal = "302" /\ \E m \in Range(sent) : m.kind = "idpResponse"
\* the relay state travels back with the response
RelayReturned == \A m \in Range(sent) : m.kind = "idpResponse" => m.relay = scn.relay
\* exactly one request to the identity provider, before anything goes to the SP
IdpFirst == Len(sent) >= 1 => sent[1].to = "idp" /\ \A i \in 2..Len(sent) : sent[i].to # "idp"
\* does NOT hold (ECP_credentials.cfg, expected counterexample): the user's credentials for the identity provider go
\* only to the identity provider.  HTTPBase.send attaches them to every request, also to the SP and to a foreign URL.
CredentialsOnlyToIdp == \A m \in Range(sent) : m.auth => m.to = "idp"
=============================================================================
