---------------------------- MODULE IdPConcurrent ----------------------------
(***************************************************************************)
(* C17 (confidentiality clause), for an identity provider that serves        *)
(* several requests at once.  One Server object builds responses with        *)
(* encrypted assertions for different service providers in different         *)
(* threads.  Building one response is a sequence of segments separated by    *)
(* runs of the external tool (which is where a thread is descheduled for     *)
(* long):                                                                  *)
(*                                                                         *)
(*   prepare   build the assertion, look the recipient's encryption          *)
(*             certificates up (has_encrypt_cert_in_metadata), hand the      *)
(*             assertion to the tool for signing when it is to be signed     *)
(*   encrypt   choose the certificate and hand the assertion to the tool     *)
(*             for encryption (_encrypt_assertion)                          *)
(*   finish    sign the response when asked to, return it                    *)
(*                                                                         *)
(* Shared = FALSE: everything a request needs between two segments lives in  *)
(* the call's own frame (the code).  Shared = TRUE: the certificates found   *)
(* in `prepare` are parked on the Server object for `encrypt` to pick up --  *)
(* the vacuity control.  TLC enumerates every interleaving; each is replayed *)
(* with one thread per request and a scheduler that hands out turns at the   *)
(* tool runs.                                                              *)
(***************************************************************************)
EXTENDS Naturals, Sequences, FiniteSets, TLC, Json

CONSTANTS Reqs,        \* concurrent requests, each for the service provider of the same name
          Shared,
          SignAssertion

Segments == <<"prepare", "encrypt", "finish">>
VARIABLES pc,          \* [Reqs -> 1..4]: next segment (4 = returned)
          found,       \* [Reqs -> Reqs \cup {"none"}]: whose certificate the request's own frame holds
          parked,      \* the Server-level slot (Shared only)
          usedCert,    \* [Reqs -> Reqs \cup {"none"}]: the certificate the assertion was encrypted under
          order        \* history: the schedule so far
vars == <<pc, found, parked, usedCert, order>>

Init == /\ pc = [r \in Reqs |-> 1] /\ found = [r \in Reqs |-> "none"] /\ parked = "none"
        /\ usedCert = [r \in Reqs |-> "none"] /\ order = <<>>

Run(r) ==
    /\ pc[r] <= 3
    /\ pc' = [pc EXCEPT ![r] = @ + 1]
    /\ order' = Append(order, [req |-> r, seg |-> Segments[pc[r]]])
    /\ CASE pc[r] = 1 -> /\ found' = [found EXCEPT ![r] = r]
                         /\ parked' = IF Shared THEN r ELSE parked
                         /\ UNCHANGED usedCert
         [] pc[r] = 2 -> /\ usedCert' = [usedCert EXCEPT ![r] = IF Shared THEN parked ELSE found[r]]
                         /\ UNCHANGED <<found, parked>>
         [] OTHER     -> UNCHANGED <<found, parked, usedCert>>
Done == \A r \in Reqs : pc[r] = 4
Finish == /\ Done /\ order # <<>> /\ order[Len(order)].seg # "End"
          /\ PrintT(<<"CASE", ToJson([order |-> order, sign |-> SignAssertion])>>)
          /\ order' = Append(order, [req |-> "-", seg |-> "End"])
          /\ UNCHANGED <<pc, found, parked, usedCert>>
Next == (\E r \in Reqs : Run(r)) \/ Finish
Spec == Init /\ [][Next]_vars

\* every assertion is encrypted under the certificate of the provider it was built for
EncryptedForRecipient == \A r \in Reqs : usedCert[r] \in {"none", r}
=============================================================================
