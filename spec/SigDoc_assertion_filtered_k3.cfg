SPECIFICATION Spec
CONSTANTS
  N = 7
  K = 3
  Level = "assertion_filtered"
  Fixed = TRUE
  SampleMod = 0
INVARIANT Contract
INVARIANT Controls
INVARIANT EmitInteresting

CHECK_DEADLOCK FALSE
