SPECIFICATION SpecQuiet
INVARIANT ZeroIsNeutral
CHECK_DEADLOCK FALSE
