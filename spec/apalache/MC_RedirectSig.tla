--------------------------- MODULE MC_RedirectSig ---------------------------
(* Apalache wrapper: unbounded-step safety of the repaired redirect-signing design by an inductive invariant *)
EXTENDS Naturals, Sequences, FiniteSets, Apalache

Ent == {"kA", "kB", "kC"}
Algs == {"sha1", "sha256"}
MaxWire == 3

KeyName(e, g) == IF g = 0 THEN e ELSE (IF e = "kA" THEN "kA2" ELSE IF e = "kB" THEN "kB2" ELSE "kC2")
Certs == {KeyName(e, g) : e \in Ent, g \in 0..1}

VARIABLES
  \* @type: Str -> Int;
  gen,
  \* @type: Str -> Int;
  loaded,
  \* @type: Str -> Str;
  slot,
  \* @type: Str -> Str;
  held,
  \* @type: Seq({by: Str, own: Str, alg: Str, key: Str});
  wire

Init == /\ gen = [e \in Ent |-> 0] /\ loaded = [e \in Ent |-> 0]
        /\ slot = [a \in Algs |-> "nokey"]
        /\ held = [e \in Ent |-> "none"]
        /\ wire = <<>>

Obtain(e, a) == /\ held' = [held EXCEPT ![e] = a] /\ UNCHANGED <<slot, wire, gen, loaded>>
\* key roll-over in place, entity rebuilt from its configuration (repaired design: no key cache)
Rekey(e) == /\ gen[e] < 1 /\ gen' = [gen EXCEPT ![e] = 1] /\ loaded' = [loaded EXCEPT ![e] = 1]
            /\ held' = [held EXCEPT ![e] = "none"] /\ UNCHANGED <<slot, wire>>
Sign(e) == /\ held[e] # "none" /\ Len(wire) < MaxWire
           /\ wire' = Append(wire, [by |-> e, own |-> KeyName(e, gen[e]), alg |-> held[e], key |-> KeyName(e, loaded[e])])
           /\ UNCHANGED <<slot, held, gen, loaded>>
SignNow(e, a) == /\ Len(wire) < MaxWire
                 /\ wire' = Append(wire, [by |-> e, own |-> KeyName(e, gen[e]), alg |-> a, key |-> KeyName(e, loaded[e])])
                 /\ UNCHANGED <<slot, held, gen, loaded>>
Next == \/ \E e \in Ent, a \in Algs : Obtain(e, a) \/ SignNow(e, a)
        \/ \E e \in Ent : Sign(e) \/ Rekey(e)

KeyOwnership == \A i \in DOMAIN wire : wire[i].key = wire[i].own
TypeInv == /\ gen \in [Ent -> 0..1] /\ loaded \in [Ent -> 0..1]
           /\ \A e \in Ent : loaded[e] = gen[e]          \* the strengthening: an entity object always holds the key its configuration names
           /\ slot \in [Algs -> Ent \cup {"nokey"}]
           /\ held \in [Ent -> Algs \cup {"none"}]
           /\ Len(wire) <= MaxWire
           /\ \A i \in DOMAIN wire : wire[i].by \in Ent /\ wire[i].alg \in Algs /\ wire[i].key \in Certs /\ wire[i].own \in Certs
IndInv == TypeInv /\ KeyOwnership
IndInit == /\ gen \in [Ent -> 0..1] /\ loaded \in [Ent -> 0..1]
           /\ slot \in [Algs -> Ent \cup {"nokey"}]
           /\ held \in [Ent -> Algs \cup {"none"}]
           /\ wire = Gen(3)
           /\ IndInv
=============================================================================
