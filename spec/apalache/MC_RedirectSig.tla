--------------------------- MODULE MC_RedirectSig ---------------------------
(* Apalache wrapper: unbounded-step safety of the repaired redirect-signing design by an inductive invariant *)
EXTENDS Naturals, Sequences, FiniteSets, Apalache

Ent == {"kA", "kB", "kC"}
Algs == {"sha1", "sha256"}
MaxWire == 3

VARIABLES
  \* @type: Str -> Str;
  slot,
  \* @type: Str -> Str;
  held,
  \* @type: Seq({by: Str, alg: Str, key: Str});
  wire

Init == /\ slot = [a \in Algs |-> "nokey"]
        /\ held = [e \in Ent |-> "none"]
        /\ wire = <<>>

Obtain(e, a) == /\ held' = [held EXCEPT ![e] = a] /\ UNCHANGED <<slot, wire>>
Sign(e) == /\ held[e] # "none" /\ Len(wire) < MaxWire
           /\ wire' = Append(wire, [by |-> e, alg |-> held[e], key |-> e])
           /\ UNCHANGED <<slot, held>>
SignNow(e, a) == /\ Len(wire) < MaxWire
                 /\ wire' = Append(wire, [by |-> e, alg |-> a, key |-> e])
                 /\ UNCHANGED <<slot, held>>
Next == \/ \E e \in Ent, a \in Algs : Obtain(e, a) \/ SignNow(e, a)
        \/ \E e \in Ent : Sign(e)

KeyOwnership == \A i \in DOMAIN wire : wire[i].key = wire[i].by
TypeInv == /\ slot \in [Algs -> Ent \cup {"nokey"}]
           /\ held \in [Ent -> Algs \cup {"none"}]
           /\ Len(wire) <= MaxWire
           /\ \A i \in DOMAIN wire : wire[i].by \in Ent /\ wire[i].alg \in Algs /\ wire[i].key \in Ent
IndInv == TypeInv /\ KeyOwnership
IndInit == /\ slot \in [Algs -> Ent \cup {"nokey"}]
           /\ held \in [Ent -> Algs \cup {"none"}]
           /\ wire = Gen(3)
           /\ IndInv
=============================================================================
