SPECIFICATION MCSpec
CONSTANTS
  Ent = {"kA", "kB"}
  Algs = {"sha1", "sha256"}
  Muts = {"none"}
  MaxWire = 2
  Shared = FALSE
  KeyCache = FALSE
  MaxGen = 1
  Depth = 4
INVARIANT KeyOwnership
CHECK_DEADLOCK FALSE
