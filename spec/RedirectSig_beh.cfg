SPECIFICATION MCSpec
CONSTANTS
  Ent = {"kA", "kB"}
  Algs = {"sha1", "sha256"}
  Muts = {"none"}
  MaxWire = 2
  Shared = FALSE
  Depth = 4
INVARIANT KeyOwnership
CHECK_DEADLOCK FALSE
