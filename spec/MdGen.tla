-------------------------------- MODULE MdGen --------------------------------
(***************************************************************************)
(* C16 (generation side) -- metadata.do_endpoints: the endpoints an entity  *)
(* configures, written as locations, (location, binding) pairs or           *)
(* (location, binding, index) triples, as they appear in the metadata the   *)
(* library generates from that configuration, and as a metadata store that  *)
(* loads this metadata hands them back.                                     *)
(*                                                                         *)
(* An indexed service (AssertionConsumerService) numbers the entries that   *)
(* carry no index 1, 2, ... in order of appearance; an entry that carries   *)
(* an index keeps exactly that index -- 0 included, written as a number or  *)
(* as text.                                                                 *)
(***************************************************************************)
EXTENDS Naturals, Sequences, FiniteSets, TLC, Json

Bindings == {"post", "redirect"}
Idx == {"none", "0", "1", "5"}
Entry == [b : Bindings, idx : Idx]
Layouts == UNION {[1..n -> Entry] : n \in 1..3}
\* how a configured index is written: a Python number or a string
Forms == {"int", "str"}

\* the keys of the configuration: cert_file (+ additional_cert_files) sign, encryption_keypairs encrypt.  Generated
\* metadata publishes the first kind with use="signing" and the second with use="encryption" -- each under its own use
\* "same": the encryption key pair is the signing key pair (one certificate, published under both uses)
EncKeys == {"none", "one", "two", "same"}
SignCerts(s) == IF s.extraSign THEN {"kSp", "kIdp1b"} ELSE {"kSp"}
EncCerts(s) == CASE s.encKeys = "none" -> {} [] s.encKeys = "one" -> {"kSpEnc1"} [] s.encKeys = "same" -> {"kSp"} [] OTHER -> {"kSpEnc1", "kSpEnc2"}
\* the key dimensions are varied on the single-endpoint layouts
WellFormed(s) == (s.encKeys # "one" \/ s.extraSign) => Len(s.layout) = 1 /\ s.layout[1].idx = "none" /\ s.form = "str"

VARIABLES scn, pc, out
vars == <<scn, pc, out>>
Init == /\ scn \in {s \in [layout : Layouts, form : Forms, encKeys : EncKeys, extraSign : BOOLEAN] : WellFormed(s)}
        /\ pc = "generate" /\ out = <<>>

\* do_endpoints: one counter per service, advanced only by the entries it numbers
RECURSIVE Number(_, _)
Number(q, i) == IF q = <<>> THEN <<>>
                ELSE IF Head(q).idx = "none" THEN <<ToString(i)>> \o Number(Tail(q), i + 1)
                ELSE <<Head(q).idx>> \o Number(Tail(q), i)
Generate == /\ pc = "generate" /\ pc' = "done" /\ UNCHANGED scn
            /\ out' = LET nums == Number(scn.layout, 1)
                      IN [k \in 1..Len(scn.layout) |-> [b |-> scn.layout[k].b, pos |-> k, idx |-> nums[k]]]

\* ---- contract: every configured endpoint appears, in order, with its binding; a configured index is kept as it is
Contract(o) == /\ Len(o) = Len(scn.layout)
               /\ \A k \in 1..Len(o) : /\ o[k].b = scn.layout[k].b /\ o[k].pos = k
                                        /\ (scn.layout[k].idx # "none" => o[k].idx = scn.layout[k].idx)
\* the entries that were numbered got distinct numbers
AutoDistinct(o) == \A j, k \in 1..Len(o) : (j # k /\ scn.layout[j].idx = "none" /\ scn.layout[k].idx = "none") => o[j].idx # o[k].idx

Emit == /\ pc = "done" /\ pc' = "emitted" /\ UNCHANGED <<scn, out>>
        /\ PrintT(<<"CASE", ToJson([scn |-> scn, model |-> out, signing |-> SignCerts(scn), encryption |-> EncCerts(scn)])>>)
Next == Generate \/ Emit
Spec == Init /\ [][Next]_vars
PipelineMeetsContract == pc \in {"done", "emitted"} => Contract(out) /\ AutoDistinct(out)
=============================================================================
