SPECIFICATION Spec
CONSTANT Mode = "validate"
CHECK_DEADLOCK FALSE
