-------------------------------- MODULE WebSSO --------------------------------
(***************************************************************************)
(* Growth beyond the listed properties: the web single-sign-on profile as    *)
(* one system -- a service provider (Saml2Client with the application's      *)
(* table of outstanding requests), an identity provider (Server) and the     *)
(* browser in between, which the user or an attacker drives:                 *)
(*                                                                         *)
(*   Start           SP: prepare_for_authenticate -> a request with a fresh  *)
(*                   id; the application remembers it as outstanding         *)
(*   Answer(q, u)    IdP: parse_authn_request, response_args,                *)
(*                   create_authn_response for user u, InResponseTo = q       *)
(*   Push(u)         IdP-initiated: a response without InResponseTo           *)
(*   Deliver(r)      SP: parse_authn_request_response(r, outstanding);        *)
(*                   on success the subject is logged in at the SP and the    *)
(*                   application forgets the request (Forget = TRUE) or       *)
(*                   keeps it (the library itself never removes it)           *)
(*   Logout(u)       SP: local_logout                                        *)
(*   IdPLogout(u, c) IdP: a LogoutRequest for u reaches the SP over the back  *)
(*                   channel while the application believes c to be the       *)
(*                   current user (handle_logout_request): the session of u   *)
(*                   ends iff u = c, the answer says Success or               *)
(*                   UnknownPrincipal                                        *)
(*   Expire          the clock passes the validity of every response issued   *)
(*                   so far                                                  *)
(*                                                                         *)
(* Responses stay on the wire: the browser can deliver any of them again at   *)
(* any time.                                                               *)
(***************************************************************************)
EXTENDS Naturals, Sequences, FiniteSets, TLC

CONSTANTS Users, MaxReq, MaxResp,
          AllowUnsolicited,    \* SP option
          Forget               \* the application drops an outstanding request once it was answered

VARIABLES nextReq,       \* request ids are 1, 2, ...
          outstanding,   \* ids the application remembers
          atIdp,         \* requests the IdP has seen
          wire,          \* responses issued so far: sequence of [irt, user, epoch]
          epoch,         \* increases with Expire; a response is valid in the epoch it was issued in
          sessions,      \* users logged in at the SP
          entries,       \* users the SP's cache has an entry for (a superset: expired entries stay until removed)
          consumed,      \* history: responses the SP has accepted at least once
          last
vars == <<nextReq, outstanding, atIdp, wire, epoch, sessions, entries, consumed, last>>

NoReq == 0
Init == /\ nextReq = 1 /\ outstanding = {} /\ atIdp = {} /\ wire = <<>> /\ epoch = 0 /\ sessions = {} /\ entries = {} /\ consumed = {}
        /\ last = [op |-> "Init"]

Start == /\ nextReq <= MaxReq
         /\ outstanding' = outstanding \cup {nextReq} /\ atIdp' = atIdp \cup {nextReq}
         /\ nextReq' = nextReq + 1
         /\ last' = [op |-> "Start", req |-> nextReq]
         /\ UNCHANGED <<wire, epoch, sessions, entries, consumed>>
Answer(q, u) == /\ q \in atIdp /\ Len(wire) < MaxResp
                /\ wire' = Append(wire, [irt |-> q, user |-> u, epoch |-> epoch])
                /\ last' = [op |-> "Answer", req |-> q, user |-> u, resp |-> Len(wire) + 1]
                /\ UNCHANGED <<nextReq, outstanding, atIdp, epoch, sessions, entries, consumed>>
Push(u) == /\ Len(wire) < MaxResp
           /\ wire' = Append(wire, [irt |-> NoReq, user |-> u, epoch |-> epoch])
           /\ last' = [op |-> "Push", user |-> u, resp |-> Len(wire) + 1]
           /\ UNCHANGED <<nextReq, outstanding, atIdp, epoch, sessions, entries, consumed>>
Accepts(r) == /\ r.epoch = epoch
              \* with the unsolicited option an InResponseTo that names nothing outstanding (any more) is no obstacle either
              /\ (r.irt \in outstanding \/ AllowUnsolicited)
Deliver(i) == /\ i \in 1..Len(wire)
              /\ LET r == wire[i] IN
                 IF Accepts(r)
                 THEN /\ sessions' = sessions \cup {r.user} /\ entries' = entries \cup {r.user} /\ consumed' = consumed \cup {i}
                      /\ outstanding' = IF Forget THEN outstanding \ {r.irt} ELSE outstanding
                      /\ last' = [op |-> "Deliver", resp |-> i, accepted |-> TRUE, user |-> r.user, irt |-> r.irt]
                 ELSE /\ UNCHANGED <<sessions, entries, outstanding, consumed>>
                      /\ last' = [op |-> "Deliver", resp |-> i, accepted |-> FALSE, user |-> r.user, irt |-> r.irt]
              /\ UNCHANGED <<nextReq, atIdp, wire, epoch>>
Logout(u) == /\ u \in sessions /\ sessions' = sessions \ {u} /\ entries' = entries \ {u}
             /\ last' = [op |-> "Logout", user |-> u]
             /\ UNCHANGED <<nextReq, outstanding, atIdp, wire, epoch, consumed>>
\* (a subject the cache has no entry for cannot be logged out: the removal fails and the answer is RequestDenied)
IdPLogout(u, c) == /\ sessions' = IF u = c THEN sessions \ {u} ELSE sessions
                   /\ entries' = IF u = c THEN entries \ {u} ELSE entries
                   /\ last' = [op |-> "IdPLogout", user |-> u, current |-> c,
                               status |-> IF u # c THEN "UnknownPrincipal" ELSE IF u \in entries THEN "Success" ELSE "RequestDenied"]
                   /\ UNCHANGED <<nextReq, outstanding, atIdp, wire, epoch, consumed>>
Expire == /\ epoch < 1 /\ epoch' = epoch + 1
          /\ sessions' = {}                    \* the sessions carry the expiry of their assertions
          /\ last' = [op |-> "Expire"]
          /\ UNCHANGED <<nextReq, outstanding, atIdp, wire, entries, consumed>>
Next == Start \/ (\E q \in 1..MaxReq, u \in Users : Answer(q, u)) \/ (\E u \in Users : Push(u) \/ Logout(u))
        \/ (\E i \in 1..MaxResp : Deliver(i)) \/ Expire
        \/ (\E u \in Users, c \in Users : IdPLogout(u, c))
Spec == Init /\ [][Next]_vars
View == <<nextReq, outstanding, atIdp, wire, epoch, sessions, entries, consumed>>

(***************************************************************************)
(* Statements                                                              *)
(***************************************************************************)
TypeOK == outstanding \subseteq 1..MaxReq /\ sessions \subseteq Users /\ Len(wire) <= MaxResp
\* a session only ever comes from a response issued for that user in the current epoch
SessionHasCause == \A u \in sessions : \E i \in 1..Len(wire) : wire[i].user = u /\ wire[i].epoch = epoch
\* without the unsolicited option nothing is accepted that does not answer a request this SP made
SolicitedOnly == [][(last'.op = "Deliver" /\ last'.accepted /\ ~AllowUnsolicited) => last'.irt \in outstanding]_vars
\* an expired response never logs anybody in
NoLateLogin == [][(last'.op = "Deliver" /\ last'.accepted) => wire[last'.resp].epoch = epoch]_vars
\* a logout request for one subject never ends another subject's session
LogoutIsTargeted == [][last'.op = "IdPLogout" => sessions \ sessions' \subseteq {last'.user}]_vars
\* one response, one login: a response that was accepted once is not accepted again.  Refuted with Forget = FALSE
\* (the library keeps no record of consumed responses and never drops an outstanding request itself), and refuted for
\* IdP-initiated responses whatever the application does.
NoReplay == [][(last'.op = "Deliver" /\ last'.accepted) => last'.resp \notin consumed]_vars
=============================================================================
