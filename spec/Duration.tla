------------------------------- MODULE Duration -------------------------------
(***************************************************************************)
(* Growth beyond the listed properties: time_util.add_duration, the          *)
(* library's implementation of "adding durations to dateTimes" (XML Schema   *)
(* part 2, appendix E).  A pure function with a rich case analysis: both the  *)
(* algorithm of the recommendation (W3C) and a transcription of the code      *)
(* (Coded: the day clamp is applied to the duration's day field instead of    *)
(* the start day, hours are reduced modulo 60, negative durations give        *)
(* nothing, and time.mktime normalises what is left over) are written down;   *)
(* TLC says where they agree, and every scenario is replayed through the      *)
(* real function to show that Coded is what the code does.                    *)
(***************************************************************************)
EXTENDS Integers, Sequences, TLC, Json

Leap(y) == (y % 4 = 0 /\ y % 100 # 0) \/ y % 400 = 0
MaxDay(y, m) == IF m = 2 THEN (IF Leap(y) THEN 29 ELSE 28) ELSE IF m \in {4, 6, 9, 11} THEN 30 ELSE 31

Starts == {s \in [year : {2019, 2020}, mon : {1, 2, 12}, day : {1, 28, 29, 31}, hour : {0, 23}, min : {59}, sec : {59}] :
             s.day <= MaxDay(s.year, s.mon)}
Durs == [year : {0, 1}, mon : {0, 1, 11, 13}, day : {0, 1, 30, 31, 40}, hour : {0, 1, 25, 61}, min : {0, 61}, sec : {0, 61}]
Scn == [start : Starts, dur : Durs, sign : {"+", "-"}]

\* fQuotient / modulo of the recommendation (floor division), two- and three-argument forms
FQ(a, b) == a \div b
Mod(a, b) == a % b
FQ3(a, lo, hi) == (a - lo) \div (hi - lo)
Mod3(a, lo, hi) == ((a - lo) % (hi - lo)) + lo

\* carry days over month ends until the day fits its month (both directions)
RECURSIVE Roll(_, _, _)
Roll(y, m, d) ==
    IF d < 1 THEN LET t == m - 1 IN Roll(y + FQ3(t, 1, 13), Mod3(t, 1, 13), d + MaxDay(y + FQ3(t, 1, 13), Mod3(t, 1, 13)))
    ELSE IF d > MaxDay(y, m) THEN LET t == m + 1 IN Roll(y + FQ3(t, 1, 13), Mod3(t, 1, 13), d - MaxDay(y, m))
    ELSE [year |-> y, mon |-> m, day |-> d]

Stamp(ymd, h, mi, s) == [year |-> ymd.year, mon |-> ymd.mon, day |-> ymd.day, hour |-> h, min |-> mi, sec |-> s]

(* ---- appendix E ---- *)
W3C(S, D0, sign) ==
    LET k == IF sign = "-" THEN -1 ELSE 1
        D == [year |-> k * D0.year, mon |-> k * D0.mon, day |-> k * D0.day, hour |-> k * D0.hour, min |-> k * D0.min, sec |-> k * D0.sec]
        t1 == S.mon + D.mon
        mon == Mod3(t1, 1, 13)
        year == S.year + D.year + FQ3(t1, 1, 13)
        t2 == S.sec + D.sec
        t3 == S.min + D.min + FQ(t2, 60)
        t4 == S.hour + D.hour + FQ(t3, 60)
        tempDays == IF S.day > MaxDay(year, mon) THEN MaxDay(year, mon) ELSE IF S.day < 1 THEN 1 ELSE S.day
        day == tempDays + D.day + FQ(t4, 24)
    IN Stamp(Roll(year, mon, day), Mod(t4, 24), Mod(t3, 60), Mod(t2, 60))

(* ---- time_util.add_duration as written ---- *)
Coded(S, D, sign) ==
    IF sign = "-" THEN "none"                                   \* `else: pass`
    ELSE LET t1 == S.mon + D.mon
             mon == Mod3(t1, 1, 13)
             year == S.year + D.year + FQ3(t1, 1, 13)
             t2 == S.sec + D.sec
             t3 == S.min + D.min + FQ(t2, 60)
             t4 == S.hour + D.hour + FQ(t3, 60)
             hour == Mod(t4, 60)                                \* modulo(temp, 60) for the hours
             tempDays == IF D.day > MaxDay(year, mon) THEN MaxDay(year, mon) ELSE IF D.day < 1 THEN 1 ELSE D.day   \* clamp on the duration
             ymd == Roll(year, mon, tempDays + S.day + FQ(t4, 60))
             \* time.mktime normalises an hour field of 24..59 into the following days
             norm == Roll(ymd.year, ymd.mon, ymd.day + FQ(hour, 24))
         IN Stamp(norm, Mod(hour, 24), Mod(t3, 60), Mod(t2, 60))

VARIABLES scn, pc
vars == <<scn, pc>>
Init == scn \in Scn /\ pc = "emit"
Emit == /\ pc = "emit" /\ pc' = "done" /\ UNCHANGED scn
        /\ PrintT(<<"CASE", ToJson([scn |-> scn, coded |-> Coded(scn.start, scn.dur, scn.sign),
                                    w3c |-> W3C(scn.start, scn.dur, scn.sign)])>>)
Spec == Init /\ [][Emit]_vars
SpecQuiet == Init /\ [][UNCHANGED vars]_vars

\* where the code is right: positive durations whose day field and start day need no clamping, and fewer than 60 hours to carry
Plain == /\ scn.sign = "+"
         /\ LET t1 == scn.start.mon + scn.dur.mon
                mon == Mod3(t1, 1, 13)
                year == scn.start.year + scn.dur.year + FQ3(t1, 1, 13)
            IN /\ scn.dur.day >= 1 /\ scn.dur.day <= MaxDay(year, mon)
               /\ scn.start.day <= MaxDay(year, mon)
         /\ scn.start.hour + scn.dur.hour + 2 < 60
AgreesWhenPlain == Plain => Coded(scn.start, scn.dur, scn.sign) = W3C(scn.start, scn.dur, scn.sign)
\* known not to hold
Agrees == scn.sign = "+" => Coded(scn.start, scn.dur, scn.sign) = W3C(scn.start, scn.dur, scn.sign)
ZeroIsNeutral == (scn.sign = "+" /\ scn.dur = [year |-> 0, mon |-> 0, day |-> 0, hour |-> 0, min |-> 0, sec |-> 0])
                    => Coded(scn.start, scn.dur, scn.sign) = scn.start
NegativeAnswered == scn.sign = "-" => Coded(scn.start, scn.dur, scn.sign) # "none"
=============================================================================
