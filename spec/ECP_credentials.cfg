SPECIFICATION Spec
CONSTANT AsCoded = TRUE
INVARIANT CredentialsOnlyToIdp
CHECK_DEADLOCK FALSE
