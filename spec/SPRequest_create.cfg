SPECIFICATION Spec
INVARIANT PythonBooleansWork
CHECK_DEADLOCK FALSE
