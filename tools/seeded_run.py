#!/venv/bin/python
"""apply each seeded change to /repo, run the quick check of its property, undo; report caught/missed
usage: seeded_run.py [id-substring ...] [--tier thorough]"""
import json, os, subprocess, sys, glob
ROOT = os.path.dirname(os.path.dirname(os.path.abspath(__file__)))          # the /verif tree this script belongs to
REPO = os.environ.get('VERIF_REPO', '/repo')                                   # the tree that gets patched
args = [a for a in sys.argv[1:] if not a.startswith('--')]
tier = 'thorough' if '--tier' in sys.argv and 'thorough' in sys.argv else 'quick'
res = []
for d in sorted(glob.glob(ROOT + '/seeded/*/')):
    meta = json.load(open(d + 'meta.json'))
    if args and not any(a in meta['id'] for a in args):
        continue
    st = subprocess.run(['git', '-C', REPO, 'status', '--porcelain', '--untracked-files=no'], capture_output=True).stdout.decode().strip()
    if st:
        print('REFUSING: /repo has tracked modifications'); sys.exit(2)
    ap = subprocess.run(['git', '-C', REPO, 'apply', d + 'patch.diff'], capture_output=True)
    if ap.returncode:
        print(meta['id'], 'PATCH DOES NOT APPLY', ap.stderr.decode()[:300]); res.append((meta['id'], 'noapply')); continue
    try:
        props = meta['property'] if isinstance(meta['property'], list) else [meta['property']]
        out = []
        for p in props:
            r = subprocess.run(['./check', p, '--tier', tier], cwd=ROOT, capture_output=True)
            viol = [l for l in r.stdout.decode().splitlines() if l.startswith('VIOLATION')]
            out.append((p, r.returncode, len(viol)))
        caught = any(rc == 1 and n > 0 for _, rc, n in out)
        print(meta['id'], 'CAUGHT' if caught else 'MISSED', out)
        res.append((meta['id'], 'caught' if caught else 'missed'))
    finally:
        subprocess.run(['git', '-C', REPO, 'checkout', '--', '.'])
print(json.dumps(res))
