#!/usr/bin/env python3-vt
import json, sys, glob, jsonschema
jsonschema.validate(json.load(open('/verif/MANIFEST.json')), json.load(open('/root/.vp/MANIFEST.schema.json')))
es = json.load(open('/root/.vp/EVIDENCE.schema.json'))
for f in sorted(glob.glob('/verif/evidence/*.json')):
    jsonschema.validate(json.load(open(f)), es)
print('manifest + %d evidence files valid' % len(glob.glob('/verif/evidence/*.json')))
