#!/venv/bin/python
"""print a markdown inventory of /verif/spec: module, size, variables, configurations with what they check"""
import glob, os, re
spec = '/verif/spec'
cfgs = {}
for c in sorted(glob.glob(spec + '/*.cfg')):
    t = open(c).read()
    inv = re.findall(r'^(?:INVARIANT|PROPERTY|POSTCONDITION)\s+(\S+)', t, re.M)
    cfgs[os.path.basename(c)] = inv
mods = sorted(glob.glob(spec + '/*.tla')) + sorted(glob.glob(spec + '/apalache/*.tla'))
print('| module | lines | variables | configurations (what each checks) |')
print('|---|---|---|---|')
for m in mods:
    t = open(m).read()
    name = os.path.basename(m)[:-4]
    vs = []
    for mm in re.finditer(r'^VARIABLES?\s+(.*?)(?=^\S|\Z)', t, re.M | re.S):
        body = re.sub(r'\\\*.*', '', mm.group(1))
        vs += [v.strip() for v in body.replace('\n', ' ').split(',') if v.strip()]
    mine = []
    for c, inv in cfgs.items():
        base = c[:-4]
        if base == name or base.startswith(name + '_') or (name == 'Schema' and base.startswith('Schema_')):
            mine.append('`%s`%s' % (c, (': ' + ', '.join(inv)) if inv else ''))
    # cfgs used with an MC/Sim/Trace wrapper are listed under the wrapper whose SPECIFICATION they name
    print('| `%s` | %d | %s | %s |' % (name, t.count('\n'), ', '.join('`%s`' % v for v in vs) or '(scenario constants only)', '; '.join(mine) or '(extended / instantiated by other modules, or cfg generated at check time)'))
