#!/venv/bin/python
"""run the repository's baseline (guard off) and compare with BASELINE.json's stable_pass"""
import json, os, subprocess, sys, xml.etree.ElementTree as ET
out = '/tmp/scratch/baseline.junit.xml'
os.makedirs('/tmp/scratch', exist_ok=True)
env = dict(os.environ); env.pop('SAML2_TOPHAT_VERIF', None)
p = subprocess.run('cd /repo && /venv/bin/python -m pytest -ra -q -p no:cacheprovider --timeout=900 --continue-on-collection-errors --junitxml=%s' % out,
                   shell=True, env=env, stdout=subprocess.PIPE, stderr=subprocess.STDOUT)
print(p.stdout.decode()[-400:])
stable = set(json.load(open('/root/.vp/BASELINE.json'))['stable_pass'])
passed = set()
for tc in ET.parse(out).getroot().iter('testcase'):
    if not list(tc):
        passed.add('%s::%s' % (tc.get('classname'), tc.get('name')))
norm = lambda s: s.replace('::', '.').replace('.', ':')
ps = set(norm(x) for x in passed)
missing = [x for x in stable if norm(x) not in ps]
print('stable_pass: %d, passed now: %d, missing: %d' % (len(stable), len(passed), len(missing)))
for m in missing[:20]: print('  MISSING', m)
subprocess.run('cd /repo && git status --short | head', shell=True)
sys.exit(1 if missing else 0)
