import json, re, sys
rows = {}
for line in open('/verif/DESIGN.md'):
    m = re.match(r'\| ([BCDE]-C\d\d) \| (.*?) \| (.*?) \| (.*?) \|$', line.strip())
    if m:
        rows[m.group(1)] = m.groups()[1:]
results = {}
for sid, (change, needs, result) in rows.items():
    p = '/verif/seeded/%s/meta.json' % sid
    j = json.load(open(p))
    j['change'] = change
    j['needs'] = needs
    j['checks'] = {'first pass (quick)': 'missed' if result.startswith(('missed', 'first exit 2', 'extended')) else 'caught', 'now': result,
                   'ran': 'git -C /repo apply patch.diff; ./check %s; git -C /repo checkout -- .  (tools/seeded_run.py)' % sid[2:]}
    if results:
        j['checks']['last full run'] = results.get(sid)
    json.dump(j, open(p, 'w'), indent=1)
print(len(rows), 'metas filled')
