#!/venv/bin/python
"""development helper: apply one textual mutation to /repo, run a check, always revert.
usage: mut.py <file under /repo> <old> <new> -- <command...>"""
import subprocess, sys
i = sys.argv.index('--')
f, old, new = sys.argv[1:4]
cmd = sys.argv[i + 1:]
path = '/repo/' + f
src = open(path).read()
if src.count(old) != 1:
    print('MUT: pattern occurs %d times' % src.count(old)); sys.exit(3)
open(path, 'w').write(src.replace(old, new))
try:
    p = subprocess.run(cmd, cwd='/verif', stdout=subprocess.PIPE, stderr=subprocess.STDOUT)
    out = p.stdout.decode()
    lines = [l for l in out.splitlines() if l.startswith(('VIOLATION', 'KNOWN', 'MACHINERY', 'C', '  '))]
    print('\n'.join(lines[:12]))
    print('...'); print('\n'.join(out.splitlines()[-6:])); print('MUT rc=%d' % p.returncode)
finally:
    open(path, 'w').write(src)
    subprocess.run(['git', '-C', '/repo', 'diff', '--stat'])
