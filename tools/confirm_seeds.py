#!/venv/bin/python
"""Confirm sub-agent seeds in a scratch worktree: demo passes clean, fails patched, baseline passes unchanged.
usage: confirm_seeds.py <agent worktree> <ID>...   -> copies confirmed seeds to /verif/seeded/A-<ID>-<n>/"""
import json, os, shutil, subprocess, sys, xml.etree.ElementTree as ET
WT = os.environ.get('CONFIRM_WT', '/tmp/wt-verify')
PREFIX = os.environ.get('SEED_PREFIX', 'A')
def sh(cmd, **kw):
    return subprocess.run(cmd, shell=True, stdout=subprocess.PIPE, stderr=subprocess.STDOUT, **kw)
def baseline():
    out = '/tmp/scratch/confirm-%s.junit.xml' % os.path.basename(WT)
    env = dict(os.environ, PYTHONPATH=WT + '/src'); env.pop('SAML2_TOPHAT_VERIF', None)
    sh('cd %s && /venv/bin/python -m pytest -q -p no:cacheprovider --timeout=900 --continue-on-collection-errors --junitxml=%s' % (WT, out), env=env)
    stable = set(json.load(open('/root/.vp/BASELINE.json'))['stable_pass'])
    passed = set()
    for tc in ET.parse(out).getroot().iter('testcase'):
        if not list(tc):
            passed.add(('%s::%s' % (tc.get('classname'), tc.get('name'))).replace('::', '.').replace('.', ':'))
    return [x for x in stable if x.replace('::', '.').replace('.', ':') not in passed]
src, ids = sys.argv[1], sys.argv[2:]
if not os.path.isdir(WT):
    sh('git -C /repo worktree add -q %s HEAD' % WT)
    baseline()      # first run leaves the suite's state files behind (308 state)
for pid in ids:
    d = os.path.join(src, 'seeded_out', pid)
    sh('git -C %s checkout -- . ' % WT)
    e = dict(os.environ, PYTHONPATH=WT + '/src')
    # the demo may locate the repository relative to its own path: keep the same layout inside the scratch worktree
    dd = os.path.join(WT, 'seeded_out', pid)
    shutil.rmtree(dd, ignore_errors=True)
    shutil.copytree(d, dd)
    for fn in os.listdir(dd):
        if fn.endswith(('.py', '.sh')):
            t = open(os.path.join(dd, fn)).read().replace(src, WT)
            open(os.path.join(dd, fn), 'w').write(t)
    demo_cmd = 'cd %s && /venv/bin/python %s/demo.py' % (WT, dd)
    r0 = sh(demo_cmd, env=e)
    ap = sh('git -C %s apply %s' % (WT, os.path.join(d, 'patch.diff')))
    r1 = sh(demo_cmd, env=e)
    missing = baseline()
    sh('git -C %s checkout -- . ' % WT)
    shutil.rmtree(os.path.join(WT, 'seeded_out'), ignore_errors=True)
    ok = r0.returncode == 0 and ap.returncode == 0 and r1.returncode == 1 and not missing
    print(pid, 'clean rc=%d patched rc=%d apply=%d baseline-missing=%d -> %s' % (r0.returncode, r1.returncode, ap.returncode, len(missing), 'CONFIRMED' if ok else 'NOT CONFIRMED'))
    if ok:
        dst = '/verif/seeded/%s-%s' % (PREFIX, pid)
        os.makedirs(dst, exist_ok=True)
        for f in ('patch.diff', 'demo.py', 'notes.md'):
            shutil.copy(os.path.join(d, f), os.path.join(dst, f))
        json.dump({'id': '%s-%s' % (PREFIX, pid), 'property': [pid.split('-')[0]], 'origin': 'independent sub-agent (given only the property text and its own worktree)',
                   'needs': '', 'confirmed': 'scratch worktree %s: demo exit 0 clean, exit 1 patched (%s), baseline 308 stable tests all pass with the patch' % (WT, r1.stdout.decode()[-200:].strip().replace('\n', ' | ')),
                   'checks': {}}, open(os.path.join(dst, 'meta.json'), 'w'), indent=1)
