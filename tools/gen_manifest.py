#!/venv/bin/python
"""Regenerates MANIFEST.json from the table below (a property is claimed when its harness
module exists and its entry here has built=True)."""
import json
import os

VERIF = os.path.dirname(os.path.dirname(os.path.abspath(__file__)))
TOOL_NOTE = ('trusts the tool contract T0-T8 (the real xmlsec1 is absent; harness/standin/xmlsec1 is an '
             'executable model of it, itself checked against TLC-computed tool verdicts), the RSA/3DES/AES '
             'primitives of `cryptography`, and the concretisation templates (guarded by control twins)')

P = {}


def prop(pid, category, text, note, technique, ref, engine='tlc+replay', built=True):
    P[pid] = dict(category=category, text=text, note=note, technique=technique, ref=ref, engine=engine,
                  built=built)


prop('C19', 'model_checking',
     'SessionCache.tla models every public operation of Cache/Population plus the clock; TLC checks the '
     'declarative contract (exact union of unexpired sources, isolation, delete-all, pure queries) against the '
     'operational definitions in every reachable state of the bounded instance; every transition TLC explored is '
     'executed on the real memory- and file-backed cache from a constructed pre-state, simulator behaviours are '
     'replayed step by step, and seeded random executions of the real objects are validated by TLC against the '
     'specification (trace validation with all invariants on)',
     'bounded instance (2-3 subjects x 2-3 sources, small attribute universe); virtual clock by rebinding '
     'saml2_tophat.time_util.time/datetime; expiry 0 with stored information left unspecified',
     'TLA+ state machine + TLC exhaustive + transition replay + TLC trace validation', 'section 5 C19')

prop('C18', 'model_checking',
     'IdentDB.tla models issue / lookup / mapping / manage-name-id / removal over the relation user <-> name '
     'identifier with fresh tokens; TLC checks two-way consistency, uniqueness, freshness, stability, no cross-SP/'
     'cross-user linkage and all-or-nothing removal in every reachable state; every explored transition is executed '
     'on the real dict- and shelve-backed IdentDB from a constructed state (nondeterministic outcomes grouped), '
     'simulator behaviours are replayed, recorded random executions are validated by TLC with the full projected state '
     'after every call; NameIdCode.tla checks reversibility/injectivity of the storage-key escaping design and its '
     'enumerated cases run on the real code()/decode()',
     'bounded instance (2-3 users x 2-3 SPs, <= 3 identifiers exhaustively, <= 12 in simulation); random texts '
     'mapped to tokens by first appearance; strings over a 10-class alphabet up to length 2',
     'TLA+ state machine + TLC exhaustive + transition replay + TLC trace validation', 'section 5 C18')

prop('C15', 'model_checking',
     'RedirectSig.tla models obtain-signer / sign / sign-within-one-call / verify by several entities with different keys '
     'and the process-wide signer object as a design switch; TLC checks KeyOwnership and VerifiesOnlyOwn for every '
     'interleaving of the repaired design (and exhibits the counterexample of the shared-object design as vacuity '
     'control); every bounded behaviour that signs something and simulated longer ones are replayed with real RSA keys '
     'sequentially and with one thread per entity, the key that really signed being determined by an independent '
     'verifier; RedirectQuery.tla enumerates 1 800 (algorithm x message type x RelayState character class x mutation x certificate) '
     'scenarios with the three places a query string is encoded (signed, transmitted, rebuilt by the verifier) as design parameters, '
     'scenarios against the pipeline of verify_redirect_signature; random threaded executions are validated by TLC',
     'interleaving at the granularity of API calls (obtain / sign / verify); 2-3 entities; real 2048-bit RSA keys',
     'TLA+ interleaving model + TLC + behaviour replay (threads) + TLC trace validation', 'section 5 C15')

prop('C02', 'model_checking',
     'SPSigReq.tla models the two-stage force-and-retry procedure of Entity._parse_response with every tool invocation; '
     'TLC checks it against the documented acceptance table on all 144 scenarios (8 option settings x response/assertion '
     'signature absent/valid/invalid x plain/encrypted) and that acceptance implies every recorded verification said OK; '
     'every scenario is rendered with real signatures / encryption (invalid = broken digest, altered SignatureValue or '
     'foreign key; five RSA-SHA algorithms) and replayed into Saml2Client.parse_authn_request_response; the recorded '
     'tool-call traces are validated by the TLA+ contract monitor SPSigReqTrace; SPHistory.tla specifies the SP as a long-lived '
     'receiver (repeated deliveries of genuine and edited copies with the same identifiers; HistoryIndependent; a receiver that '
     'remembers verified signatures is the vacuity control) and every history is replayed into one Saml2Client', TOOL_NOTE,
     'TLA+ scenario spec + TLC + replay + TLC trace validation', 'section 5 C02')

prop('C05', 'model_checking',
     'SPAddress.tla models loads / destination / conditions / subject-confirmation steps of the SP and the contract of the '
     'property over the full cross product (54 464 scenarios incl. encrypted assertions, both browser bindings, endpoint-for-binding and a second bearer confirmation with own / foreign Recipient); TLC '
     'checks the repaired design against the contract (and exhibits the counterexamples of the pinned design as vacuity '
     'control); scenarios are rendered from templates and replayed into Saml2Client.parse_authn_request_response, verdict '
     'and came_from compared with the contract, pipeline disagreements reported as drift notes',
     'unsigned responses (signature options off); the quick tier replays a seeded sample (about 8 600 scenarios), the thorough '
     'tier all; ' + TOOL_NOTE,
     'TLA+ scenario spec + TLC + exhaustive replay', 'section 5 C05')

prop('C04', 'model_checking',
     'SPTime.tla models the five time checks of the SP in code order over integer seconds and the contract of the property '
     '(edges left open); TLC checks pipeline against contract on 33 024 scenarios (subset of optional bounds x focused bound x '
     'distance from its edge x allowance multiples x allowance x spelling) including the session-expiry value; scenarios are '
     'rendered from templates and replayed into the real SP under a virtual clock, verdict and session_info()[not_on_or_after] '
     'compared with the contract; SPHistory.tla (slice Tick) delivers the same message text before and after the clock passes '
     'its NotOnOrAfter to one long-lived SP (HistoryIndependent; a receiver that remembers a time-stamp verdict is the vacuity control)',
     'virtual clock by rebinding saml2_tophat.time_util.time/datetime; unsigned responses; quick tier replays a seeded quarter',
     'TLA+ scenario spec + TLC + exhaustive replay', 'section 5 C04')

prop('C06', 'model_checking',
     'SPStatus.tla models signature / version / destination / status / assertion steps and the documented table second-level '
     'status code -> error class (21 rows); TLC checks the pipeline against the contract (no identity unless Success and '
     'Version 2.0; specific class per standard code, StatusError without one, a generic error for unknown codes) on all '
     'scenarios; scenarios are rendered with really signed assertions and responses and replayed into the SP (requests into '
     'Server.parse_authn_request), exception class names compared with the contract', TOOL_NOTE,
     'TLA+ scenario spec + TLC + replay', 'section 5 C06')

prop('C01', 'model_checking',
     'SigDoc.tla models a signed response as a tree, an attacker with structural edits (forge, change/duplicate/remove IDs, '
     'move, insert forged or copied assertions and Advice/Extensions/ds:Object/foreign containers, copy signatures, drop, wrap '
     'the root, wrap an assertion with an attacker-made signature, and finally seal one top-level assertion for the SP), the tool view (XmlSecTool.tla T1-T4: first Signature below the start node, references by registered ID, '
     'structural digests) and the SP view (last-wins parsing, the C02 acceptance table); TLC checks that the repaired '
     '_check_signature design accepts only documents whose relied-upon element is itself the one its single direct '
     'signature references and digests, for response-, assertion- and both-level signatures (412 908 documents at 3 edits; '
     '41.5 M at 4 edits in the thorough tier) and exhibits the wrapping counterexample of the pinned design; every document '
     'either design or the contract accepts, every document at one edit and a sample of the rest are rendered (verbatim '
     'copies of really made signatures) and replayed into the SP under four requirement settings; the stand-in is '
     'cross-checked against TLC-computed tool verdicts for every document', TOOL_NOTE,
     'TLA+ attacker/tree model + TLC + replay of generated documents', 'section 5 C01')

prop('C03', 'model_checking',
     'SPKeys.tla models the certificate selection of _check_signature (metadata signing/use-less keys of the claimed issuer, '
     'embedded certificates only when the flag is off and metadata holds none) and one tool run per candidate; TLC checks it '
     'against the contract on all 1 680 scenarios (7 key-descriptor layouts x claimed issuer x real signing key x embedded '
     'certificate x flag x signature level); all are replayed with real RSA keys and template-written metadata, and the '
     'stand-in log must show a successful verification under the real signing key for every acceptance; SPHistory.tla (slice Roll) '
     'replays histories with a key roll-over by metadata reload on one long-lived SP (a receiver that caches the issuer certificate is '
     'the vacuity control)', TOOL_NOTE,
     'TLA+ scenario spec + TLC + exhaustive replay', 'section 5 C03')

prop('C20', 'fault_enumeration',
     'ToolFaults.tla enumerates the fault catalogue of XmlSecFaults.tla (error exit, death by signal, empty / truncated / '
     'garbled output, OK inside other text in six spellings, no output file, binary not startable) x invocation site '
     '(response, assertion, decrypted-assertion, request and metadata verification; decryption with first/second key; '
     'statement signing; assertion encryption) x position (first, later, every) x certificate/key order and states what must '
     'be rejected / must raise; every scenario is replayed with the fault-injecting stand-in (in-process, and as a real '
     'subprocess for a sixth of them and all signal/not-startable cases); the recorded invocations of every replay are '
     'validated by the TLA+ monitor ToolFaultsTrace (an accepted identity or returned message must be backed by runs that '
     'genuinely reported success)', TOOL_NOTE,
     'TLA+ fault catalogue + TLC enumeration + fault-injection replay + TLC trace validation', 'section 5 C20')

prop('C17', 'model_checking',
     'EncAssertion.tla models the decryption rounds of AuthnResponse.parse_assertion (keys tried in order, signature of what was '
     'decrypted checked, then the checks every assertion gets) and the contract: undecryptable content or any inner mutation a '
     'plain assertion would be rejected for yields no identity (SameChecks), identities only from decrypted and verified content; '
     'IdP-built responses over sign x sign x advice x self-contained x pefim are searched for markers of the assertion (raw and '
     'base64) and decrypted with every key of the pool; attacker-built encrypted assertions with nine inner mutations are '
     'replayed into the SP with first/second/no key matching; the encrypted slice of the C05 scenario space is replayed as the '
     'relational check', TOOL_NOTE + '; non-self-contained IdP output that the SP cannot read back is a C08 matter (drift note)',
     'TLA+ scenario spec + TLC + replay (IdP build and SP parse)', 'section 5 C17')

prop('C09', 'model_checking',
     'IdPAnswer.tla models pick_binding / response_args over the requester\'s metadata (bindings tried in order, consumer URL '
     'matched exactly, index ignored) and the contract (a result is always a registered (binding, location) pair of the '
     'requester, a supplied URL is honoured exactly or refused, unknown requesters are refused, requests naming a registered '
     'endpoint are answered); TLC checks it on all 2 172 scenarios, all are replayed through Server.parse_authn_request / '
     'parse_logout_request and Server.response_args with template-written metadata',
     'unsigned requests over HTTP-Redirect; four metadata layouts, two SPs', 'TLA+ scenario spec + TLC + exhaustive replay',
     'section 5 C09')

prop('C10', 'model_checking',
     'IdPRequest.tla models unravel / signature_check / schema validation / Request._verify and the contract (handed to the '
     'application only if expected type, schema-valid, Destination absent or own, IssueInstant within a day, signature valid and '
     'covering the request when present, signed when wanted); TLC checks the repaired design on 680 scenarios (AuthnRequest, '
     'LogoutRequest to IdP and SP, AttributeQuery x Redirect/POST/SOAP x none/valid/invalid/wrapped signature x option x twelve '
     'mutations x endpoint configured for the arrival binding or not) and exhibits the counterexample of the pinned design; all '
     'are rendered (really signed, really wrapped) and replayed through Server.parse_authn_request / parse_attribute_query / '
     'Entity.parse_logout_request', TOOL_NOTE, 'TLA+ scenario spec + TLC + exhaustive replay', 'section 5 C10')

prop('C07', 'model_checking',
     'IdPRelease.tla models Policy.filter (entity categories, SP declaration with value constraints, attribute restrictions with '
     'value patterns, per-SP / default lookup), MissingValue and the best-effort path of Server.setup_assertion, and the contract '
     '(released values are within identity, applicable restrictions, entitlements and the SP declaration; nothing is withheld '
     'when only restrictions apply); TLC checks the repaired design on 4 032 requests x 13 predecessors (the long-lived server has just served none or one of '
     'twelve kinds of provider) and exhibits the leak of the pinned '
     'design; scenarios (quick: all without predecessor and a seeded 8 % of the rest) are replayed on one server per policy through Server.create_authn_response and Server.create_attribute_response (an IdP + attribute-authority entity) with template-written SP metadata, the released '
     'set read from the XML by an independent parser',
     'three attributes from the shipped attribute maps, two values (one non-ASCII), the refeds entity-category module; anchored patterns',
     'TLA+ scenario spec + TLC + exhaustive replay', 'section 5 C07')

prop('C16', 'model_checking',
     'MdStore.tla fixes a small federation by fact sets (endpoints, keys with use, categories, requested attributes; an entity '
     'with two roles; a duplicate declaration in a second source) and varies validity dates, signature state of the aggregate '
     '(none/valid/invalid/wrapped), configured verification certificate and load order; Load is one action per source, the '
     'operational lookup (first hit in load order) is checked by TLC against the declarative contract for every query of the '
     'universe (NoExpired, SignedOnly, exact sets, UnknownSystemEntity vs UnsupportedBinding); every scenario is rendered from the '
     'facts TLC emits (really signed / tampered / wrapped aggregates), loaded into the real MetadataStore and all ~72 queries '
     'compared with the acceptable answers; configuration -> metadata -> store round trip for SP and IdP', TOOL_NOTE,
     'TLA+ scenario spec + TLC + exhaustive replay', 'section 5 C16')

prop('C12', 'model_checking',
     'Schema.tla reads the class tables extracted from the working tree (1 154 exported classes of 33 schema modules) and '
     'defines serialisation and parsing the way SamlBase works over them; TLC checks for every class the table invariants the '
     'generic algorithms need (a c_children key names the element of the class it maps to, every member occurs in a non-empty '
     'c_child_order, member names unique) and the abstract round trip of every instance variant; all variants (nothing set, each '
     'attribute, all attributes, each child 1..3 times, all children, foreign child / attribute, own-namespace look-alikes of a declared attribute, XML-special and non-ASCII '
     'text) are built with the real classes, serialised, parsed, compared structurally, re-serialised byte for byte and checked '
     'for schema child order',
     'depth-1 instances; two text classes per class; values are one canonical literal per declared type',
     'TLA+ table model + TLC + exhaustive replay over extracted schema tables', 'section 5 C12')

prop('C13', 'model_checking',
     'Schema.tla (mode validate) enumerates from the extracted class tables, for every class, the minimal valid instance and every '
     'declared constraint violated in isolation (required attribute missing / empty, child one below its declared minimum or '
     'one above its declared maximum, each class of wrong value for dateTime / boolean / integer kinds / duration attributes, '
     'values outside an enumeration for attributes and text) and, for duration-typed attributes and text, every other member of the '
     'lexical space (all 63 component layouts and two negative ones) with the contract "the unmodified instance and its '
     'lexical variants are valid, nothing else is"; every '
     'variant is built with the real classes and run through validate.valid_instance at the root and nested under its possible '
     'parents (3 in the quick tier, 40 in the thorough one)',
     'the otherwise-valid instance is generated from the tables; classes with an overridden verify() are exempt from the '
     'must-be-valid clause', 'TLA+ table model + TLC + exhaustive replay over extracted schema tables', 'section 5 C13')

prop('C14', 'exploration',
     'Bindings.tla models the wire each binding writes as a token sequence (structural separators distinct from escaped payload '
     'characters, per escaping rule) and an independent reader; TLC checks NoInjection (exactly the expected parameters, each '
     'once, existing query preserved, quotes only as delimiters) and RoundTrip for every scenario over a 32-class alphabet (separators, escapes, escape look-alikes, look-alikes of the form template\'s placeholders, backslash spellings, a 70 000-character run), and '
     'exhibits the counterexamples of the pinned design (SOAP newline loss, artifact glue); every scenario is executed through '
     'Entity.apply_binding and read back by strict urllib parse_qsl / html.parser / xml.etree and by Entity.unravel and the SOAP '
     'decoders. Bounded-exhaustive over a character-class alphabet: the "for all strings" part is not proved',
     'strings up to length 1 (quick) / 2 (thorough) over the alphabet; the form action is outside the property',
     'TLA+ wire model + TLC + replay with independent readers', 'section 5 C14')

prop('C11', 'exploration',
     'XmlEntry.tla enumerates words of hostile constructs (five kinds of entity declaration, external DTD, XInclude, stylesheet '
     'PI, UTF-16, BOM, declared-encoding mismatches, truncations, four kinds of encoding-invalid bytes, non-XML) x the entry-point table extracted from the code at check time (54 entry points: '
     'generated *_from_string functions of every schema module, SOAP parsers, SP / IdP parse functions per binding, metadata '
     'load, signature pre-check) with the contract (entity declarations and malformed input refused, never any file or network '
     'access) and a defusing-parser pipeline (a plain-parser variant is the vacuity control); every case is executed with '
     'audit-hook canaries; an AST inventory lists every XML-parsing call site and requires the defusing parser there',
     'access is observed through sys.addaudithook events naming the canary path / host; the optional lxml backend is not installed',
     'TLA+ grammar/entry-point enumeration + TLC + replay with I/O canaries + static call-site inventory', 'section 5 C11')

prop('C08', 'model_checking',
     'EndToEnd.tla composes the IdP build options with the SP acceptance table of C02 (precondition: the requirements are met), the '
     'release contract of C07 (the SP\'s generated metadata asks for what its configuration lists) and the transports of C14, and '
     'enumerates sign_response x sign_assertion x encrypt_assertion x algorithm pair x POST/Redirect/SOAP x requirement triple x '
     'NameID format x session expiry x 13 value classes x unknown attribute x the SP\'s clock-skew allowance x authentication context (class, authenticating authority); IdP and SP are configured from each other\'s '
     'generated metadata, the response is built by Server.create_authn_response, packed by apply_binding, read from the wire by '
     'independent parsers and parsed by the SP; subject, attributes (after name mapping and trimming), in-response-to, issuer, '
     'session expiry and the element structure must equal what was asked',
     TOOL_NOTE + '; concrete strings are sampled per class with the run seed (not proved for all strings); CR characters are '
     'subject to XML line-end normalisation and excluded', 'TLA+ composed scenario spec + TLC + end-to-end replay', 'section 5 C08')


def main():
    props = [json.loads(l) for l in open(os.path.join(VERIF, 'properties.jsonl'))]
    checks, na = [], []
    for p in props:
        pid = p['id']
        ent = P.get(pid)
        mod = os.path.join(VERIF, 'harness', pid.lower() + '.py')
        if ent and ent['built'] and os.path.exists(mod):
            checks.append({
                'property_id': pid,
                'quick_cmd': './check %s --tier quick' % pid,
                'thorough_cmd': './check %s --tier thorough' % pid,
                'evidence_file': 'evidence/%s.json' % pid,
                'replay_cmd_template': './check %s --replay {path}' % pid,
                'engine': ent['engine'],
                'level_claimed': {'category': ent['category'], 'text': ent['text'], 'design_ref': ent['ref']},
                'level_note': ent['note'],
                'technique': ent['technique'],
            })
        else:
            na.append({'property_id': pid,
                       'reason': 'check not built yet (work in progress; the design in DESIGN.md section 5 applies '
                                 'the TLA+ technique to it) -- not claimed until its harness is committed'})
    served = [c['property_id'] for c in checks]
    man = {
        'version': 1,
        'setup_cmd': './setup.sh',
        'hooks': {
            'guard': 'SAML2_TOPHAT_VERIF',
            'enable': 'no in-repo hooks: checks import /repo/src of the working tree and observe at the tool '
                      'process boundary (stand-in log), the public API and harness-side rebinding of module '
                      'attributes (virtual clock, Popen, scheduler); the variable is set by ./check anyway',
            'baseline_off_cmd': 'cd /repo && /venv/bin/python -m pytest -ra -q -p no:cacheprovider --timeout=900 '
                                '--continue-on-collection-errors --junitxml=/verif/work/baseline.junit.xml',
            'source_commits': [],
            'add_only': True,
        },
        'engines': [
            {'name': 'tlc', 'path': 'spec/', 'serves_properties': served,
             'kind_free_text': 'TLA+ specifications checked by TLC 1.8 (exhaustive small configurations, '
                               '-simulate, trace validation of recorded executions)'},
            {'name': 'replay', 'path': 'harness/', 'serves_properties': served,
             'kind_free_text': 'TLC-generated cases / transitions / behaviours executed against /repo\'s working '
                               'tree; recorded executions handed back to TLC'},
            {'name': 'xmlsec1-standin', 'path': 'harness/standin/xmlsec1',
             'serves_properties': [x for x in served if x in ('C01', 'C02', 'C03', 'C08', 'C10', 'C16', 'C17', 'C20')],
             'kind_free_text': 'executable model of the absent external tool (contract T0-T8)'},
        ],
        'checks': checks,
        'not_applicable': na,
        'notes': 'see DESIGN.md; known findings in known_findings.jsonl',
    }
    with open(os.path.join(VERIF, 'MANIFEST.json'), 'w') as f:
        json.dump(man, f, indent=1)
    print('claimed:', ' '.join(served))


if __name__ == '__main__':
    main()
